//! Compile-fail witnesses: type-level facts the properties rely on. Each witness is a
//! `compile_fail,E0xxx` doc-test paired with a compiling `no_run` twin that differs only in the
//! offending line, so a witness whose path is merely wrong cannot masquerade as a pass. Nothing is
//! executed. Run with `cargo +nightly test --doc --offline` (error codes are only checked on nightly).

/// W1 -- `Channel` is not `Sync`: two threads can never have a call outstanding on one channel
/// (C02 contiguity, C04 at most one outstanding call).
/// ```compile_fail,E0277
/// fn is_sync<T: Sync>() {}
/// is_sync::<amiquip::Channel>();
/// ```
/// twin: it is `Send` (a channel may be moved to another thread)
/// ```no_run
/// fn is_send<T: Send>() {}
/// is_send::<amiquip::Channel>();
/// ```
pub struct W1ChannelNotSync;

/// W2 -- opening a channel needs exclusive access to the connection (allocation requests are serialised).
/// ```compile_fail,E0596
/// fn f(conn: &amiquip::Connection) -> amiquip::Result<amiquip::Channel> {
///     conn.open_channel(None)
/// }
/// ```
/// ```no_run
/// fn f(conn: &mut amiquip::Connection) -> amiquip::Result<amiquip::Channel> {
///     conn.open_channel(None)
/// }
/// ```
pub struct W2OpenChannelNeedsMut;

/// W3 -- a closed connection cannot be used again (C05/C08: close consumes the connection).
/// ```compile_fail,E0382
/// fn f(conn: amiquip::Connection) -> amiquip::Result<()> {
///     conn.close()?;
///     let _ = conn.server_properties();
///     Ok(())
/// }
/// ```
/// ```no_run
/// fn f(conn: amiquip::Connection) -> amiquip::Result<()> {
///     let _ = conn.server_properties();
///     conn.close()?;
///     Ok(())
/// }
/// ```
pub struct W3ConnectionUseAfterClose;

/// W4 -- a closed channel cannot be used again.
/// ```compile_fail,E0382
/// fn f(ch: amiquip::Channel) -> amiquip::Result<()> {
///     ch.close()?;
///     ch.qos(0, 1, false)
/// }
/// ```
/// ```no_run
/// fn f(ch: amiquip::Channel) -> amiquip::Result<()> {
///     ch.qos(0, 1, false)?;
///     ch.close()
/// }
/// ```
pub struct W4ChannelUseAfterClose;

/// W5 -- a queue handle cannot outlive its channel (C11/C12: operations travel on the object's own channel).
/// ```compile_fail,E0597
/// fn f(conn: &mut amiquip::Connection) -> amiquip::Result<()> {
///     let q;
///     {
///         let ch = conn.open_channel(None)?;
///         q = ch.queue_declare("q", amiquip::QueueDeclareOptions::default())?;
///     }
///     let _ = q.name();
///     Ok(())
/// }
/// ```
/// ```no_run
/// fn f(conn: &mut amiquip::Connection) -> amiquip::Result<()> {
///     let ch = conn.open_channel(None)?;
///     let q;
///     {
///         q = ch.queue_declare("q", amiquip::QueueDeclareOptions::default())?;
///     }
///     let _ = q.name();
///     Ok(())
/// }
/// ```
pub struct W5QueueOutlivesChannel;

/// W6 -- a consumer cannot outlive its channel (its Drop cancels through that channel).
/// ```compile_fail,E0597
/// fn f(conn: &mut amiquip::Connection) -> amiquip::Result<()> {
///     let c;
///     {
///         let ch = conn.open_channel(None)?;
///         c = ch.basic_consume("q", amiquip::ConsumerOptions::default())?;
///     }
///     let _ = c.consumer_tag();
///     Ok(())
/// }
/// ```
/// ```no_run
/// fn f(conn: &mut amiquip::Connection) -> amiquip::Result<()> {
///     let ch = conn.open_channel(None)?;
///     let c = ch.basic_consume("q", amiquip::ConsumerOptions::default())?;
///     let _ = c.consumer_tag();
///     Ok(())
/// }
/// ```
pub struct W6ConsumerOutlivesChannel;

/// W7 -- `Channel` cannot be cloned (one sender per channel id / one receiver per consumer).
/// ```compile_fail,E0277
/// fn need_clone<T: Clone>() {}
/// need_clone::<amiquip::Channel>();
/// ```
/// twin: the same helper accepts a type that is Clone
/// ```no_run
/// fn need_clone<T: Clone>() {}
/// need_clone::<amiquip::Delivery>();
/// ```
pub struct W7ChannelNotClone;

/// W8 -- `Connection` cannot be cloned (one sender per channel id / one receiver per consumer).
/// ```compile_fail,E0277
/// fn need_clone<T: Clone>() {}
/// need_clone::<amiquip::Connection>();
/// ```
/// twin: the same helper accepts a type that is Clone
/// ```no_run
/// fn need_clone<T: Clone>() {}
/// need_clone::<amiquip::Delivery>();
/// ```
pub struct W8ConnectionNotClone;

/// W9 -- `Consumer` cannot be cloned (one sender per channel id / one receiver per consumer).
/// ```compile_fail,E0277
/// fn need_clone<T: Clone>() {}
/// need_clone::<amiquip::Consumer>();
/// ```
/// twin: the same helper accepts a type that is Clone
/// ```no_run
/// fn need_clone<T: Clone>() {}
/// need_clone::<amiquip::Delivery>();
/// ```
pub struct W9ConsumerNotClone;

/// W10 -- a deleted queue handle cannot be used again.
/// ```compile_fail,E0382
/// fn f(q: amiquip::Queue) -> amiquip::Result<()> {
///     q.delete(amiquip::QueueDeleteOptions::default())?;
///     let _ = q.name();
///     Ok(())
/// }
/// ```
/// ```no_run
/// fn f(q: amiquip::Queue) -> amiquip::Result<()> {
///     let _ = q.name();
///     q.delete(amiquip::QueueDeleteOptions::default())?;
///     Ok(())
/// }
/// ```
pub struct W10QueueUseAfterDelete;

/// W11 -- acknowledging consumes the delivery: it cannot be acked twice.
/// ```compile_fail,E0382
/// fn f(d: amiquip::Delivery, ch: &amiquip::Channel) -> amiquip::Result<()> {
///     d.ack(ch)?;
///     d.ack(ch)
/// }
/// ```
/// ```no_run
/// fn f(d: amiquip::Delivery, ch: &amiquip::Channel) -> amiquip::Result<()> {
///     let e = d.clone();
///     d.ack(ch)?;
///     e.ack(ch)
/// }
/// ```
pub struct W11DeliveryAckedOnce;
