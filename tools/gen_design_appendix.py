#!/usr/bin/env python3
"""Regenerates Appendix C of DESIGN.md (rule inventory as built) from the evidence files of the last quick run."""
import json, os, re
HERE = os.path.dirname(os.path.dirname(os.path.abspath(__file__)))
out = ['## Appendix C — rule inventory as built (generated from evidence/*.json by tools/gen_design_appendix.py)', '']
for i in range(1, 21):
    p = os.path.join(HERE, 'evidence', 'C%02d.json' % i)
    if not os.path.exists(p):
        continue
    e = json.load(open(p))
    c = e['coverage']
    out.append('**C%02d** — %d rule instances, %d functions read (as recorded in evidence/C%02d.json: a thorough-tier file counts the instances of both feature configurations, a quick-tier file those of the default one)' % (i, c['obligations'], c['functions_analysed'], i))
    out.append('')
    for r in c['rules']:
        out.append('* ' + r)
    out.append('')
s = open(os.path.join(HERE, 'DESIGN.md')).read()
marker = '## Appendix C'
if marker in s:
    s = s[:s.index(marker)]
s = s.rstrip('\n') + '\n\n' + '\n'.join(out) + '\n'
open(os.path.join(HERE, 'DESIGN.md'), 'w').write(s)
print('appendix C written')
