#!/usr/bin/env python3
"""Store confirmed seeds under /verif/seeded/<PID>-<k>/ and (re)write meta.json + SUMMARY.md from the
sub-agent's own report, my confirmation log and the evaluation of all twenty checks (seeded/eval.json).

  seed_store.py import <seed-out dir> <confirm.json> <k> [<k> ...]   copy patch + demo + meta for the given seed numbers
  seed_store.py summary                                              after tools/seed_eval.py /verif/seeded: refresh meta + SUMMARY.md
"""
import json, os, shutil, sys
HERE = os.path.dirname(os.path.dirname(os.path.abspath(__file__)))
SEEDED = os.path.join(HERE, 'seeded')


def imp(src, confirm, ks):
    conf = {c['seed']: c for c in json.load(open(confirm))}
    for pid in sorted(os.listdir(src)):
        for k in ks:
            sd = os.path.join(src, pid, k)
            if not os.path.exists(os.path.join(sd, 'patch.diff')):
                continue
            c = conf.get('%s/%s' % (pid, k))
            if not c:
                print('no confirmation for', pid, k)
                continue
            if not (c['patch_applies'] and c['baseline_40_pass'] and c['demo_passes_without_seed'] and c['demo_fails_with_seed']):
                print('NOT CONFIRMED, not stored:', pid, k)
                continue
            dst = os.path.join(SEEDED, '%s-%s' % (pid, k))
            shutil.rmtree(dst, ignore_errors=True)
            os.makedirs(dst)
            shutil.copy2(os.path.join(sd, 'patch.diff'), dst)
            if os.path.isdir(os.path.join(sd, 'demo')):
                shutil.copytree(os.path.join(sd, 'demo'), os.path.join(dst, 'demo'))
            meta = {}
            if os.path.exists(os.path.join(sd, 'meta.json')):
                try:
                    meta = json.load(open(os.path.join(sd, 'meta.json')))
                except ValueError:
                    meta = {'raw_meta': open(os.path.join(sd, 'meta.json')).read()}
            meta['property'] = pid
            meta['author'] = 'independent sub-agent given only the property record and a scratch worktree'
            meta['confirmed_by_maintainer_of_verif'] = {
                'how': c.get('how', 'scratch worktree of /repo HEAD: demo run without the patch; git apply patch; cargo test --offline --lib (>= 40 baseline tests, up to 4 tries because '
                                    'heartbeats::tests are wall-clock flaky under load); demo run with the patch'),
                'patch_applies': c['patch_applies'], 'baseline_40_pass_with_seed': c['baseline_40_pass'], 'demo_passes_without_seed': c['demo_passes_without_seed'],
                'demo_fails_with_seed': c['demo_fails_with_seed'], 'baseline_tries': c.get('baseline_tries'), 'demo_log_without': c.get('log_without'), 'demo_log_with': c.get('log_with')}
            json.dump(meta, open(os.path.join(dst, 'meta.json'), 'w'), indent=1)
            print('stored', dst)


def summary():
    ev = json.load(open(os.path.join(SEEDED, 'eval.json')))
    rows = []
    for r in sorted(ev, key=lambda r: r['patch']):
        sid = os.path.basename(os.path.dirname(r['patch']))
        pid = sid.split('-')[0]
        mp = os.path.join(SEEDED, sid, 'meta.json')
        meta = json.load(open(mp))
        fired = r.get('fired', {})
        meta['checks_that_fire'] = fired
        meta['caught_by_own_property_check'] = pid in fired
        json.dump(meta, open(mp, 'w'), indent=1)
        others = sorted(k for k in fired if k != pid)
        desc = (meta.get('summary') or meta.get('change') or meta.get('description') or '')
        if isinstance(desc, (list, dict)):
            desc = json.dumps(desc)
        desc = desc.replace('\n', ' ').replace('|', '/')[:110]
        rows.append('| %s | %s | %s |' % (sid, desc, ', '.join(([pid] if pid in fired else ['**not by %s**' % pid]) + others) if r.get('status') == 'ok' else r.get('status')))
    with open(os.path.join(SEEDED, 'SUMMARY.md'), 'w') as fh:
        fh.write('# Seeded changes (independent sub-agents) and the checks that catch them\n\n| seed | change | checks that fire (own property first) |\n|---|---|---|\n')
        fh.write('\n'.join(rows) + '\n')
    n = sum(1 for r in ev if os.path.basename(os.path.dirname(r['patch'])).split('-')[0] in r.get('fired', {}))
    print('%d seeds, %d caught by their own property' % (len(ev), n))


if __name__ == '__main__':
    if sys.argv[1] == 'import':
        imp(sys.argv[2], sys.argv[3], sys.argv[4:])
    else:
        summary()
