#!/bin/bash
# runs all twenty quick checks on /repo's current tree and prints one line per property (+ any violated keys)
cd "$(dirname "$0")/.."
for i in 01 02 03 04 05 06 07 08 09 10 11 12 13 14 15 16 17 18 19 20; do ./check C$i "$@" | grep -E "key=|KNOWN|SELFTEST|^C[0-9]" | cut -c1-220; done
