#!/usr/bin/env python3
"""Regenerates MANIFEST.json from the rule modules present (keeps it valid at all times)."""
import importlib
import json
import os
import sys

HERE = os.path.dirname(os.path.dirname(os.path.abspath(__file__)))
sys.path.insert(0, os.path.join(HERE, 'engine', 'amqlint'))
props = [json.loads(l) for l in open(os.path.join(HERE, 'properties.jsonl'))]
NA_REASON = {}
checks = []
na = []
for p in props:
    pid = p['id']
    try:
        mod = importlib.import_module('rules.' + pid.lower())
    except ImportError:
        mod = None
    if mod is None or getattr(mod, 'NOT_APPLICABLE', None):
        na.append({'property_id': pid, 'reason': getattr(mod, 'NOT_APPLICABLE', None) or 'static check not built yet in this round (planned in DESIGN.md section 5)'})
        continue
    checks.append({
        'property_id': pid,
        'quick_cmd': './check %s --tier quick' % pid,
        'thorough_cmd': './check %s --tier thorough' % pid,
        'evidence_file': 'evidence/%s.json' % pid,
        'replay_cmd_template': './check %s --explain {path}' % pid,
        'engine': 'amqlint',
        'level_claimed': {'category': 'other', 'text': mod.LEVEL_TEXT, 'design_ref': 'DESIGN.md section 5, ' + pid},
        'level_note': mod.LEVEL_NOTE,
        'technique': mod.TECHNIQUE,
    })
m = {
    'version': 1,
    'setup_cmd': './setup.sh',
    'hooks': {
        'guard': 'amiquip_amiquip_verif',
        'enable': 'none needed: static analysis reads the unmodified crate through a rustc_private driver (RUSTC_WORKSPACE_WRAPPER under cargo +nightly check)',
        'baseline_off_cmd': 'cd /repo && cargo test --workspace --no-fail-fast --offline',
        'source_commits': [],
        'add_only': True,
    },
    'engines': [
        {'name': 'factsdriver', 'path': 'engine/factsdriver', 'serves_properties': [p['id'] for p in props],
         'kind_free_text': 'rustc_private driver exporting the resolved HIR, MIR (mir_promoted, opt-level 0) and items of the amiquip crate as JSON'},
        {'name': 'amqlint', 'path': 'engine/amqlint', 'serves_properties': [p['id'] for p in props],
         'kind_free_text': 'Python rule library over the facts: symbolic HIR reader with bounded inlining, path tables, call graph, dominators, panic inventory, oracle tables in spec/'},
    ],
    'checks': checks,
    'not_applicable': na,
    'notes': 'Static analysis only (no execution of amiquip code). Fix commits in /repo repair genuine defects found by the rules (KNOWN_FINDINGS.txt); no hooks are needed.',
}
with open(os.path.join(HERE, 'MANIFEST.json'), 'w') as fh:
    json.dump(m, fh, indent=1)
print('claimed:', [c['property_id'] for c in checks])
print('not applicable:', [x['property_id'] for x in na])
