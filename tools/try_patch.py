#!/usr/bin/env python3
"""tools/try_patch.py <patch.diff> [Cnn ...]: apply a patch to a scratch copy of /repo (never to /repo itself), analyse it
like the real tree and print the rule instances that do not hold for the given properties (default: all twenty)."""
import importlib, json, os, shutil, sys
HERE = os.path.dirname(os.path.dirname(os.path.abspath(__file__)))
sys.path.insert(0, os.path.join(HERE, 'engine', 'amqlint'))
import core, facts, selftest_runner as SR  # noqa


def main():
    patch = os.path.abspath(sys.argv[1])
    props = [p.upper() for p in sys.argv[2:]] or ['C%02d' % i for i in range(1, 21)]
    width = int(os.environ.get('W', '700'))
    facts.ensure_driver()
    d, repo, tgt = SR.scratch_copy()
    try:
        ok, msg = SR.apply_edit(repo, {'kind': 'patch', 'path': patch})
        if not ok:
            print('patch-failed:', msg)
            return 2
        try:
            f, info = facts.extract('default', repo=repo, target_dir=tgt, out=os.path.join(d, 'facts.json'))
        except facts.FactsError as e:
            print('does-not-compile:', str(e)[-400:])
            return 2
        info['repo'] = repo
        for p in props:
            mod = importlib.import_module('rules.' + p.lower())
            ctx = core.Ctx(f, info, p)
            core.run_rules(mod, ctx)
            bad = [i for r in ctx.rules for i in r.insts if not i.ok]
            print('%s: %d not holding' % (p, len(bad)))
            for i in bad[:int(os.environ.get('N', '6'))]:
                print('  *', i.key)
                print('     built:', json.dumps(core.jsonable(i.built))[:width])
                print('     exp:  ', json.dumps(core.jsonable(i.expected))[:width])
                print('     why:  ', (i.why or '')[:300])
    finally:
        shutil.rmtree(d, ignore_errors=True)


if __name__ == '__main__':
    sys.exit(main() or 0)
