#!/usr/bin/env python3
"""Interactive helper: ctx over the facts of /repo's *current* tree."""
import os, sys
HERE = os.path.dirname(os.path.dirname(os.path.abspath(__file__)))
sys.path.insert(0, os.path.join(HERE, 'engine', 'amqlint'))
import core, facts  # noqa


def ctx(prop='CXX', config='default'):
    f, info = facts.extract(config)
    return core.Ctx(f, info, prop)
