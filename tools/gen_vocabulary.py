#!/usr/bin/env python3
"""Regenerate the type vocabulary (spec/vocabulary_adts.json) from /repo's current tree: every crate-local struct / enum
with its shape (variants, field names, field types with the type's own path written `Self`). Run it only when the oracle
tables are being re-based on a new pinned tree -- the vocabulary is what the tables know, not what the code has today."""
import json, os, sys
HERE = os.path.dirname(os.path.dirname(os.path.abspath(__file__)))
sys.path.insert(0, os.path.join(HERE, 'engine', 'amqlint'))
import core, facts  # noqa


def main():
    f, info = facts.extract('default')
    out = {}
    for a in f['adts']:
        if a.get('cfg_test'):
            continue
        out[core.S.norm_path(a['path'])] = core.adt_shape(a)
    with open(os.path.join(HERE, 'spec', 'vocabulary_adts.json'), 'w') as fh:
        json.dump(out, fh, indent=0, sort_keys=True)
    print('%d types' % len(out))


if __name__ == '__main__':
    main()
