#!/usr/bin/env python3
"""Evaluate every seeded patch under a directory against all 20 property checks (on scratch copies).
Environment: PROPS=C01,C06 restricts the properties, POOL=n the workers, OUT=file the result file (default <dir>/eval.json)."""
import glob, importlib, json, multiprocessing, os, shutil, sys
HERE = os.path.dirname(os.path.dirname(os.path.abspath(__file__)))
sys.path.insert(0, os.path.join(HERE, 'engine', 'amqlint'))
import core, facts, selftest_runner as SR  # noqa

PROPS = os.environ['PROPS'].split(',') if os.environ.get('PROPS') else ['C%02d' % i for i in range(1, 21)]


def one(patch):
    d, repo, tgt = SR.scratch_copy()
    out = {'patch': patch}
    try:
        ok, msg = SR.apply_edit(repo, {'kind': 'patch', 'path': patch})
        if not ok:
            out['status'] = 'patch-failed: ' + msg
            return out
        try:
            f, info = facts.extract('default', repo=repo, target_dir=tgt, out=os.path.join(d, 'facts.json'))
        except facts.FactsError as e:
            out['status'] = 'does-not-compile: ' + str(e)[-200:]
            return out
        info['repo'] = repo
        fired = {}
        for p in PROPS:
            mod = importlib.import_module('rules.' + p.lower())
            ctx = core.Ctx(f, info, p)
            core.run_rules(mod, ctx)
            bad = sorted(set(i.key for r in ctx.rules for i in r.insts if not i.ok))
            if bad:
                fired[p] = bad[:6]
                if os.environ.get('SEED_EVAL_DETAILS'):
                    det = out.setdefault('details', {})
                    for r in ctx.rules:
                        for i in r.insts:
                            if not i.ok and i.key not in det and '/' not in i.key.split(':')[1][:6]:
                                det[i.key] = {'built': json.dumps(core.jsonable(i.built))[:1200], 'expected': json.dumps(core.jsonable(i.expected))[:800], 'why': (i.why or '')[:300]}
        out['status'] = 'ok'
        out['fired'] = fired
        return out
    finally:
        shutil.rmtree(d, ignore_errors=True)


if __name__ == '__main__':
    root = sys.argv[1]
    patches = sorted(glob.glob(os.path.join(root, '*', '*', 'patch.diff')) + glob.glob(os.path.join(root, '*', 'patch.diff')))
    facts.ensure_driver()
    with multiprocessing.Pool(int(os.environ.get('POOL', '8'))) as pool:
        res = pool.map(one, patches)
    for r in res:
        rel = os.path.relpath(r['patch'], root)
        own = rel.split('/')[0].split('-')[0]
        fired = r.get('fired', {})
        verdict = 'CAUGHT' if own in fired else ('caught-by-other' if fired else 'MISSED')
        print('%-22s %-16s %s' % (rel.replace('/patch.diff', ''), verdict if r['status'] == 'ok' else r['status'], {k: v[:2] for k, v in fired.items()}))
    json.dump(res, open(os.environ.get('OUT') or os.path.join(root, 'eval.json'), 'w'), indent=1)
