"""Path tables: enumerate the structural paths of a (loop-free at top level) function body and
give, per path, its conditions, ordered effects and resulting value -- the as-built decision
table that rules compare with hand-written expectations."""
import re

import canon
import hir as H
import sym as S
from core import Unrecognised


class Path(object):
    def __init__(self, conds=(), effects=(), value=None, done=None, env=None):
        self.conds = list(conds)
        self.effects = list(effects)
        self.value = value
        self.done = done  # None | 'return' | 'break' | 'continue' | 'panic'
        self.env = env if env is not None else {}
        self.marks = {}  # condition subject -> number of effects when it was last tested on this path

    def fork(self, **kw):
        p = Path(self.conds, self.effects, self.value, self.done, dict(self.env))
        p.marks = dict(self.marks)
        for k, v in kw.items():
            setattr(p, k, v)
        return p

    def subject(self, s):
        """The name under which a test of expression `s` is recorded now. An expression tested twice denotes the same value
        only if nothing that could change it happened in between: a call in it is a new call, a place in it may have been
        written. Otherwise the second test is about a new value and gets a primed name, so that it is neither merged with
        nor found contradictory to the first."""
        if not isinstance(s, str):
            return s
        base = s
        while base in self.marks and self._stale(base):
            base += "'"
        self.marks[base] = len(self.effects)
        return base

    def _stale(self, s):
        since = [e for e in self.effects[self.marks[s]:] if not e.startswith(('let ', 'for _ in', '}', 'loop {'))]
        if not since:
            return False
        bare = s.rstrip("'")
        roots = set(re.findall(r'(?<![\w.:$])((?:self|[a-z_$][\w$]*)(?:\.[a-z_]\w*)?)(?![\w(:])', bare))
        for e in since:
            if re.search(r'[\w>]\(', e) and ' = ' not in e and e in bare:
                return True  # a call the expression contains was made again: the expression was evaluated anew (a value bound once is not)
            if (' = ' in e or ' += ' in e or ' -= ' in e) and any(e.startswith(r_) or e.startswith(r_.split('.')[0] + '.') or e.startswith(r_.split('.')[0] + ' ') for r_ in roots) \
                    and not re.search(r'[\w>]\(', bare.split(' ')[0]):
                return True  # a place the expression reads was written (an expression that starts with a call is the value of that call)
        return False

    def cond_strs(self):
        return ['%s%s' % ('' if pol is True else ('!' if pol is False else ''), c) if not isinstance(pol, str) else '%s ~ %s' % (c, pol) for c, pol in self.conds]

    def effect_strs(self):
        return [e for e in self.effects]

    def value_str(self):
        return S.show(self.value) if self.value is not None else '()'

    def row(self):
        return {'when': self.cond_strs(), 'do': self.effect_strs(), 'value': self.value_str(), 'exit': self.done}

    def __repr__(self):
        return 'Path(%s | %s | %s | %s)' % (' & '.join(self.cond_strs()), '; '.join(self.effect_strs()), self.value_str(), self.done)


def effect_of(e):
    if e.kind == 'call' and e.term is not None and e.term[0] == 'call' and e.term[1] in canon.ENTRY_FNS and len(e.term[2]) == 2:
        # looking a key up through the entry API is, as an effect, the presence test it stands for
        return '%s::contains_key(%s, %s)' % (e.term[1].rsplit('::', 1)[0], S.show(e.term[2][0]), S.show(e.term[2][1]))
    if e.kind in ('call', 'callvalue'):
        return S.show(e.term)
    if e.kind == 'assign':
        return '%s = %s' % (S.show(e.lhs), S.show(e.term))
    if e.kind == 'assignop':
        return '%s %s %s' % (S.show(e.lhs), e.extra, S.show(e.term[3]))
    if e.kind == 'macro':
        return S.show(e.term)
    if e.kind == 'snapshot':
        return 'let %s = %s' % (S.show(e.lhs), S.show(e.term))
    return None


class Enumerator(object):
    def __init__(self, ctx, max_paths=4000, keep_pure_calls=True):
        self.ctx = ctx
        self.ev = ctx.evaluator(0)
        self.max_paths = max_paths
        self.stack = []          # helpers being walked path-wise
        self.closure_fx = {}     # closure def -> [(event, effect string)] recorded when the closure expression was evaluated

    def leaf(self, node, path):
        """Evaluate a control-flow-free expression on this path; returns the term and records effects."""
        n0 = len(self.ev.events)
        t = self.ev.eval(node, path.env, [], None, [])
        for e in self.ev.events[n0:]:
            if e.kind == 'callclosure' and e.callee in self.closure_fx:
                # a locally defined closure is called here: its body's effects happen now, with the
                # arguments substituted -- not where the closure expression was written
                f = e.extra
                for de, ds in self.closure_fx[e.callee]:
                    if ds in path.effects:
                        path.effects.remove(ds)
                for de, ds in self.closure_fx[e.callee]:
                    term, lhs = de.term, de.lhs
                    for (nm, pid), a in zip(f[2], e.args):
                        term = S.replace(term, ('var', nm, pid), a)
                        if lhs is not None:
                            lhs = S.replace(lhs, ('var', nm, pid), a)
                    s2 = effect_of(S.Event(kind=de.kind, term=term, lhs=lhs, extra=de.extra))
                    if s2 is not None:
                        path.effects.append(s2)
                continue
            if e.kind == 'call' and isinstance(e.extra, dict) and e.extra.get('inlined'):
                continue  # the call of a helper that is read through: its body's effects follow
            s = effect_of(e)
            if s is not None:
                cl = [g for g in e.guards if g[2] == 'closure']
                if cl:
                    self.closure_fx.setdefault(cl[-1][3], []).append((e, s))
                path.effects.append(s)
        return t

    def add_pat_cond(self, path, vterm, pred, names, ty=None):
        if names and ty is not None:
            info = canon.variants_of(ty)
            if info is not None and set(names) == set(x[0] for x in info[1]):
                return  # every variant: the arm tests nothing
        cc = canon.cmp_conds(vterm, names) if names else None
        if cc is not None:
            path.conds = canon.simplify(path.conds + [(path.subject(s_), p_) for s_, p_ in cc])
        else:
            subj = path.subject(S.show(vterm))
            if canon.contradictory(path.conds + [(subj, pred)]):
                path.done = 'infeasible'  # the same value was already found not to match: nothing runs on this path
            path.conds = canon.simplify(path.conds + [(subj, pred)])

    @staticmethod
    def bool_contradiction(conds, lits):
        """the same boolean subject with both polarities: an infeasible combination"""
        seen = {}
        for s_, p_ in list(conds) + list(lits):
            if isinstance(p_, bool):
                if seen.get(s_, p_) != p_:
                    return True
                seen[s_] = p_
        return False

    def needs_paths(self, e):
        """the expression branches (itself, or through a helper that is read through), so it is walked path by path"""
        if self.has_ctl(e):
            return True
        x = H.peel(e)
        if x.get('k') == 'Try':
            return self.needs_paths(x['e'])
        return self.helper_target(x) is not None or self.is_foreach(x)

    def log_only_ids(self):
        key = self.stack[-1] if self.stack else getattr(self, 'root_fn', None)
        return self.ev.log_only(key) if key else set()

    def is_foreach(self, node):
        return node.get('k') in ('Call', 'MethodCall') and S.norm_path(H.callee_decl(node) or '') in ('std::iter::Iterator::try_for_each', 'std::iter::Iterator::for_each') \
            and len(H.call_args(node)) == 2 and S.closure_node(H.call_args(node)[1]) is not None and len(S.closure_node(H.call_args(node)[1])['params']) == 1

    def helper_target(self, node):
        """A call of a crate-local helper the oracle vocabulary does not know and whose body branches:
        walked path-wise, as if its body stood at the call site."""
        if node.get('k') not in ('Call', 'MethodCall'):
            return None
        cp = H.callee_path(node)
        if cp is None:
            return None
        npath = H.norm_path(cp)
        target = self.ev.fns.get(npath)
        if target is None or 'hir' not in target or not self.ctx.new_helper(npath) or npath in self.stack or len(self.stack) >= 3:
            return None
        if not self.has_ctl(target['hir']):
            return None
        if any(self.has_ctl(a) for a in H.call_args(node) if S.closure_node(a) is None):
            return None
        return npath, target

    def inline_helper(self, node, npath, target, path):
        args = []
        lent = {}   # parameter position -> caller's local handed to the helper as `&mut local`
        for i_, a in enumerate(H.call_args(node)):
            if a.get('k') == 'AddrOf' and a.get('mut') and a['e'].get('k') == 'Local' and not (a['e'].get('ty') or '').startswith('&') \
                    and i_ < len(target.get('params', [])) and target['params'][i_].get('k') == 'Bind' and path.env.get(a['e']['id']) is not None:
                # the helper is read through, so what it does to the local is seen where it does it: the local keeps its term
                # (unless the helper assigns through the reference, see below)
                args.append(path.env[a['e']['id']])
                lent[i_] = a['e']
                continue
            args.append(self.leaf(a, path))
        for a in args:
            if a is not None and a[0] == 'closure':
                # handed to a helper we read through: the body runs where (and if) the helper calls it
                for de, ds in self.closure_fx.get(a[1], []):
                    if ds in path.effects:
                        path.effects.remove(ds)
        params = target.get('params', [])
        if len(params) != len(args):
            raise Unrecognised('helper %s: %d parameters, %d arguments' % (npath, len(params), len(args)))
        saved_env = path.env
        saved_mut = self.ev.mutated
        saved_ty = self.ev.tyenv
        self.ev.mutated = dict(saved_mut)
        self.ev.mutated.update(self.ev.mutated_locals(npath, target))
        saved_tr = self.ev.tracked
        self.ev.tracked = set(saved_tr) | self.ev.trackable_locals(target, True)
        for lid in self.ev.tracked:
            self.ev.mutated.pop(lid, None)
        gens = target.get('generics', [])
        gargs = tuple(node.get('gargs', [])) if node.get('k') == 'MethodCall' else tuple((node.get('f') or {}).get('gargs', []))
        gargs = tuple(self.ev.tyenv.get(g, g) for g in gargs)
        self.ev.tyenv = dict(zip(gens, gargs)) if len(gens) == len(gargs) else {}
        env = {}
        for prm, a in zip(params, args):
            if prm.get('k') == 'Bind' and a is not None and a[0] == 'var':
                self.ev.mutated.pop(prm['id'], None)
            self.ev.bind_pat(prm, a, env)
        sub = path.fork(env=env)
        self.stack.append(npath)
        try:
            outs = self.run(target['hir'], sub)
        finally:
            self.stack.pop()
            self.ev.mutated = saved_mut
            self.ev.tracked = saved_tr
            self.ev.tyenv = saved_ty
        overwritten = set(i_ for i_ in lent if S.assigns_through_param(target, i_))
        for p in outs:
            if p.done == 'return':
                p.done = None
            elif p.done in ('break', 'continue'):
                raise Unrecognised('helper %s leaves a loop of its caller' % npath)
            p.env = dict(saved_env)
            for i_ in overwritten:
                loc = lent[i_]
                p.env[loc['id']] = ('var', self.ev.mutated.get(loc['id']) or loc['name'], loc['id'])
        return outs

    def has_ctl(self, node):
        for n in H.walk_outside_closures(node):
            if n.get('k') in ('If', 'Match', 'Ret', 'Loop', 'Break', 'Continue') and not (n.get('k') == 'Match' and n.get('src') == 'Try'):
                if n.get('k') == 'Match' and n.get('tail_of') and S.is_propagate_match(n):
                    continue  # the inner level of a nested Ok(Ok(..)) / Ok(Err(..)) match: a `?` like its outer level
                return True
        return False

    def run(self, node, path):
        """Returns list of paths after evaluating node (value in path.value)."""
        if path.done:
            return [path]
        k = node.get('k')
        if k in ('AddrOf',) or (k == 'Unary' and node.get('op') == 'Deref'):
            return self.run(node['e'], path)
        if k == 'Block':
            return self.block(node, path)
        if k == 'Match' and node.get('sp') in getattr(self.ev, 'tail_sps', ()):
            lifted = S.lift_propagating_arm(node)
            if lifted is not node:
                self.ev.tail_sps = set(self.ev.tail_sps) | {lifted['expr']['sp']}
                return self.run(lifted, path)
        if k == 'Match':
            node = H.nest_tuple_match(H.nest_result_match(node))
        if k == 'Match' and S.is_default_match(node) and not self.has_ctl(node['scrut']):
            t = self.leaf(node, path)
            path.value = t
            return [path]
        if (k == 'Match' and S.is_propagate_match(node) and not any(self.has_ctl(a['body']) for a in node['arms'] if not self.ev.block_diverges(a['body']))
                and not self.has_ctl(node['scrut'])) or (k == 'If' and S.is_propagate_iflet(node) and not self.has_ctl(node['cond']['init'])):
            # the explicit spelling of `?`: one path, read like the operator form
            t = self.leaf(node, path)
            path.value = t
            return [path]
        if k == 'If':
            out = []
            cond = node['cond']
            if cond.get('k') == 'LetExpr':
                outs = self.run(cond['init'], path)
                ty = cond['init'].get('ty')
                for p in outs:
                    if p.done:
                        out.append(p)
                        continue
                    v = p.value
                    kv = known_variant(v)
                    w0 = canon.whole(cond['pat'], ty) if kv is not None else None
                    info0 = canon.variants_of(ty) if kv is not None else None
                    if kv is not None and info0 is not None and kv in set(x[0] for x in info0[1]) and (w0 == 'ALL' or isinstance(w0, set)):
                        # the tested value is a constructor application the path itself built (a helper read through): decided here
                        if w0 == 'ALL' or kv in w0:
                            tp = p.fork()
                            self.ev.bind_pat(cond['pat'], v, tp.env)
                            out.extend(self.run(node['then'], tp))
                        elif node.get('else') is not None:
                            out.extend(self.run(node['else'], p.fork()))
                        else:
                            ep = p.fork()
                            ep.value = ('unit',)
                            out.append(ep)
                        continue
                    pred, names = canon.pattern_pred(cond['pat'], ty)
                    tp = p.fork()
                    nst = canon.nested(cond['pat'])
                    if nst is not None and names is None:
                        # `if let V(P) = x`: the variant test, then the test of its field (as a nested match would)
                        en, vn, sub = nst
                        outer = canon.render(en, {vn}) if canon.variants_of(en) else '%s::%s(_)' % (en, vn)
                        self.add_pat_cond(tp, v, outer, {vn})
                        sen = canon.variant_of_pat(sub)
                        spred, snames = canon.pattern_pred(sub, sen[0] if sen else None)
                        self.add_pat_cond(tp, ('field', v, '%s.0' % vn), spred, snames)
                    else:
                        self.add_pat_cond(tp, v, pred, names)
                    self.ev.bind_pat(cond['pat'], v, tp.env)
                    out.extend(self.run(node['then'], tp))
                    ep = p.fork()
                    npred = canon.complement_pred(cond['pat'], ty)
                    w = canon.whole(cond['pat'], ty)
                    info = canon.variants_of(ty)
                    nnames = (set(x[0] for x in info[1]) - w) if (info is not None and isinstance(w, set)) else None
                    self.add_pat_cond(ep, v, npred, nnames)
                    if node.get('else') is not None:
                        out.extend(self.run(node['else'], ep))
                    else:
                        ep.value = ('unit',)
                        out.append(ep)
                return out
            outs = self.run(cond, path)
            for p in outs:
                if p.done:
                    out.append(p)
                    continue
                known = p.value[1] if (p.value is not None and p.value[0] == 'lit' and p.value[1] in ('true', 'false')) else None
                if known is None and p.value is not None and p.value[0] == 'bin' and p.value[1] in ('==', '!='):
                    a_, b_ = p.value[2], p.value[3]
                    if a_ is not None and b_ is not None and a_[0] in ('path', 'lit') and b_[0] in ('path', 'lit') and (a_[0] == 'lit' or canon.is_variant_path(a_)) and (b_[0] == 'lit' or canon.is_variant_path(b_)):
                        known = 'true' if ((a_ == b_) == (p.value[1] == '==')) else 'false'
                if known != 'false':
                    for lits in (canon.branches(p.value, True) if known is None else [[]]):
                        tp = p.fork()
                        lits = [(tp.subject(s_), p_) for s_, p_ in lits]
                        if canon.contradictory(tp.conds + lits) or self.bool_contradiction(tp.conds, lits):
                            continue
                        tp.conds = canon.simplify(tp.conds + lits)
                        out.extend(self.run(node['then'], tp))
                if known == 'true':
                    continue  # the condition was decided by the path itself (e.g. `matches!`): no else on this path
                for lits in (canon.branches(p.value, False) if known is None else [[]]):
                    ep = p.fork()
                    lits = [(ep.subject(s_), p_) for s_, p_ in lits]
                    if canon.contradictory(ep.conds + lits) or self.bool_contradiction(ep.conds, lits):
                        continue
                    ep.conds = canon.simplify(ep.conds + lits)
                    if node.get('else') is not None:
                        out.extend(self.run(node['else'], ep))
                    else:
                        ep.value = ('unit',)
                        out.append(ep)
            return out
        if k == 'Match' and node.get('src') == 'Normal':
            out = []
            for p in self.run(node['scrut'], path):
                if p.done:
                    out.append(p)
                    continue
                v = p.value
                ty = node['scrut'].get('ty')
                earlier = []   # whole-variant sets taken by earlier unguarded arms (None: an arm that looks inside a variant)
                guarded = []   # (arm, whole set) of earlier guarded arms: a later arm for the same variants runs only if the guard failed
                info = canon.variants_of(ty)
                allv = set(x[0] for x in info[1]) if info is not None else None
                earlier_preds = []
                nested_seen = {}
                kv = known_variant(v)
                if kv is not None and allv is not None and kv in allv and all(a.get('guard') is None for a in node['arms']):
                    # the scrutinee's variant is decided by the path itself: only the first arm that takes it runs
                    for a in node['arms']:
                        w = canon.whole(a['pat'], ty)
                        if w is None:
                            kv = None
                            break
                        if w == 'ALL' or kv in w:
                            ap = p.fork()
                            self.ev.bind_pat(a['pat'], v, ap.env)
                            out.extend(self.run(a['body'], ap))
                            break
                    if kv is not None:
                        continue
                for a in node['arms']:
                    pred, names = canon.pattern_pred(a['pat'], ty, earlier)
                    if pred == 'unreachable':
                        continue
                    if pred == '_' and earlier_preds:
                        # catch-all over an enum whose variants are not known here: everything the earlier arms left
                        pred = 'not ' + ' | '.join(earlier_preds)
                    own_pred = pred
                    w = canon.whole(a['pat'], ty)
                    # first-match semantics against earlier *guarded* arms: for the variants such an arm also
                    # covers, this arm runs only if that guard failed; for the others the guard was never asked
                    cells = [(pred, names, [], [])]
                    catch_all = w == 'ALL'
                    seen_g = []
                    for ga, gw, gpred in guarded:
                        nxt = []
                        gn = canon.nested(ga['pat'])
                        for cpred, cnames, gs, ex in cells:
                            gset = allv if gw == 'ALL' else gw
                            if cnames is not None and gset is not None and allv is not None:
                                inside, outside = cnames & gset, cnames - gset
                                if inside:
                                    nxt.append((canon.render(ty, inside), inside, gs + [ga], ex))
                                if outside:
                                    nxt.append((canon.render(ty, outside), outside, gs, ex))
                            elif cnames is not None and allv is not None and gw is None and gn is not None and gn[1] in cnames and not any(e_[0] == gn[1] for e_ in ex):
                                # the guarded arm looked inside variant V: `V(P) if g`. A later arm that takes V runs for V(P) only if g
                                # failed, for V(not P) unconditionally; its other variants were never asked
                                en_, vn_, sub_ = gn
                                sen_ = canon.variant_of_pat(sub_)
                                sty_ = sen_[0] if sen_ else None
                                spred_, snames_ = canon.pattern_pred(sub_, sty_, [])
                                info_ = canon.variants_of(sty_) if sty_ else None
                                if snames_ is not None and info_ is not None:
                                    rest_ = set(x[0] for x in info_[1]) - set(snames_)
                                    npred_, nnames_ = (canon.render(sty_, rest_), rest_) if rest_ else (None, None)
                                else:
                                    npred_, nnames_ = 'not ' + spred_, None
                                nxt.append((canon.render(ty, {vn_}), {vn_}, gs + [ga], ex + [(vn_, spred_, snames_)]))
                                if npred_ is not None:
                                    nxt.append((canon.render(ty, {vn_}), {vn_}, gs, ex + [(vn_, npred_, nnames_)]))
                                others_ = cnames - {vn_}
                                if others_:
                                    nxt.append((canon.render(ty, others_), others_, gs, ex))
                            elif catch_all and cnames is None and (cpred == '_' or cpred.startswith('not ')) and gpred != '_':
                                # variants unknown: what the guarded arm's pattern covers (its guard failed) / everything else
                                nxt.append((gpred, None, gs + [ga], ex))
                                rest = [q for q in earlier_preds + seen_g + [gpred]]
                                nxt.append(('not ' + ' | '.join(dict.fromkeys(rest)), None, gs, ex))
                            elif cnames is None and cpred != gpred and not catch_all and gpred != '_' and gw != 'ALL' and gw is not None and w is not None and w != 'ALL' and not (gw & w):
                                nxt.append((cpred, cnames, gs, ex))
                            else:
                                nxt.append((cpred, cnames, gs + [ga], ex))
                        cells = nxt
                        seen_g.append(gpred)
                    nst = canon.nested(a['pat']) if a.get('guard') is None or True else None
                    for cpred, cnames, gs, ex in cells:
                        ap = p.fork()
                        if nst is not None and cnames is None and not cpred.startswith('not ') and cpred != '_':
                            # `V(P)`: the variant test, then the test of its field (same conditions as a nested match)
                            en, vn, sub = nst
                            outer = canon.render(en, {vn}) if canon.variants_of(en) else '%s::%s(_)' % (en, vn)
                            self.add_pat_cond(ap, v, outer, {vn})
                            fld = ('field', v, '%s.0' % vn)
                            sen = canon.variant_of_pat(sub)
                            sty = sen[0] if sen else None
                            spred, snames = canon.pattern_pred(sub, sty, [nested_seen.get((vn, 'sets'), [])] if False else [])
                            self.add_pat_cond(ap, fld, spred, snames)
                            if a.get('guard') is None:
                                nested_seen.setdefault(vn, []).append((spred, snames, sty))
                        else:
                            self.add_pat_cond(ap, v, cpred, cnames, ty)
                            for vn_, xp_, xn_ in ex:
                                self.add_pat_cond(ap, ('field', v, '%s.0' % vn_), xp_, xn_)
                            # a whole-variant (or catch-all) arm behind arms that looked inside that variant's field
                            for vn, subs in nested_seen.items():
                                covers = (cnames is not None and vn in cnames and len(cnames) == 1)
                                if not covers:
                                    continue
                                fld = ('field', v, '%s.0' % vn)
                                sty = subs[0][2]
                                info2 = canon.variants_of(sty) if sty else None
                                if info2 is not None and all(sn is not None for _, sn, _ in subs):
                                    taken = set()
                                    for _, sn, _ in subs:
                                        taken |= sn
                                    rest = set(x[0] for x in info2[1]) - taken
                                    if rest:
                                        self.add_pat_cond(ap, fld, canon.render(sty, rest), rest)
                                else:
                                    self.add_pat_cond(ap, fld, 'not ' + ' | '.join(sp for sp, _, _ in subs), None)
                        for ga in gs:
                            genv = dict(p.env)
                            self.ev.bind_pat(ga['pat'], v, genv)
                            n0 = len(self.ev.events)
                            gt0 = self.ev.eval(ga['guard'], genv, [], None, [])
                            del self.ev.events[n0:]
                            ap.conds = canon.simplify(ap.conds + canon.cond(gt0, False))
                        self.ev.bind_pat(a['pat'], v, ap.env)
                        if a.get('guard') is not None:
                            gt = self.leaf(a['guard'], ap)
                            ap.conds = canon.simplify(ap.conds + canon.cond(gt, True))
                        out.extend(self.run(a['body'], ap))
                    if a.get('guard') is None and own_pred != '_' and not own_pred.startswith('not '):
                        earlier_preds.append(own_pred)
                    if a.get('guard') is not None:
                        guarded.append((a, w, canon.pattern_pred(a['pat'], ty, earlier)[0]))
                    elif w == 'ALL':
                        earlier.append(allv)
                    else:
                        earlier.append(w)
            return out
        if k == 'Ret':
            if node.get('e') is None:
                path.value = ('unit',)
                path.done = 'return'
                return [path]
            outs = self.run(node['e'], path)
            for p in outs:
                if not p.done:
                    p.done = 'return'
            return outs
        if k == 'Break':
            path.done = 'break'
            return [path]
        if k == 'Continue':
            path.done = 'continue'
            return [path]
        if k == 'MacroCall' and node['name'] in ('unreachable', 'panic', 'todo', 'unimplemented'):
            path.effects.append(node['name'] + '!()')
            path.done = 'panic'
            return [path]
        if k == 'Loop':
            # one symbolic iteration; `continue`/fall-through end the iteration, `break` leaves the loop
            path.effects.append('loop {')
            outs = self.block(node['body'], path)
            res = []
            for p in outs:
                if p.done in ('break',):
                    p.done = None
                    p.effects.append('} break')
                    p.value = ('unit',)
                elif p.done in ('continue', None):
                    p.effects.append('} next-iteration')
                    p.done = 'iterate'
                res.append(p)
            return res
        if k == 'Match' and node.get('src') == 'ForLoop':
            fl = H.desugar_for(node)
            if fl is None:
                raise Unrecognised('for-loop desugaring not recognised')
            pat, it, body = fl
            itt = self.leaf(it, path)
            itt, item = S.iter_view(itt, it)
            if path.effects and path.effects[-1].startswith('std::collections::HashMap::') and path.effects[-1] != S.show(itt) and itt[0] == 'call' and itt[1] == 'std::collections::HashMap::iter':
                path.effects[-1] = S.show(itt)  # keys()/values() read as a projection of iter()
            path.effects.append('for _ in %s {' % S.show(itt))
            self.ev.bind_pat(pat, item, path.env)
            outs = self.run(body, path)
            res = []
            for p in outs:
                if p.done in ('continue', None, 'break'):
                    p.effects.append('}')
                    p.done = None
                    p.value = ('unit',)
                res.append(p)
            return res
        if k in ('Call', 'MethodCall') and S.norm_path(H.callee_decl(node) or '') in ('std::iter::Iterator::try_for_each', 'std::iter::Iterator::for_each') \
                and len(H.call_args(node)) == 2 and S.closure_node(H.call_args(node)[1]) is not None and len(S.closure_node(H.call_args(node)[1])['params']) == 1:
            # `iter.try_for_each(|x| body)`: read as the loop `for x in iter { body? }`
            it, cn = H.call_args(node)[0], S.closure_node(H.call_args(node)[1])
            itt = self.leaf(it, path)
            itt, item = S.iter_view(itt, it)
            if path.effects and path.effects[-1].startswith('std::collections::HashMap::') and path.effects[-1] != S.show(itt) and itt[0] == 'call' and itt[1] == 'std::collections::HashMap::iter':
                path.effects[-1] = S.show(itt)
            path.effects.append('for _ in %s {' % S.show(itt))
            self.ev.bind_pat(cn['params'][0], item, path.env)
            outs = self.run(cn['body'], path)
            res = []
            tryfe = S.norm_path(H.callee_decl(node) or '').endswith('try_for_each')
            for p in outs:
                if p.done in ('continue', None, 'break', 'return'):
                    p.effects.append('}')
                    p.done = None
                    p.value = ('call', 'Ok', (('unit',),), ()) if tryfe else ('unit',)
                res.append(p)
            return res
        if k in ('Call', 'MethodCall') and S.norm_path(H.callee_decl(node) or '') == 'std::result::Result::map_err' and len(H.call_args(node)) == 2 \
                and S.closure_node(H.call_args(node)[1]) is not None and len(S.closure_node(H.call_args(node)[1])['params']) == 1 \
                and self.has_ctl(S.closure_node(H.call_args(node)[1])['body']) and not self.has_ctl(H.call_args(node)[0]):
            # `r.map_err(|e| match e {..})`: the closure decides, so read it as `match r { Ok(v) => Ok(v), Err(e) => Err(match e {..}) }`
            rn, cn = H.call_args(node)[0], S.closure_node(H.call_args(node)[1])
            v = self.leaf(rn, path)
            out = []
            okp = path.fork()
            self.add_pat_cond(okp, v, 'Ok(_)', {'Ok'})
            okty = re.match(r'^(?:std|core)::result::Result<\(\), ', node.get('ty') or '')
            okp.value = ('call', 'Ok', ((('unit',) if okty else ('field', v, 'Ok.0')),), ())
            if okp.done != 'infeasible':
                out.append(okp)
            erp = path.fork()
            self.add_pat_cond(erp, v, 'Err(_)', {'Err'})
            if erp.done != 'infeasible':
                self.ev.bind_pat(cn['params'][0], ('field', v, 'Err.0'), erp.env)
                for q in self.run(cn['body'], erp):
                    if not q.done:
                        q.value = ('call', 'Err', (q.value,), ())
                    q.env = dict(path.env)
                    out.append(q)
            return out
        if k in ('Call', 'MethodCall') and S.norm_path(H.callee_decl(node) or '') == 'std::iter::Extend::extend' and len(H.call_args(node)) == 2:
            # `set.extend(iter)`: read as the loop `for x in iter { set.insert(x) }`
            sty = S.norm_path(canon.strip_ty(H.call_args(node)[0].get('ty') or ''))
            if sty and not sty.startswith(('std::collections::HashMap', 'std::collections::BTreeMap', 'std::string::String')):
                coll = self.leaf(H.call_args(node)[0], path)
                it = H.call_args(node)[1]
                itt = self.leaf(it, path)
                itt, item = S.iter_view(itt, it)
                if path.effects and path.effects[-1].startswith('std::collections::HashMap::') and path.effects[-1] != S.show(itt) and itt[0] == 'call' and itt[1] == 'std::collections::HashMap::iter':
                    path.effects[-1] = S.show(itt)
                path.effects.append('for _ in %s {' % S.show(itt))
                path.effects.append('%s::%s(%s, %s)' % (sty, 'push' if sty.startswith('std::vec::Vec') else 'insert', S.show(coll), S.show(item)))
                path.effects.append('}')
                path.value = ('unit',)
                return [path]
        if k == 'AssignOp' and not node.get('_anf') and self.needs_paths(node['r']):
            # `x += match .. { .. }`: the right-hand side is decided path by path, then added
            self._anf_n = getattr(self, '_anf_n', 0) + 1
            sid = -(2000000 + self._anf_n)
            node2 = dict(node, r={'k': 'Local', 'id': sid, 'name': '$a%d' % self._anf_n, 'ty': node['r'].get('ty'), 'sp': node['r'].get('sp')}, _anf=True)
            out = []
            for p in self.run(node['r'], path):
                if p.done:
                    out.append(p)
                    continue
                p.env[sid] = p.value
                out.extend(self.run(node2, p))
            return out
        if k in ('Assign',) and self.needs_paths(node['r']):
            out = []
            for p in self.run(node['r'], path):
                if p.done:
                    out.append(p)
                    continue
                if node['l'].get('k') == 'Local' and node['l']['id'] in getattr(self.ev, 'tracked', ()):
                    p.env[node['l']['id']] = p.value  # a local followed exactly: its new value, no effect
                    p.value = ('unit',)
                    out.append(p)
                    continue
                l = self.ev.eval(node['l'], p.env, [], None, [])
                if S.show(l) != S.show(p.value):  # `x = x` (a helper handing the old value back) changes nothing
                    p.effects.append('%s = %s' % (S.show(l), S.show(p.value)))
                if node['l'].get('k') == 'Local':
                    p.env[node['l']['id']] = p.value
                p.value = ('unit',)
                out.append(p)
            return out
        if k == 'Try' and self.is_foreach(H.peel(node['e'])):
            out = []
            for p in self.run(H.peel(node['e']), path):
                if not p.done:
                    p.value = ('unit',)
                out.append(p)
            return out
        if k == 'Try' and self.helper_target(H.peel(node['e'])) is not None and not self.has_ctl(node['e']):
            out = []
            for p in self.run(H.peel(node['e']), path):
                if not p.done:
                    v = p.value
                    sv = S.show(v) if v is not None else ''
                    if sv.startswith('Err('):
                        p.done = 'return'  # `?` on the helper's error path leaves the caller
                    elif v is not None and v[0] == 'call' and v[1] in ('Ok', 'std::result::Result::Ok') and len(v[2]) == 1:
                        p.value = v[2][0]
                    else:
                        p.value = ('try', v)
                out.append(p)
            return out
        ht = self.helper_target(node)
        if ht is not None:
            return self.inline_helper(node, ht[0], ht[1], path)
        if k == 'Try' and H.peel(node['e']).get('k') == 'Local' and (H.peel(node['e']).get('ty') or '').lstrip('&').startswith('std::result::Result<'):
            # `r?` on a Result that was computed earlier (a local): the call is not made here, so the two outcomes are two
            # paths -- as they are when the same thing is written `match r { Ok(v) => v, Err(e) => return Err(e) }`
            v = self.leaf(H.peel(node['e']), path)
            if v is not None and v[0] not in ('var', 'try', 'ctl'):
                out = []
                okp = path.fork()
                if not canon.contradictory(okp.conds + [(okp.subject(S.show(v)), 'Ok(_)')]):
                    self.add_pat_cond(okp, v, 'Ok(_)', {'Ok'})
                    okp.value = ('field', v, 'Ok.0')
                    out.append(okp)
                erp = path.fork()
                if not canon.contradictory(erp.conds + [(erp.subject(S.show(v)), 'Err(_)')]):
                    self.add_pat_cond(erp, v, 'Err(_)', {'Err'})
                    erp.value = ('call', 'Err', (('field', v, 'Err.0'),), ())
                    erp.done = 'return'
                    out.append(erp)
                if out:
                    return out
        if k == 'Call' and (node.get('f') or {}).get('dk', '').startswith('Ctor') and len(node.get('args', [])) == 1 and self.needs_paths(node['args'][0]) \
                and H.peel(node['args'][0]).get('k') in ('Call', 'MethodCall', 'Try'):
            # Ok(helper(..)) / Some(helper(..)?): the constructor wraps whatever each path of the helper yields
            ctor = S.norm_path((node['f'].get('resolved') or node['f'].get('path') or ''))
            ctor = {'std::prelude::v1::Ok': 'Ok', 'std::prelude::v1::Err': 'Err', 'std::prelude::v1::Some': 'Some'}.get(ctor, ctor)
            out = []
            for p in self.run(node['args'][0], path):
                if not p.done:
                    p.value = ('call', ctor, (p.value,), ())
                out.append(p)
            return out
        if k == 'Try' and self.has_ctl(node['e']):
            out = []
            for p in self.run(node['e'], path):
                if not p.done:
                    p.value = ('try', p.value)
                out.append(p)
            return out
        if k in ('Call', 'MethodCall') and not node.get('_anf') and any(self.needs_paths(a) for a in H.call_args(node) if S.closure_node(a) is None):
            # an argument branches (itself, or through a helper that is read through): evaluate the arguments left to right,
            # path by path, bind each to a fresh name and make the call with those -- `f(g(x), h(y))` as `let a = g(x); let b = h(y); f(a, b)`
            args = H.call_args(node)
            last = max(i for i, a in enumerate(args) if S.closure_node(a) is None and self.needs_paths(a))
            cur = [path]
            new_args = list(args)
            for i, a in enumerate(args[:last + 1]):
                pa = H.peel(a)
                simple = S.closure_node(a) is not None or pa.get('k') in ('Local', 'Lit', 'Def') or (pa.get('k') in ('AddrOf', 'Field') and H.peel(pa.get('e') or {}).get('k') in ('Local', 'Field'))
                if simple:
                    continue
                self._anf_n = getattr(self, '_anf_n', 0) + 1
                sid = -(2000000 + self._anf_n)
                nxt = []
                for q in cur:
                    if q.done:
                        nxt.append(q)
                        continue
                    for q2 in self.run(a, q):
                        if not q2.done:
                            q2.env[sid] = q2.value
                        nxt.append(q2)
                cur = nxt
                new_args[i] = {'k': 'Local', 'id': sid, 'name': '$a%d' % self._anf_n, 'ty': a.get('ty'), 'sp': a.get('sp')}
            node2 = dict(node, recv=new_args[0], args=new_args[1:], _anf=True) if k == 'MethodCall' else dict(node, args=new_args, _anf=True)
            out = []
            for q in cur:
                if q.done:
                    out.append(q)
                else:
                    out.extend(self.run(node2, q))
            return out
        # leaf expression
        t = self.leaf(node, path)
        if k == 'Assign' and node['l'].get('k') == 'Local':
            path.env[node['l']['id']] = self.ev.eval(node['r'], path.env, [], None, []) if False else path.env.get(node['l']['id'])
        path.value = t
        if node.get('ty') == '!' and k in ('Call', 'MethodCall', 'MacroCall'):
            path.done = 'panic'
        return [path]

    def block(self, node, path):
        cur = [path]
        for s in node['stmts']:
            nxt = []
            for p in cur:
                if p.done:
                    nxt.append(p)
                    continue
                sk = s['k']
                if sk == 'Let' and s.get('pat', {}).get('k') == 'Bind' and s['pat']['id'] in self.log_only_ids():
                    nxt.append(p)
                    continue  # computed for a log line only
                if sk == 'Let' and self.ev.moved_alias(self.stack[-1] if self.stack else getattr(self, 'root_fn', None), s) is not None:
                    yid = self.ev.moved_alias(self.stack[-1] if self.stack else getattr(self, 'root_fn', None), s)
                    yv = p.env.get(yid)
                    if yv is None:
                        yv = self.ev.eval(s['init'], p.env, [], None, [])
                    self.ev.mutated.pop(s['pat']['id'], None)
                    p.env[s['pat']['id']] = yv
                    nxt.append(p)
                    continue
                if sk == 'Let':
                    if s.get('init') is None:
                        self.ev.bind_pat(s['pat'], None, p.env)
                        nxt.append(p)
                        continue
                    for q in self.run(s['init'], p):
                        if not q.done and s.get('els') is not None:
                            # let PAT = init else { diverge }: two paths, like if-let
                            ty = s['init'].get('ty')
                            ep = q.fork()
                            npred = canon.complement_pred(s['pat'], ty)
                            w = canon.whole(s['pat'], ty)
                            info = canon.variants_of(ty)
                            nnames = (set(x[0] for x in info[1]) - w) if (info is not None and isinstance(w, set)) else None
                            self.add_pat_cond(ep, q.value, npred, nnames)
                            nxt.extend(self.run(s['els'], ep))
                            pred, names = canon.pattern_pred(s['pat'], ty)
                            nst = canon.nested(s['pat'])
                            if nst is not None and names is None:
                                # `let V(P) = x else ..`: the variant test, then the test of its field (as a nested match would)
                                en, vn, sub = nst
                                outer = canon.render(en, {vn}) if canon.variants_of(en) else '%s::%s(_)' % (en, vn)
                                self.add_pat_cond(q, q.value, outer, {vn})
                                sen = canon.variant_of_pat(sub)
                                spred, snames = canon.pattern_pred(sub, sen[0] if sen else None)
                                self.add_pat_cond(q, ('field', q.value, '%s.0' % vn), spred, snames)
                            else:
                                self.add_pat_cond(q, q.value, pred, names)
                        if not q.done:
                            val = q.value
                            pat = s['pat']
                            if pat.get('k') == 'Bind' and pat['id'] not in self.ev.mutated and 'Mut' in pat.get('mode', '') and val is not None and val[0] == 'call' and len(val[2]) == 0:
                                # `let mut x = T::new()`: a fresh mutable object keeps its own identity
                                q.effects.append('let %s = %s' % (pat['name'], S.show(val)))
                                val = None
                            n0 = len(self.ev.events)
                            self.ev.bind_pat(s['pat'], val, q.env)
                            for e in self.ev.events[n0:]:
                                es = effect_of(e)
                                if es is not None:
                                    q.effects.append(es)
                        nxt.append(q)
                elif sk in ('Semi', 'ExprStmt'):
                    if H.is_log(s['e']) or H.log_stmt(s['e'], self.ev.fns, getattr(self.ev, 'new_helper', None) or self.ev.inline_filter):
                        nxt.append(p)
                        continue
                    for q in self.run(s['e'], p):
                        nxt.append(q)
                else:
                    nxt.append(p)
            cur = nxt
            if len(cur) > self.max_paths:
                raise Unrecognised('path explosion')
        if node.get('expr') is not None:
            nxt = []
            for p in cur:
                if p.done:
                    nxt.append(p)
                else:
                    nxt.extend(self.run(node['expr'], p))
            cur = nxt
        else:
            for p in cur:
                if not p.done:
                    p.value = ('unit',)
        return cur


def known_variant(v):
    """The variant a term certainly is (a unit variant path or a variant constructor application), else None."""
    if v is None:
        return None
    if v[0] == 'path' and canon.is_variant_path(v):
        return v[1].split('::')[-1]
    if v[0] == 'call' and v[1] in ('Ok', 'Err', 'Some'):
        return v[1]
    if v[0] == 'path' and v[1] == 'None':
        return 'None'
    if v[0] == 'call' and canon.is_variant_path(('path', v[1])) and not v[1].startswith(('std::', 'core::')):
        return v[1].split('::')[-1]
    return None


def merge_rows(rows):
    """Two paths with the same effects, value and exit whose conditions differ in one literal only (the same
    subject, complementary predicates) are one path that does not depend on that test."""
    rows = list(rows)
    changed = True
    while changed:
        changed = False
        for i in range(len(rows)):
            for j in range(i + 1, len(rows)):
                a, b = rows[i], rows[j]
                if a.effects != b.effects or a.done != b.done or a.value_str() != b.value_str() or len(a.conds) != len(b.conds):
                    continue
                diff = [k for k in range(len(a.conds)) if a.conds[k] != b.conds[k]]
                if len(diff) != 1:
                    continue
                (sa, pa), (sb, pb) = a.conds[diff[0]], b.conds[diff[0]]
                if sa != sb:
                    continue
                comp = (isinstance(pa, bool) and isinstance(pb, bool) and pa != pb) or \
                    (isinstance(pa, str) and isinstance(pb, str) and (canon.negate_pred(pa) == pb or canon.negate_pred(pb) == pa))
                if not comp:
                    continue
                a.conds = a.conds[:diff[0]] + a.conds[diff[0] + 1:]
                del rows[j]
                changed = True
                break
            if changed:
                break
    return rows


def table(ctx, fnpath, param_names=None):
    """All paths of a function as rows."""
    fn = ctx.fn(fnpath)
    en = Enumerator(ctx)
    en.root_fn = fnpath
    en.ev.mutated = dict(en.ev.mutated_locals(fnpath, fn))
    en.ev.tracked = en.ev.trackable_locals(fn, True)
    en.ev.tail_sps = en.ev.tail_positions(fn.get('hir', {}))
    for lid in en.ev.tracked:
        en.ev.mutated.pop(lid, None)
    for i, prm in enumerate(fn.get('params', [])):
        if prm.get('k') == 'Bind' and param_names and i < len(param_names):
            en.ev.mutated.pop(prm['id'], None)
    p = Path()
    for i, prm in enumerate(fn.get('params', [])):
        nm = None
        if param_names and i < len(param_names):
            nm = ('var', param_names[i], -(i + 1))
        en.ev.bind_pat(prm, nm, p.env)
    return merge_rows([x for x in en.run(fn['hir'], p) if x.done != 'infeasible'])
