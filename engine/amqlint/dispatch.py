"""As-built dispatch table of ConnectionState::process: which arm handles which
(frame kind, channel-0-ness, class, method) and what the arm does (ordered events)."""
import re

import hir as H
import sym as S
from core import Unrecognised

PROCESS = 'io_loop::connection_state::ConnectionState::process'

# AMQP 0-9-1 method universe as modelled by amq_protocol 1.4 (class -> methods)
UNIVERSE = {
    'connection': ['Start', 'StartOk', 'Secure', 'SecureOk', 'Tune', 'TuneOk', 'Open', 'OpenOk', 'Close', 'CloseOk', 'Blocked', 'Unblocked'],
    'channel': ['Open', 'OpenOk', 'Flow', 'FlowOk', 'Close', 'CloseOk'],
    'access': ['Request', 'RequestOk'],
    'exchange': ['Declare', 'DeclareOk', 'Delete', 'DeleteOk', 'Bind', 'BindOk', 'Unbind', 'UnbindOk'],
    'queue': ['Declare', 'DeclareOk', 'Bind', 'BindOk', 'Purge', 'PurgeOk', 'Delete', 'DeleteOk', 'Unbind', 'UnbindOk'],
    'basic': ['Qos', 'QosOk', 'Consume', 'ConsumeOk', 'Cancel', 'CancelOk', 'Publish', 'Return', 'Deliver', 'Get', 'GetOk', 'GetEmpty',
              'Ack', 'Reject', 'RecoverAsync', 'Recover', 'RecoverOk', 'Nack'],
    'tx': ['Select', 'SelectOk', 'Commit', 'CommitOk', 'Rollback', 'RollbackOk'],
    'confirm': ['Select', 'SelectOk'],
}


def chan_of(p):
    k = p.get('k')
    if k == 'PLit':
        return str(p['v']['v'])
    if k == 'Bind' and not p.get('sub'):
        return 'n'
    if k == 'Wild':
        return '_'
    raise Unrecognised('channel pattern ' + H.pat_term(p))


def class_method_of(p):
    """pattern over AMQPClass -> (class or '*', method or '*')"""
    k = p.get('k')
    if k == 'Bind':
        if p.get('sub'):
            return class_method_of(p['sub'])
        return ('*', '*')
    if k == 'Wild':
        return ('*', '*')
    if k == 'PTupleStruct':
        path = H.res_path(p['res'])
        if not path.startswith('amq_protocol::protocol::AMQPClass::'):
            raise Unrecognised('class pattern ' + path)
        cls = path.split('::')[-1].lower()
        inner = p['pats'][0]
        ik = inner.get('k')
        if ik in ('Wild',) or (ik == 'Bind' and not inner.get('sub')):
            return (cls, '*')
        if ik == 'PTupleStruct':
            mp = H.res_path(inner['res'])
            return (cls, mp.split('::')[-1])
        raise Unrecognised('method pattern ' + H.pat_term(inner))
    raise Unrecognised('class pattern ' + H.pat_term(p))


def key_of(alt):
    """One alternative of the top-level `match frame` -> (kind, channel, class, method)."""
    k = alt.get('k')
    if k == 'PPath':
        return (H.res_path(alt['res']).split('::')[-1], '-', '-', '-')
    if k == 'PTupleStruct':
        name = H.res_path(alt['res']).split('::')[-1]
        pats = alt['pats']
        if name == 'Heartbeat':
            return ('Heartbeat', chan_of(pats[0]), '-', '-')
        if name == 'Method':
            c, m = class_method_of(pats[1])
            return ('Method', chan_of(pats[0]), c, m)
        if name in ('Header', 'Body'):
            return (name, chan_of(pats[0]), '-', '-')
        raise Unrecognised('frame variant ' + name)
    if k in ('Wild', 'Bind'):
        return ('*', '*', '*', '*')
    raise Unrecognised('frame pattern ' + H.pat_term(alt))


class Arm(object):
    def __init__(self, idx, node, keys, events):
        self.idx = idx
        self.node = node
        self.keys = keys
        self.events = events
        self.pat = H.pat_term(node['pat'])
        self.base = 0

    def calls(self, suffix=None):
        return [e for e in self.events if e.kind == 'call' and (suffix is None or e.callee.endswith(suffix))]

    def script(self):
        return script_of(self.events, self.base)

    def summary(self):
        out = []
        for e in self.events:
            if e.kind == 'call':
                c = e.callee
                if c.startswith(('io_loop::', 'errors::')) or c.startswith('crossbeam_channel::'):
                    out.append(S.show(e.term))
            elif e.kind == 'assign':
                out.append('%s = %s' % (S.show(e.lhs), S.show(e.term)))
            elif e.kind == 'ret':
                out.append('return ' + S.show(e.term))
        return out


NOTABLE_PREFIX = ('io_loop::connection_state::', 'io_loop::Inner::', 'io_loop::channel_slots::ChannelSlots::', 'io_loop::content_collector::',
                  'crossbeam_channel::', 'std::collections::HashMap::', 'std::collections::hash_map::VacantEntry::insert', 'mio_extras::channel::')
PURE = ('std::collections::HashMap::new', 'io_loop::Inner::has_data_to_write', 'io_loop::Inner::are_writes_sealed')


def script_of(events, base_guards=0):
    """Ordered notable effects with their structural context, e.g.
       'for(chan_slots.drain) > send(slot.tx, Err(..))'."""
    out = []
    for e in events:
        ctxs = []
        for g in e.guards[base_guards:]:
            if g[2] == 'loop' and g[1] == 'for':
                ctxs.append('for(%s)' % g[3])
            elif g[2] == 'loop':
                ctxs.append('loop')
            elif g[2] in ('if', 'match', 'armguard'):
                ctxs.extend(S.guard_strs(g))
            elif g[2] == 'closure':
                ctxs.append('closure')
        pre = ' > '.join(ctxs)
        txt = None
        if e.kind == 'call' and e.callee.startswith(NOTABLE_PREFIX) and e.callee not in PURE:
            if isinstance(e.extra, dict) and e.extra.get('inlined'):
                continue  # a helper unknown to the vocabulary: its body's effects follow
            txt = S.show(e.term)
        elif e.kind == 'assign':
            txt = '%s = %s' % (S.show(e.lhs), S.show(e.term))
        elif e.kind == 'ret':
            txt = 'return ' + S.show(e.term)
        elif e.kind == 'try':
            continue
        if txt is not None:
            out.append((pre + ' > ' if pre else '') + txt)
    return out


def read(ctx, depth=0):
    events, _ = ctx.events(PROCESS, depth=depth)
    fn = ctx.fn(PROCESS)
    ms = [n for n in H.walk(fn['hir']) if n.get('k') == 'Match' and n.get('src') == 'Normal' and H.term(n['scrut']) == 'frame']
    if len(ms) != 1:
        raise Unrecognised('ConnectionState::process: `match frame` not found')
    m = ms[0]
    # when the `match frame` is the last thing the function does before its tail `Ok(())`, an arm that ends early with
    # `return Ok(())` and an arm that runs to its end are the same arm: such returns are not script steps
    body = fn['hir']
    while body.get('k') == 'Block' and not body.get('stmts') and body.get('expr') is not None:
        body = body['expr']
    falls_through = False
    if body.get('k') == 'Block' and body.get('stmts') and body.get('expr') is not None:
        last = body['stmts'][-1]
        tail = H.peel(body['expr'])
        falls_through = last.get('k') in ('Semi', 'ExprStmt') and H.peel(last.get('e') or {}) is m and H.term(tail) in ('Ok(())', 'std::prelude::v1::Ok(())')
    arms = []
    for i, a in enumerate(m['arms']):
        keys = [key_of(alt) for alt in H.pat_alternatives(a['pat'])]
        evs = [e for e in events if any(g[0] == m['sp'] and g[1] == 'arm:%d' % i for g in e.guards)]
        if falls_through:
            evs = [e for e in evs if not (e.kind == 'ret' and S.show(e.term) == 'Ok(())')]
        if a.get('guard') is not None:
            raise Unrecognised('guarded arm in `match frame`')
        arm = Arm(i, a, keys, evs)
        if evs:
            # guards up to and including the arm's own guard are the base context
            g0 = evs[0].guards
            for j, g in enumerate(g0):
                if g[0] == m['sp'] and g[1] == 'arm:%d' % i:
                    arm.base = j + 1
        arms.append(arm)
        ctx.counts['arms'] += 1
    return m, arms, events


def first_match(arms, kind, ch0, cls, meth):
    """Index of the arm that handles a concrete frame (first-match semantics)."""
    for a in arms:
        for (k, c, kc, km) in a.keys:
            if k not in (kind, '*'):
                continue
            if c not in ('-', '_', '*'):
                if c == '0' and not ch0:
                    continue
                if c == 'n':
                    pass  # binding matches any id, including 0 if not caught earlier
            if kind == 'Method':
                if kc not in ('*', cls):
                    continue
                if km not in ('*', meth):
                    continue
            return a
    return None


def classify(arm):
    """Coarse action class of an arm from its ordered events."""
    calls = arm.calls()
    names = [c.callee.split('::')[-1] for c in calls]
    rets = [e for e in arm.events if e.kind == 'ret']
    if 'client_exception' in names:
        ce = [c for c in calls if c.callee.endswith('client_exception')][0]
        return 'exception(%s)' % S.show(ce.args[2]).split('::')[-1]
    if not [n for n in names if n not in ()] and not rets and not [e for e in arm.events if e.kind in ('assign',)]:
        return 'ignore'
    if rets and all(S.show(r.term).startswith(('errors::', 'Err(errors::Error::')) for r in rets) and len(names) <= 2 and all(n in ('fail', 'build') for n in names):
        m_ = re.match(r'^Err\(errors::Error::(\w+)', S.show(rets[0].term))
        return 'error(%s)' % (m_.group(1) if m_ else S.show(rets[0].term).split('Snafu')[0].split('::')[-1])
    assigns = [S.show(e.term).split('::')[-1].split('(')[0] for e in arm.events if e.kind == 'assign' and S.show(e.lhs) == 'self']
    if assigns:
        return 'state(%s)' % ','.join(assigns)
    for n in ('collect_deliver', 'collect_return', 'collect_get', 'collect_header', 'collect_body', 'try_send_confirm', 'try_send_blocked'):
        if n in names:
            return n
    if 'slot_remove' in names:
        return 'slot_remove'
    sends = [c for c in calls if c.callee == 'io_loop::connection_state::send']
    if sends:
        t = S.show(sends[0].args[1])
        if 'ChannelMessage::Method(method)' in t or t.endswith('ChannelMessage::Method(frame.Method.1))'):
            return 'reply'
        return 'send'
    return 'other'
