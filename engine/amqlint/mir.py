"""MIR helpers: CFG, dominators, call graph (with closures / fn items as values / trait
dispatch to local impls), panic-capable site inventory."""
import hir as H
from sym import norm_path


def succs(block, unwind=False):
    t = block['term']
    k = t['k']
    out = []
    if k == 'Goto':
        out.append(t['t'])
    elif k == 'SwitchInt':
        out.extend(x[1] for x in t['targets'])
        out.append(t['otherwise'])
    elif k in ('Call', 'Assert', 'Drop'):
        if 't' in t:
            out.append(t['t'])
        if unwind and 'u' in t:
            out.append(t['u'])
    return out


def reachable_blocks(body):
    seen = set()
    st = [0]
    while st:
        b = st.pop()
        if b in seen:
            continue
        seen.add(b)
        st.extend(succs(body['blocks'][b]))
    return seen


def dominators(body):
    """Iterative dominator sets over non-unwind edges."""
    blocks = body['blocks']
    reach = reachable_blocks(body)
    preds = {b: set() for b in reach}
    for b in reach:
        for s in succs(blocks[b]):
            if s in reach:
                preds[s].add(b)
    dom = {b: set(reach) for b in reach}
    dom[0] = {0}
    changed = True
    order = sorted(reach)
    while changed:
        changed = False
        for b in order:
            if b == 0:
                continue
            ps = [dom[p] for p in preds[b]]
            new = set.intersection(*ps) if ps else set()
            new = new | {b}
            if new != dom[b]:
                dom[b] = new
                changed = True
    return dom


def mentions(ty, adt):
    """Type string `ty` mentions ADT path `adt` as a whole path."""
    import re
    return re.search(r'(?<![\w:])' + re.escape(adt) + r'(?![\w])', ty) is not None


def callee_of(term):
    """(declared path, resolved path or None, gargs, is_trait_method) for a Call terminator."""
    f = term['func']
    if f.get('k') == 'Const' and 'fn' in f:
        return norm_path(f['fn']), (norm_path(f['resolved']) if 'resolved' in f else None), f.get('gargs', []), f.get('trait_method', False)
    return None, None, [], False


class CallGraph(object):
    def __init__(self, facts):
        self.fns = {}
        for fn in facts['fns']:
            self.fns[norm_path(fn['path'])] = fn
        # trait method -> local impl fns
        self.trait_impls = {}
        for fn in facts['fns']:
            tr = fn.get('impl_trait')
            if tr:
                m = H.last_seg(fn['path'])
                self.trait_impls.setdefault((norm_path(tr), m), []).append(norm_path(fn['path']))
        self.drop_impls = {}
        for imp in facts['impls']:
            if imp.get('trait') == 'std::ops::Drop':
                self.drop_impls[imp.get('self_adt') or imp['self']] = [norm_path(x) for x in imp['items']]
        # ADTs whose drop glue reaches a local Drop impl (transitively through fields)
        self.needs_drop = {a: set(items) for a, items in self.drop_impls.items()}
        changed = True
        while changed:
            changed = False
            for adt in facts['adts']:
                ap = adt['path']
                for v in adt['variants']:
                    for fld in v['fields']:
                        if fld['ty'].startswith(('&', '*const', '*mut')):
                            continue
                        for d, items in list(self.needs_drop.items()):
                            if d != ap and mentions(fld['ty'], d):
                                cur = self.needs_drop.setdefault(ap, set())
                                if not items <= cur:
                                    cur |= items
                                    changed = True
        self.edges = {}
        self.sites = {}
        for p, fn in self.fns.items():
            self.edges[p] = self._edges(p, fn)

    def _edges(self, p, fn):
        out = set()
        body = fn.get('mir')
        if not body:
            return out
        reach = reachable_blocks(body)
        for b in body['blocks']:
            if b['i'] not in reach:
                continue
            for st in b['stmts']:
                if st['k'] != 'Assign':
                    continue
                rv = st['rv']
                self._value_refs(rv, out)
            t = b['term']
            if t['k'] == 'Call':
                decl, res, gargs, is_tm = callee_of(t)
                if decl:
                    tgt = res or decl
                    out.add(tgt)
                    if is_tm and not res:
                        # unresolved trait call: may reach every local impl of that method
                        tr = '::'.join(decl.split('::')[:-1])
                        for imp in self.trait_impls.get((tr, decl.split('::')[-1]), []):
                            out.add(imp)
                for a in t['args']:
                    self._operand_refs(a, out)
                self._operand_refs(t['func'], out)
            elif t['k'] == 'Drop':
                ty = t.get('ty', '')
                for adt, items in self.needs_drop.items():
                    if mentions(ty, adt):
                        out.update(items)
        return out

    def _operand_refs(self, op, out):
        if op.get('k') == 'Const':
            if 'fn' in op:
                out.add(norm_path(op.get('resolved') or op['fn']))
            if 'closure' in op:
                out.add(norm_path(op['closure']))

    def _value_refs(self, rv, out):
        k = rv.get('k')
        if k == 'Aggregate':
            if rv.get('ak') == 'Closure':
                out.add(norm_path(rv['closure']))
            for o in rv['ops']:
                self._operand_refs(o, out)
        elif k in ('Use', 'Cast', 'Repeat'):
            self._operand_refs(rv['op'], out)

    def reachable(self, roots, blocked=()):
        seen = {}
        st = [(r, None) for r in roots]
        while st:
            f, parent = st.pop()
            if f in seen or f in blocked:
                continue
            seen[f] = parent
            for g in self.edges.get(f, ()):
                if g in self.fns and g not in seen:
                    st.append((g, f))
        return seen

    def path_to(self, seen, f):
        out = []
        while f is not None:
            out.append(f)
            f = seen.get(f)
        return list(reversed(out))

    def callers(self, target):
        return sorted(p for p, es in self.edges.items() if target in es)


PANIC_FNS_PREFIX = ('std::panicking::', 'core::panicking::', 'std::rt::begin_panic', 'std::rt::panic_fmt')

# curated panicking library entry points (declared paths, generics stripped)
PANICKY_LIB = {
    'std::option::Option::unwrap', 'std::option::Option::expect',
    'std::result::Result::unwrap', 'std::result::Result::expect',
    'std::result::Result::unwrap_err', 'std::result::Result::expect_err',
    'std::ops::Index::index', 'std::ops::IndexMut::index_mut',
    'std::vec::Vec::with_capacity', 'std::vec::Vec::reserve', 'std::vec::Vec::reserve_exact',
    'std::vec::Vec::resize', 'std::vec::Vec::drain', 'std::vec::Vec::remove', 'std::vec::Vec::swap_remove',
    'std::vec::Vec::split_off', 'std::vec::Vec::insert', 'std::vec::Vec::truncate_front',
    'std::cell::RefCell::borrow', 'std::cell::RefCell::borrow_mut',
    'std::slice::copy_from_slice', 'std::slice::split_at', 'std::slice::split_at_mut',
    'std::ops::Add::add', 'std::ops::Sub::sub', 'std::ops::Mul::mul', 'std::ops::Div::div',
    'std::ops::AddAssign::add_assign', 'std::ops::SubAssign::sub_assign',
    'std::time::Instant::duration_since',
    'std::string::String::with_capacity', 'std::collections::VecDeque::with_capacity',
    'std::collections::HashMap::with_capacity',
    'std::str::from_utf8_unchecked', 'std::string::String::truncate', 'std::string::String::split_off', 'std::string::String::insert',
    'std::string::String::remove', 'std::string::String::drain', 'std::string::String::replace_range',
    'bytes::Buf::advance',
}


def panic_sites(path, fn):
    """Enumerate panic-capable sites of one MIR body. Each: dict(kind, detail, sp, mac, block)."""
    out = []
    body = fn.get('mir')
    if not body:
        return out
    reach = reachable_blocks(body)
    for b in body['blocks']:
        if b['i'] not in reach or b.get('cleanup'):
            continue
        t = b['term']
        if t['k'] == 'Assert':
            out.append({'kind': 'assert', 'detail': t['kind'], 'sp': t['sp'], 'mac': t.get('mac', []), 'block': b['i']})
        elif t['k'] == 'Call':
            decl, res, gargs, is_tm = callee_of(t)
            if not decl:
                continue
            if decl.startswith(PANIC_FNS_PREFIX):
                macs = t.get('mac', [])
                out.append({'kind': 'panic', 'detail': (macs[-1] if macs else decl.split('::')[-1]), 'sp': t['sp'], 'mac': macs, 'block': b['i'], 'callee': decl})
            elif decl in PANICKY_LIB:
                # arithmetic operator traits on primitive ints are Assert terminators, not calls;
                # these calls are on library types (Duration, Instant ...)
                self_ty = gargs[0] if gargs else ''
                macs = t.get('mac', [])
                out.append({'kind': 'lib', 'detail': decl, 'self_ty': self_ty, 'resolved': res, 'sp': t['sp'], 'mac': macs, 'block': b['i'], 'callee': decl})
    return out
