"""Rule-running core: context over the facts, rule instances, fail-closed plumbing, reports,
evidence, known findings."""
import hashlib
import json
import os
import re
import time
import traceback

import hir as H
import mir as M
import canon
import sym as S
import sigshape
from facts import VERIF

EVID = os.path.join(VERIF, 'evidence')
REPORTS = os.path.join(EVID, 'reports')
KNOWN = os.path.join(VERIF, 'KNOWN_FINDINGS.txt')


class MissingAnchor(Exception):
    pass


class Unrecognised(Exception):
    """The code no longer has the shape a rule can read (fail closed)."""
    pass


def jsonable(x):
    """Make any rule payload JSON-serialisable (tuple keys, sets, terms)."""
    if isinstance(x, dict):
        return {(k if isinstance(k, (str, int, float, bool)) or k is None else str(k)): jsonable(v) for k, v in x.items()}
    if isinstance(x, (list, tuple, set, frozenset)):
        return [jsonable(v) for v in (sorted(x, key=str) if isinstance(x, (set, frozenset)) else x)]
    if isinstance(x, (str, int, float, bool)) or x is None:
        return x
    return str(x)


class Inst(object):
    def __init__(self, rule, key, ok, site, built=None, expected=None, why=None, info=False, kind='rule'):
        self.rule = rule
        self.key = key
        self.ok = ok
        self.site = site
        self.built = jsonable(built)
        self.expected = jsonable(expected)
        self.why = why
        self.info = info
        self.kind = kind

    def as_dict(self):
        d = {'rule': self.rule, 'key': self.key, 'ok': self.ok, 'site': self.site}
        if self.built is not None:
            d['as_built'] = self.built
        if self.expected is not None:
            d['expected'] = self.expected
        if self.why:
            d['why'] = self.why
        if self.kind != 'rule':
            d['kind'] = self.kind
        return d


class RuleRun(object):
    def __init__(self, ctx, rid, desc, floor):
        self.ctx = ctx
        self.rid = rid
        self.desc = desc
        self.floor = floor
        self.insts = []

    def _key(self, key):
        return '%s:%s' % (self.rid, key)

    def ok(self, key, site=None, built=None):
        self.insts.append(Inst(self.rid, self._key(key), True, site, built=built))

    def bad(self, key, site=None, built=None, expected=None, why=None):
        self.insts.append(Inst(self.rid, self._key(key), False, site, built=built, expected=expected, why=why))

    def check(self, key, cond, site=None, built=None, expected=None, why=None):
        if cond:
            self.ok(key, site, built)
        else:
            self.bad(key, site, built, expected, why)
        return cond

    def eq(self, key, built, expected, site=None, why=None):
        return self.check(key, built == expected, site, built, expected, why)

    def info(self, key, site=None, built=None, why=None):
        self.insts.append(Inst(self.rid, self._key(key), True, site, built=built, why=why, info=True))

    def __enter__(self):
        return self

    def __exit__(self, et, ev, tb):
        if et is not None and issubclass(et, Exception):  # whatever went wrong while deciding a rule: fail closed, never crash the check
            kind = 'fail-closed'
            why = '%s: %s' % (et.__name__, ev)
            if not issubclass(et, (MissingAnchor, Unrecognised)):
                why += ' | ' + ''.join(traceback.format_tb(tb)[-2:]).replace('\n', ' ')
            self.insts.append(Inst(self.rid, self._key('fail-closed'), False, None, why=why, kind=kind))
            self.ctx.rules.append(self)
            return True
        if et is None:
            n = len([i for i in self.insts if not i.info])
            if n < self.floor:
                self.insts.append(Inst(self.rid, self._key('instance-floor'), False, None, built=n, expected='>= %d' % self.floor,
                                       why='rule matched fewer instances than confirmed by hand on the pinned tree (vacuous-pass guard)', kind='fail-closed'))
            self.ctx.rules.append(self)
        return False


class Ctx(object):
    def __init__(self, facts, info, prop, tier='quick', config='default'):
        self.facts = facts
        self.info = info
        self.prop = prop
        self.tier = tier
        self.config = config
        apply_adt_moves(facts)
        apply_new_consts(facts)
        apply_variant_shapes(facts)
        apply_aliases(facts)
        apply_param_orders(facts)
        sigshape.apply_param_objects(facts)
        apply_field_aliases(facts)
        self.fns = {}
        for fn in facts['fns']:
            self.fns[S.norm_path(fn['path'])] = fn
        self.adts = {S.norm_path(a['path']): a for a in facts['adts']}
        canon.register([dict(a, path=S.norm_path(a['path'])) for a in facts['adts']])
        self.consts = {S.norm_path(c['path']): c for c in facts['consts']}
        self.impls = facts['impls']
        self.rules = []
        self._cg = None
        self.counts = {'functions_analysed': set(), 'call_sites': 0, 'arms': 0, 'fields': 0}

    # ---- lookup
    def fn(self, path):
        f = self.fns.get(path)
        if f is None:
            raise MissingAnchor('anchor function not found: ' + path)
        self.counts['functions_analysed'].add(path)
        return f

    def has_fn(self, path):
        return path in self.fns

    def adt(self, path):
        a = self.adts.get(path)
        if a is None:
            raise MissingAnchor('anchor type not found: ' + path)
        return a

    def const(self, path):
        c = self.consts.get(path)
        if c is None:
            raise MissingAnchor('anchor const not found: ' + path)
        return c

    def site(self, fnpath, node_or_sp=None):
        fn = self.fns.get(fnpath)
        f = os.path.relpath(fn['file'], self.info.get('repo', '/repo')) if fn else '?'
        if f.startswith('..'):
            f = fn['file']
        sp = None
        if isinstance(node_or_sp, dict):
            sp = node_or_sp.get('sp')
        elif isinstance(node_or_sp, str):
            sp = node_or_sp
        if sp is None and fn:
            sp = fn['sp']
        line = sp.split(':')[0] if sp else '?'
        return '%s:%s (%s)' % (f, line, fnpath)

    @property
    def cg(self):
        if self._cg is None:
            self._cg = M.CallGraph(self.facts)
        return self._cg

    def rule(self, rid, desc, floor=1, floor_notls=None):
        """floor = number of instances confirmed on the pinned tree (default features);
        floor_notls = the same for the --no-default-features configuration when it differs."""
        if self.config == 'notls' and floor_notls is not None:
            floor = floor_notls
        return RuleRun(self, rid, desc, floor)

    def vocabulary(self):
        if getattr(self, '_vocab', None) is None:
            v = set()
            with open(os.path.join(VERIF, 'spec', 'vocabulary.txt')) as fh:
                for line in fh:
                    line = line.strip()
                    if line and not line.startswith('#'):
                        v.add(line)
            self._vocab = v
        return self._vocab

    def new_helper(self, path):
        """A crate-local function the oracle vocabulary does not know: inline it."""
        return path not in self.vocabulary()

    def owner(self, path):
        """The function a call site 'belongs to' for who-may-call rules: a closure belongs to the function
        that contains it, and a helper the oracle vocabulary does not know (not `pub`) belongs to its only
        caller -- so extracting a private helper does not create a new caller, while a second caller does."""
        seen = set()
        while True:
            path = re.sub(r'(::\{closure#\d+\})+$', '', path)
            if path in seen or not self.new_helper(path):
                return path
            seen.add(path)
            fn = self.fns.get(path)
            if fn is None or H.is_public(fn) or fn.get('impl_trait'):
                return path
            cs = set(re.sub(r'(::\{closure#\d+\})+$', '', c) for c in self.cg.callers(path)) - {path}
            if len(cs) != 1:
                return path
            path = cs.pop()

    def owners(self, path):
        """Like owner(), for a helper shared by several callers: the vocabulary functions it belongs to (each caller's
        owner), or {path} when it is not such a helper."""
        path = re.sub(r'(::\{closure#\d+\})+$', '', path)
        if not self.new_helper(path):
            return {path}
        fn = self.fns.get(path)
        if fn is None or H.is_public(fn) or fn.get('impl_trait'):
            return {path}
        out, seen, st = set(), {path}, [path]
        while st:
            f = st.pop()
            cs = set(re.sub(r'(::\{closure#\d+\})+$', '', c) for c in self.cg.callers(f)) - {f}
            if not cs:
                return {path}
            for c in cs:
                cf = self.fns.get(c)
                if self.new_helper(c) and cf is not None and not H.is_public(cf) and not cf.get('impl_trait'):
                    if c not in seen:
                        seen.add(c)
                        st.append(c)
                else:
                    out.add(c)
        return out or {path}

    def callers(self, target):
        return set(self.owner(c) for c in self.cg.callers(target))

    def evaluator(self, depth=4, inline_filter=None):
        if depth == 0 and inline_filter is None:
            # even "no inlining" reads through helpers that did not exist when the tables were written
            ev = S.Evaluator(self.fns, inline_depth=3, inline_filter=self.new_helper)
        else:
            ev = S.Evaluator(self.fns, inline_depth=depth, inline_filter=inline_filter)
        ev.consts = self.consts
        ev.new_const = self.new_const
        ev.new_helper = self.new_helper
        ev.obs = self.obs_fields()
        ev.obs_names = self.obs_field_names()
        ev.error_has_source = self.error_has_source
        ev.records = self.records()
        return ev

    def obs_fields(self):
        """Struct fields that only *observe* the run: written (and self-updated), logged, formatted by Debug /
        Display, handed out by an accessor nobody uses for a decision -- never read by the library's own logic.
        Writes to them cannot change behaviour, so they are not effects of any script or table."""
        if getattr(self, '_obs', None) is not None:
            return self._obs
        occ = {}   # (adt, field) -> set of classes {'write','self','log','fmt','neutral','read','acc:<fn>'}
        accessor_reads = {}

        def adt_of(node):
            return S.norm_path(canon.strip_ty(node.get('ty') or ''))

        def visit(n, fnp, fn, in_log, lhs_keys, role, in_fmt):
            """role: 'read' | 'write' (the assigned place itself) | ('proj', cls) (base of a projection whose leaf access has class cls)"""
            if not isinstance(n, dict):
                return
            k = n.get('k')
            if k == 'MacroCall' and n.get('name') in H.LOG_MACROS:
                in_log = True
            if k in ('Assign', 'AssignOp'):
                lk = place_keys(n['l'])
                visit(n['l'], fnp, fn, in_log, lhs_keys, 'write', in_fmt)
                visit(n['r'], fnp, fn, in_log, lhs_keys | set(lk), 'read', in_fmt)
                return
            if k in ('AddrOf', 'Unary', 'Paren', 'DropTemps') and role == 'write' and n.get('e') is not None:
                visit(n['e'], fnp, fn, in_log, lhs_keys, 'write', in_fmt)
                return
            if k in ('Call', 'MethodCall'):
                # `helper(&mut self.stats.x, ..)` where the helper only writes through that parameter is a write of the field
                cp = S.norm_path(H.callee_path(n) or '')
                tgt = self.fns.get(cp)
                args = H.call_args(n)
                handled = set()
                if tgt is not None and 'hir' in tgt and len(tgt.get('params', [])) == len(args):
                    for i_, a_ in enumerate(args):
                        if a_.get('k') == 'AddrOf' and a_.get('mut') and H.peel(a_['e']).get('k') == 'Field' and write_only_param(tgt, i_):
                            visit(a_['e'], fnp, fn, in_log, lhs_keys, 'write', in_fmt)
                            handled.add(i_)
                if tgt is not None and args and 0 not in handled and is_sink(tgt):
                    # `self.stats.record(..)` where `record(&mut self, ..)` returns nothing and can reach nothing but `*self`
                    a0 = args[0]
                    while a0.get('k') == 'AddrOf' or (a0.get('k') == 'Unary' and a0.get('op') == 'Deref'):
                        a0 = a0['e']
                    if a0.get('k') == 'Field':
                        visit(a0, fnp, fn, in_log, lhs_keys, 'write', in_fmt)
                        handled.add(0)
                for i_, a_ in enumerate(args):
                    if i_ not in handled:
                        visit(a_, fnp, fn, in_log, lhs_keys, 'read', in_fmt)
                if k == 'Call':
                    visit(n['f'], fnp, fn, in_log, lhs_keys, 'read', in_fmt)
                return
            if k == 'Field':
                key = (adt_of(n['e']), n['name'])
                if role == 'write':
                    cls = 'write'
                elif isinstance(role, tuple):
                    cls = 'neutral' if role[1] in ('write', 'neutral', 'self', 'log', 'fmt') or role[1].startswith('acc:') else 'read'
                elif in_log:
                    cls = 'log'
                elif in_fmt:
                    cls = 'fmt'
                elif key in lhs_keys:
                    cls = 'self'
                elif fn.get('_accessor_of') == key:
                    cls = 'acc:' + fnp
                else:
                    cls = 'read'
                occ.setdefault(key, set()).add(cls)
                visit(n['e'], fnp, fn, in_log, lhs_keys, ('proj', cls), in_fmt)
                return
            for _, c in H.children(n):
                visit(c, fnp, fn, in_log, lhs_keys, 'read', in_fmt)

        _sink = {}

        def is_sink(tgt):
            """`fn(&mut self, by-value / shared arguments..)` without a result whose body calls nothing but arithmetic helpers, logging
            and other such functions on parts of `self`: whatever it computes can only end up in `*self`."""
            key = id(tgt)
            if key in _sink:
                return _sink[key]
            _sink[key] = False   # recursion: not a sink
            prms = tgt.get('params', [])
            ok = bool(prms) and prms[0].get('k') == 'Bind' and (prms[0].get('ty') or '').startswith('&mut ') and tgt.get('output') == '()' \
                and 'hir' in tgt and not tgt.get('impl_trait') and not any('&mut' in (q.get('ty') or '') or 'Cell' in (q.get('ty') or '') or 'Mutex' in (q.get('ty') or '')
                                                                            or 'Sender' in (q.get('ty') or '') for q in prms[1:])
            if ok:
                pid = prms[0]['id']

                def rooted(x):
                    while isinstance(x, dict) and (x.get('k') in ('Field', 'AddrOf', 'Index') or (x.get('k') == 'Unary' and x.get('op') == 'Deref')):
                        x = x['e']
                    return isinstance(x, dict) and x.get('k') == 'Local' and x['id'] == pid
                for n_ in H.walk(tgt['hir']):
                    k_ = n_.get('k')
                    if k_ in ('Call', 'MethodCall'):
                        cp_ = S.norm_path(H.callee_path(n_) or H.callee_decl(n_) or '')
                        if cp_.split('::')[-1] in S.PURE_NUM and cp_.split('::')[0] in ('std', 'core'):
                            continue
                        t2 = self.fns.get(cp_)
                        if t2 is not None and H.call_args(n_) and rooted(H.call_args(n_)[0]) and is_sink(t2):
                            continue
                        ok = False
                        break
                    if k_ == 'MacroCall' and n_.get('name') not in H.LOG_MACROS:
                        ok = False
                        break
                    if k_ in ('Closure', 'InlineAsm', 'Yield', 'Await'):
                        ok = False
                        break
            _sink[key] = ok
            return ok

        _wop = {}

        def write_only_param(tgt, i_):
            key = (id(tgt), i_)
            if key in _wop:
                return _wop[key]
            prm = tgt['params'][i_]
            ok = prm.get('k') == 'Bind' and (prm.get('ty') or '').startswith('&mut ')
            if ok:
                pid = prm['id']

                def scan(n, role, lhs_self):
                    nonlocal ok
                    if not isinstance(n, dict) or not ok:
                        return
                    k2 = n.get('k')
                    if k2 == 'MacroCall' and n.get('name') in H.LOG_MACROS:
                        return
                    if k2 in ('Assign', 'AssignOp'):
                        tgt_is_p = H.peel(n['l']).get('k') == 'Local' and H.peel(n['l'])['id'] == pid or \
                            (n['l'].get('k') == 'Unary' and H.peel(n['l'].get('e', {})).get('k') == 'Local' and H.peel(n['l']['e'])['id'] == pid)
                        scan(n['l'], 'write', False)
                        scan(n['r'], 'read', tgt_is_p)
                        return
                    if k2 == 'Local' and n['id'] == pid:
                        if role != 'write' and not lhs_self:
                            ok = False
                        return
                    for _, c in H.children(n):
                        scan(c, role, lhs_self)
                scan(tgt['hir'], 'read', False)
            _wop[key] = ok
            return ok

        def place_keys(l):
            out = []
            x = H.peel(l)
            while x.get('k') == 'Field':
                out.append((adt_of(x['e']), x['name']))
                x = H.peel(x['e'])
            return out

        # accessors: fn(&self) -> T whose body is just `self.f` (possibly copied / cloned)
        for p, fn in self.fns.items():
            if 'hir' not in fn or fn.get('cfg_test') or len(fn.get('params', [])) != 1:
                continue
            b = H.peel(fn['hir'])
            while b.get('k') == 'Block' and not b['stmts'] and b.get('expr') is not None:
                b = H.peel(b['expr'])
            if b.get('k') == 'Field' and H.peel(b['e']).get('k') == 'Local':
                fn['_accessor_of'] = (adt_of(b['e']), b['name'])
        for p, fn in self.fns.items():
            if 'hir' not in fn or fn.get('cfg_test'):
                continue
            in_fmt = fn.get('impl_trait') in ('std::fmt::Debug', 'std::fmt::Display') or bool(fn.get('mac'))
            visit(fn['hir'], p, fn, False, frozenset(), 'read', in_fmt)
        obs = set()
        for key, classes in occ.items():
            if key[0] not in self.adts:
                continue
            bad = False
            for c in classes:
                if c == 'read':
                    bad = True
                elif c.startswith('acc:'):
                    accp = c[4:]
                    # the accessor's value must itself only be logged (or the accessor be unused inside the crate)
                    for caller in self.cg.callers(accp):
                        cf = self.fns.get(re.sub(r'(::\{closure#\d+\})+$', '', caller))
                        if cf is None or 'hir' not in cf:
                            bad = True
                            continue
                        for cn, chain in [(x, None) for x in H.walk(cf['hir'])]:
                            pass
                        calls_outside_log = False
                        def scan(n, in_log):
                            nonlocal calls_outside_log
                            if not isinstance(n, dict):
                                return
                            if n.get('k') == 'MacroCall' and n.get('name') in H.LOG_MACROS:
                                in_log = True
                            if n.get('k') in ('Call', 'MethodCall') and S.norm_path(H.callee_path(n) or '') == accp and not in_log:
                                calls_outside_log = True
                            for _, c2 in H.children(n):
                                scan(c2, in_log)
                        scan(cf['hir'], False)
                        if calls_outside_log:
                            bad = True
            if not bad and 'write' in classes:
                obs.add(key)
        # a field whose own uses are only projections into observation-only fields (a stats struct) is one too
        changed = True
        while changed:
            changed = False
            for key, classes in occ.items():
                if key in obs or key[0] not in self.adts:
                    continue
                if classes <= {'neutral', 'log', 'fmt', 'self'} and 'neutral' in classes:
                    fld = [f for f in self.adts[key[0]]['variants'][0]['fields'] if f['name'] == key[1]] if self.adts[key[0]].get('variants') else []
                    fty = S.norm_path(canon.strip_ty(fld[0]['ty'])) if fld else None
                    if fty in self.adts and all((fty, f2['name']) in obs or (fty, f2['name']) not in occ for f2 in self.adts[fty]['variants'][0]['fields']) and any((fty, f2['name']) in obs for f2 in self.adts[fty]['variants'][0]['fields']):
                        obs.add(key)
                        changed = True
        self._obs = obs
        return obs

    def records(self):
        """private structs the oracle vocabulary does not know: {path: [field names in declaration order]}. They are
        read as tuples (a tuple turned into a small struct changes no term)."""
        if getattr(self, '_records', None) is None:
            if getattr(self, '_vocab_fields', None) is None:
                self.vocab_fields('')
            out = {}
            for ap, a in self.adts.items():
                if a.get('is_enum') or ap in self._vocab_fields or H.is_public(a) or len(a.get('variants') or []) != 1:
                    continue
                fl = a['variants'][0]['fields']
                if fl and not all(f['name'].isdigit() for f in fl) and (ap, fl[0]['name']) not in self.obs_fields():
                    out[ap] = [f['name'] for f in fl]
            self._records = out
        return self._records

    def expand_ty(self, ty):
        """type string with record structs spelled as the tuples they stand for"""
        for ap, names in self.records().items():
            if ap in (ty or ''):
                fl = self.adts[ap]['variants'][0]['fields']
                ty = ty.replace(ap, '(%s)' % ', '.join(f['ty'] for f in fl))
        return ty

    def error_has_source(self, variant_path):
        """errors::Error::X has a `source` field (so a context selector on a Result wraps the underlying error)"""
        if getattr(self, '_err_src', None) is None:
            e = self.adts.get('errors::Error')
            self._err_src = set('errors::Error::' + v['name'] for v in (e or {}).get('variants', []) if any(f['name'] == 'source' for f in v['fields']))
        return variant_path in self._err_src

    def vocab_fields(self, adt):
        """field names the oracle vocabulary knows for a struct (pinned tree)"""
        if getattr(self, '_vocab_fields', None) is None:
            try:
                with open(os.path.join(VERIF, 'spec', 'vocabulary_fields.json')) as fh:
                    self._vocab_fields = json.load(fh)
            except (IOError, ValueError):
                self._vocab_fields = {}
        return set(n for n, _, _ in self._vocab_fields.get(adt, []))

    def obs_field_names(self):
        """names of observation-only fields that no other struct field of the crate shares (usable on terms, which carry no types)"""
        obs = self.obs_fields()
        names = set(n for _, n in obs)
        for ap, a in self.adts.items():
            for v in a.get('variants') or []:
                for f in v['fields']:
                    if f['name'] in names and (ap, f['name']) not in obs:
                        names.discard(f['name'])
        return names

    def new_const(self, path):
        if getattr(self, '_vocab_consts', None) is None:
            with open(os.path.join(VERIF, 'spec', 'vocabulary_consts.txt')) as fh:
                self._vocab_consts = set(l.strip() for l in fh if l.strip() and not l.startswith('#'))
        return path not in self._vocab_consts

    def events(self, path, depth=0, inline_filter=None):
        self.fn(path)
        ev = self.evaluator(depth, inline_filter)
        ret = ev.run_fn(path)
        self.counts['call_sites'] += len([e for e in ev.events if e.kind == 'call'])
        return ev.events, ret

    def impls_of(self, trait, self_adt=None):
        out = []
        for imp in self.impls:
            if imp.get('trait') == trait and (self_adt is None or imp.get('self_adt') == self_adt):
                out.append(imp)
        return out


def _forwards_to(fn, by, is_new):
    """The new function `fn` only forwards to (see apply_aliases), or None."""
    body = fn['hir']
    while body.get('k') == 'Block' and not body.get('stmts') and body.get('expr') is not None:
        body = body['expr']
    if body.get('k') != 'Block':
        body = {'k': 'Block', 'stmts': [], 'expr': body}
    skip = H.log_only_locals(fn['hir'], by, is_new)
    stmts = []
    for st in body.get('stmts', []):
        if st['k'] == 'Let' and st.get('pat', {}).get('k') == 'Bind' and st['pat']['id'] in skip:
            continue
        if st['k'] in ('Semi', 'ExprStmt') and H.log_stmt(st['e'], by, is_new):
            continue
        stmts.append(st)
    tail = body.get('expr')
    call = None
    if not stmts and tail is not None:
        call = H.peel(tail)
    elif len(stmts) == 1 and stmts[0]['k'] == 'Let' and stmts[0].get('pat', {}).get('k') == 'Bind' and stmts[0].get('init') is not None and stmts[0].get('els') is None \
            and tail is not None and H.peel(tail).get('k') == 'Local' and H.peel(tail)['id'] == stmts[0]['pat']['id']:
        call = H.peel(stmts[0]['init'])
    if call is None or call.get('k') not in ('Call', 'MethodCall'):
        return None
    params = fn.get('params', [])
    args = H.call_args(call)
    if len(args) != len(params) or not params:
        return None
    for prm, a in zip(params, args):
        a = H.peel(a)
        while a.get('k') in ('AddrOf',) or (a.get('k') == 'Unary' and a.get('op') == 'Deref'):
            a = H.peel(a['e'])
        if prm.get('k') != 'Bind' or a.get('k') != 'Local' or a['id'] != prm['id']:
            return None
    g = S.norm_path(H.callee_path(call) or '')
    return g if g in by else None


def apply_aliases(facts):
    """A function of the oracle vocabulary that is gone, while exactly one function unknown to the vocabulary
    has its signature in the same top-level module, was renamed or moved: read the new one under the old name
    (its body is judged by the same rules as before). Done once per fact set, in place."""
    meta = facts.setdefault('meta', {})
    if meta.get('aliases') is not None:
        return meta['aliases']
    meta['aliases'] = {}
    try:
        with open(os.path.join(VERIF, 'spec', 'vocabulary_sigs.json')) as fh:
            sigs = json.load(fh)
    except (IOError, ValueError):
        return {}
    by = {}
    for fn in facts['fns']:
        by[S.norm_path(fn['path'])] = fn
    missing = [m for m in sigs if m not in by]
    new = [p for p, fn in by.items() if p not in sigs and fn.get('dk') in ('Fn', 'AssocFn') and 'hir' in fn and not fn.get('mac') and not fn.get('cfg_test')]
    def bare(t):
        # type string without generic arguments: a type that lost or gained a parameter is still that type
        out, d = '', 0
        for c in (t or ''):
            if c == '<':
                d += 1
            elif c == '>':
                d -= 1
            elif d == 0:
                out += c
        return out

    def sig(fn):
        return (tuple(bare(x) for x in (fn.get('inputs') or ())), bare(fn.get('output')), fn.get('impl_trait'))
    cand = {}
    for m in missing:
        want = (tuple(bare(x) for x in (sigs[m].get('inputs') or ())), bare(sigs[m].get('output')), sigs[m].get('impl_trait'))
        cs = [n for n in new if sig(by[n]) == want and n.split('::')[0] == m.split('::')[0]]
        if len(cs) == 1:
            cand[m] = cs[0]
    used = {}
    for m, n in cand.items():
        used.setdefault(n, []).append(m)
    ren = {n: ms[0] for n, ms in used.items() if len(ms) == 1}
    # a vocabulary function that became a forwarder -- it hands its own parameters, in order, to one new function of
    # the same signature and returns that result, doing nothing else but logging -- is that function under its old name
    fwd = {}
    is_new = lambda p_: p_ not in sigs
    for m in sigs:
        fn = by.get(m)
        if fn is None or 'hir' not in fn or fn.get('mac'):
            continue
        g = _forwards_to(fn, by, is_new)
        if g is not None and g in new and g not in ren and sig(by[g]) == sig(fn) and g not in fwd.values():
            fwd[m] = g
    for m, g in fwd.items():
        facts['fns'] = [f_ for f_ in facts['fns'] if S.norm_path(f_['path']) != m and not S.norm_path(f_['path']).startswith(m + '::{closure')]
        ren[g] = m
    # a vocabulary function moved to the type of one of its parameters, losing parameters it did not use
    moved = sigshape.moved_methods(facts, sigs, by, [m for m in missing if m not in ren.values()], new, set(ren))
    sigshape.apply_moved_methods(facts, sigs, moved)
    for g, (m, _) in moved.items():
        ren[g] = m
    if not ren:
        return {}

    def fix(s):
        n = S.norm_path(s)
        if n in ren:
            return ren[n]
        for old, newp in ren.items():
            if n.startswith(old + '::'):
                return newp + n[len(old):]
        return s

    def walk(o):
        if isinstance(o, dict):
            for k, v in o.items():
                if isinstance(v, str):
                    if k in ('path', 'resolved', 'callee', 'parent', 'def', 'decl', 'target', 'fn') and '::' in v:
                        o[k] = fix(v)
                else:
                    walk(v)
        elif isinstance(o, list):
            for i, v in enumerate(o):
                if isinstance(v, str):
                    continue
                walk(v)
    walk(facts['fns'])
    meta['aliases'] = ren
    return ren


def adt_shape(a):
    """Shape of a type that does not mention where it lives: (is_enum, [(variant, [(field, type with own path as Self)])])"""
    me = S.norm_path(a['path'])
    return [bool(a.get('is_enum')), [[v['name'], [[f['name'], re.sub(r'(?<![\w:])' + re.escape(me) + r'(?![\w])', 'Self', S.norm_path(f['ty']) if False else f['ty'])] for f in v['fields']]] for v in a.get('variants') or []]]


def apply_adt_moves(facts):
    """A type of the oracle vocabulary that is gone while exactly one unknown type of the same name and the same shape exists
    elsewhere in the crate was moved to another module: read it under its old path. Returns the (possibly rewritten) facts."""
    meta = facts.setdefault('meta', {})
    if meta.get('adt_moves') is not None:
        return facts
    meta['adt_moves'] = {}
    try:
        with open(os.path.join(VERIF, 'spec', 'vocabulary_adts.json')) as fh:
            vocab = json.load(fh)
    except (IOError, ValueError):
        return facts
    have = {S.norm_path(a['path']): a for a in facts['adts'] if not a.get('cfg_test')}
    missing = [m for m in vocab if m not in have]
    new = [n for n in have if n not in vocab]
    ren = {}
    for m in missing:
        cs = [n for n in new if n.split('::')[-1] == m.split('::')[-1] and adt_shape(have[n]) == vocab[m]]
        if len(cs) == 1 and len([m2 for m2 in missing if m2.split('::')[-1] == m.split('::')[-1]]) == 1:
            ren[cs[0]] = m
    if not ren:
        return facts
    txt = json.dumps(facts)
    for n, m in sorted(ren.items(), key=lambda kv: -len(kv[0])):
        txt = re.sub(r'(?<![\w:])' + re.escape(n) + r'(?![\w])', m, txt)
    out = json.loads(txt)
    out.setdefault('meta', {})['adt_moves'] = ren
    facts.clear()
    facts.update(out)  # in place: the fact set is shared by every property evaluated on it
    return facts


def apply_new_consts(facts):
    """A constant the oracle vocabulary does not know whose value is a literal (or a constructor applied to literals) is a
    name for that value: every mention of it -- as an expression or as a pattern -- is replaced by the value, so the
    HIR-level readers see what the tables see. Done once per fact set, in place."""
    meta = facts.setdefault('meta', {})
    if meta.get('new_consts') is not None:
        return meta['new_consts']
    meta['new_consts'] = {}
    try:
        with open(os.path.join(VERIF, 'spec', 'vocabulary_consts.txt')) as fh:
            known = set(l.strip() for l in fh if l.strip() and not l.startswith('#'))
    except IOError:
        return {}

    pending = {}
    for c in facts.get('consts', []):
        cp = S.norm_path(c['path'])
        if cp not in known and 'hir' in c and not c.get('cfg_test'):
            pending[cp] = c['hir']
    vals = {}

    def simple(n, depth=0):
        """the literal (or constructor applied to literals) an expression is, following other new constants and lossless casts"""
        n = H.peel(n) if isinstance(n, dict) else n
        if not isinstance(n, dict) or depth > 6:
            return None
        k = n.get('k')
        if k == 'Block' and not n.get('stmts') and n.get('expr') is not None:
            return simple(n['expr'], depth + 1)
        if k == 'Lit':
            return n
        if k == 'Cast':
            v = simple(n.get('e'), depth + 1)
            if v is not None and v.get('k') == 'Lit' and (v.get('v') or {}).get('t') == 'int' and n.get('to') in H._INTS:
                return dict(v, ty=n.get('to'))
            return None
        if k == 'Def' and 'Const' in (n.get('dk') or ''):
            cp = S.norm_path(n.get('resolved') or n.get('path') or '')
            if cp in vals:
                return vals[cp]
            if cp in pending:
                return simple(pending[cp], depth + 1)
            return None
        if k == 'Call' and (n.get('f') or {}).get('dk', '').startswith('Ctor') and n.get('args'):
            args = [simple(a, depth + 1) for a in n['args']]
            if all(a is not None and a.get('k') == 'Lit' for a in args):
                return dict(n, args=args)
        return None
    for cp, h in pending.items():
        v = simple(h)
        if v is not None:
            vals[cp] = v
    if not vals:
        return {}

    def as_pat(v):
        if v.get('k') == 'Lit':
            return {'k': 'PLit', 'v': v['v'], 'neg': False}
        return {'k': 'PTupleStruct', 'res': dict(v['f']), 'pats': [as_pat(H.peel(a)) for a in v['args']], 'dd': None}

    import copy

    def fix(n):
        if isinstance(n, dict):
            for key, v in list(n.items()):
                if isinstance(v, dict):
                    k = v.get('k')
                    if k == 'Def' and 'Const' in (v.get('dk') or '') and S.norm_path(v.get('resolved') or v.get('path') or '') in vals and key not in ('f', 'res'):
                        rep = copy.deepcopy(vals[S.norm_path(v.get('resolved') or v.get('path'))])
                        rep['sp'] = v.get('sp', rep.get('sp'))
                        if v.get('ty'):
                            rep['ty'] = v['ty']
                        n[key] = rep
                        continue
                    if k == 'PPath' and 'Const' in ((v.get('res') or {}).get('dk') or '') and S.norm_path((v.get('res') or {}).get('path') or '') in vals:
                        n[key] = as_pat(vals[S.norm_path(v['res']['path'])])
                        continue
                    fix(v)
                elif isinstance(v, list):
                    for i, x in enumerate(v):
                        if isinstance(x, dict):
                            k = x.get('k')
                            if k == 'Def' and 'Const' in (x.get('dk') or '') and S.norm_path(x.get('resolved') or x.get('path') or '') in vals:
                                rep = copy.deepcopy(vals[S.norm_path(x.get('resolved') or x.get('path'))])
                                rep['sp'] = x.get('sp', rep.get('sp'))
                                if x.get('ty'):
                                    rep['ty'] = x['ty']
                                v[i] = rep
                                continue
                            if k == 'PPath' and 'Const' in ((x.get('res') or {}).get('dk') or '') and S.norm_path((x.get('res') or {}).get('path') or '') in vals:
                                v[i] = as_pat(vals[S.norm_path(x['res']['path'])])
                                continue
                            fix(x)
                        elif isinstance(x, list):
                            fix(x)
        elif isinstance(n, list):
            for i, x in enumerate(n):
                if isinstance(x, dict):
                    k = x.get('k')
                    if k == 'Def' and 'Const' in (x.get('dk') or '') and S.norm_path(x.get('resolved') or x.get('path') or '') in vals:
                        rep = copy.deepcopy(vals[S.norm_path(x.get('resolved') or x.get('path'))])
                        rep['sp'] = x.get('sp', rep.get('sp'))
                        n[i] = rep
                        continue
                    if k == 'PPath' and 'Const' in ((x.get('res') or {}).get('dk') or '') and S.norm_path((x.get('res') or {}).get('path') or '') in vals:
                        n[i] = as_pat(vals[S.norm_path(x['res']['path'])])
                        continue
                fix(x)
    for fn in facts['fns']:
        if 'hir' in fn:
            fix(fn)
    meta['new_consts'] = sorted(vals)
    return meta['new_consts']


def apply_param_orders(facts):
    """A non-public function of the oracle vocabulary whose parameters were only reordered (same names, another order) is
    read in the order the tables know: its parameter list and the argument list of every call are permuted back.
    Done once per fact set, in place."""
    meta = facts.setdefault('meta', {})
    if meta.get('param_orders') is not None:
        return meta['param_orders']
    meta['param_orders'] = {}
    try:
        with open(os.path.join(VERIF, 'spec', 'vocabulary_sigs.json')) as fh:
            sigs = json.load(fh)
    except (IOError, ValueError):
        return {}
    perms = {}
    for fn in facts['fns']:
        k = S.norm_path(fn['path'])
        want = (sigs.get(k) or {}).get('params')
        if not want or None in want or H.is_public(fn) or fn.get('impl_trait') or 'hir' not in fn:
            continue
        have = [(q.get('name') if q.get('k') == 'Bind' else None) for q in fn.get('params', [])]
        if None in have or have == want or sorted(have) != sorted(want) or len(set(have)) != len(have):
            continue
        if 'self' in have and have[0] != 'self':
            continue
        perm = [have.index(nm) for nm in want]   # position in the current list of the parameter the tables expect at each place
        perms[k] = perm
        fn['params'] = [fn['params'][i] for i in perm]
        if fn.get('inputs') and len(fn['inputs']) == len(perm):
            fn['inputs'] = [fn['inputs'][i] for i in perm]
    if not perms:
        return {}

    def fix(n):
        if isinstance(n, dict):
            k = n.get('k')
            if (k == 'Call' and isinstance(n.get('f'), dict) and 'args' in n) or (k == 'MethodCall' and 'recv' in n and 'args' in n):
                cp = S.norm_path(H.callee_path(n) or '')
                perm = perms.get(cp)
                if perm is not None:
                    args = H.call_args(n)
                    if len(args) == len(perm):
                        new = [args[i] for i in perm]
                        if k == 'MethodCall':
                            n['recv'], n['args'] = new[0], new[1:]
                        else:
                            n['args'] = new
            for v in list(n.values()):
                fix(v)
        elif isinstance(n, list):
            for v in n:
                fix(v)
    fix(facts['fns'])
    meta['param_orders'] = perms
    return perms


def apply_variant_shapes(facts):
    """An enum variant of the oracle vocabulary that had positional fields and now has named fields of the same types in
    the same order (or the reverse) only had its fields labelled: read its patterns, literals and field accesses positionally,
    as the tables do. Done once per fact set, in place."""
    meta = facts.setdefault('meta', {})
    if meta.get('variant_shapes') is not None:
        return meta['variant_shapes']
    meta['variant_shapes'] = {}
    try:
        with open(os.path.join(VERIF, 'spec', 'vocabulary_adts.json')) as fh:
            vocab = json.load(fh)
    except (IOError, ValueError):
        return {}
    relabel = {}   # variant path -> [field names in declared order]
    flatten = set()  # variants whose named fields stand for the components of one tuple payload
    for a in facts['adts']:
        ap = S.norm_path(a['path'])
        if a.get('cfg_test') or ap not in vocab or not a.get('is_enum'):
            continue
        old = {v[0]: v[1] for v in vocab[ap][1]}
        for v in adt_shape(a)[1]:
            name, flds = v
            was = old.get(name)
            if was is None or len(was) != len(flds) or not flds:
                continue
            positional_before = all(f[0] == str(i) for i, f in enumerate(was))
            named_now = all(not f[0].isdigit() for f in flds)
            if positional_before and named_now and [f[1] for f in was] == [f[1] for f in flds]:
                relabel['%s::%s' % (ap, name)] = [f[0] for f in flds]
        for v in adt_shape(a)[1]:
            # `V((A, B))` -> `V { a: A, b: B }`: the one tuple payload spread over named fields
            name, flds = v
            was = old.get(name)
            if was is not None and len(was) == 1 and was[0][0] == '0' and was[0][1].startswith('(') and flds and all(not f[0].isdigit() for f in flds):
                parts = H._generic_args('T<' + was[0][1][1:-1] + '>')
                if parts == [f[1] for f in flds] and len(parts) >= 2:
                    relabel['%s::%s' % (ap, name)] = [f[0] for f in flds]
                    flatten.add('%s::%s' % (ap, name))
    if not relabel:
        return {}
    for a in facts['adts']:
        ap = S.norm_path(a['path'])
        for v in a.get('variants') or []:
            order = relabel.get('%s::%s' % (ap, v['name']))
            if order and '%s::%s' % (ap, v['name']) in flatten:
                v['fields'] = [{'name': '0', 'ty': '(%s)' % ', '.join(f['ty'] for f in v['fields']), 'vis': v['fields'][0].get('vis')}]
            elif order:
                for i, f in enumerate(v['fields']):
                    f['name'] = str(i)

    def fix(n):
        if isinstance(n, dict):
            k = n.get('k')
            vp = S.norm_path((n.get('res') or {}).get('path') or '') if isinstance(n.get('res'), dict) else None
            order = relabel.get(vp) if vp else None
            if order and k == 'PStruct':
                given = {nm: pt for nm, pt in n.get('fields', [])}
                n['k'] = 'PTupleStruct'
                n['res'] = dict(n['res'], dk='Ctor(Variant,Fn)')
                n['pats'] = [given.get(nm, {'k': 'Wild'}) for nm in order]
                if vp in flatten:
                    n['pats'] = [{'k': 'PTuple', 'pats': n['pats'], 'dd': None}]
                n['dd'] = None
                n.pop('fields', None)
                n.pop('rest', None)
            elif order and k == 'Struct' and n.get('base') is None and set(nm for nm, _ in n.get('fields', [])) == set(order):
                given = {nm: e for nm, e in n['fields']}
                n['k'] = 'Call'
                n['f'] = {'k': 'Def', 'dk': 'Ctor(Variant,Fn)', 'path': n['res']['path'], 'ty': ''}
                n['args'] = [given[nm] for nm in order]
                if vp in flatten:
                    n['args'] = [{'k': 'Tup', 'es': n['args'], 'ty': '(%s)' % ', '.join((e.get('ty') or '_') for e in n['args']), 'sp': n.get('sp')}]
                n.pop('fields', None)
                n.pop('res', None)
            for v in list(n.values()):
                fix(v)
        elif isinstance(n, list):
            for v in n:
                fix(v)
    fix(facts['fns'])
    meta['variant_shapes'] = relabel
    return relabel


def apply_field_aliases(facts):
    """A private struct field of the oracle vocabulary that is gone while exactly one unknown field of the same
    type appeared in that struct was renamed: read it under its old name. Done once per fact set, in place."""
    meta = facts.setdefault('meta', {})
    if meta.get('field_aliases') is not None:
        return meta['field_aliases']
    meta['field_aliases'] = {}
    try:
        with open(os.path.join(VERIF, 'spec', 'vocabulary_fields.json')) as fh:
            vocab = json.load(fh)
    except (IOError, ValueError):
        return {}
    ren = {}
    for a in facts['adts']:
        ap = S.norm_path(a['path'])
        if a.get('is_enum') or ap not in vocab or len(a.get('variants') or []) != 1:
            continue
        have = {f['name']: f for f in a['variants'][0]['fields']}
        known = {n: (ty, vis) for n, ty, vis in vocab[ap]}
        missing = [n for n in known if n not in have]
        new = [n for n in have if n not in known]
        for m in missing:
            cs = [n for n in new if have[n]['ty'] == known[m][0] and not H.is_public(have[n]) and known[m][1] != 'pub']
            if len(cs) == 1 and len([m2 for m2 in missing if known[m2][0] == known[m][0]]) == 1:
                ren[(ap, cs[0])] = m
    if not ren:
        return {}
    for a in facts['adts']:
        ap = S.norm_path(a['path'])
        for v in a.get('variants') or []:
            for f in v['fields']:
                if (ap, f['name']) in ren:
                    f['name'] = ren[(ap, f['name'])]

    def walk(o):
        if isinstance(o, dict):
            k = o.get('k')
            if k == 'Field' and isinstance(o.get('e'), dict):
                key = (S.norm_path(canon.strip_ty(o['e'].get('ty') or '')), o.get('name'))
                if key in ren:
                    o['name'] = ren[key]
            if k in ('Struct', 'PStruct') and isinstance(o.get('res'), dict):
                ap = S.norm_path(H.res_path(o['res']))
                fl = o.get('fields')
                if isinstance(fl, list):
                    for pair in fl:
                        if isinstance(pair, list) and len(pair) == 2 and isinstance(pair[0], str) and (ap, pair[0]) in ren:
                            pair[0] = ren[(ap, pair[0])]
            for v in o.values():
                if isinstance(v, (dict, list)):
                    walk(v)
        elif isinstance(o, list):
            for v in o:
                if isinstance(v, (dict, list)):
                    walk(v)
    walk(facts['fns'])
    walk(facts.get('consts', []))
    meta['field_aliases'] = {'%s.%s' % k: v for k, v in ren.items()}
    return meta['field_aliases']


def run_rules(mod, ctx):
    """Run a property's rule module; whatever escapes a rule (an anchor that is gone, a reader that gives up) becomes a
    fail-closed instance of the property instead of a crash of the check."""
    try:
        mod.run(ctx)
    except Exception as e:  # noqa: BLE001
        rid = 'R%s.0' % ctx.prop[1:]
        rr = RuleRun(ctx, rid, 'the rule module ran to completion', 0)
        why = '%s: %s' % (type(e).__name__, e)
        if not isinstance(e, (MissingAnchor, Unrecognised)):
            why += ' | ' + ''.join(traceback.format_tb(e.__traceback__)[-2:]).replace('\n', ' ')
        rr.insts.append(Inst(rid, rr._key('fail-closed'), False, None, why=why, kind='fail-closed'))
        ctx.rules.append(rr)


def load_known():
    known = {}
    fixed = []
    if os.path.exists(KNOWN):
        for line in open(KNOWN):
            line = line.strip()
            if line.startswith('known:'):
                parts = line[len('known:'):].strip().split(None, 2)
                d = dict(p.split('=', 1) for p in parts[:2])
                known[(d['property'], d['key'])] = parts[2] if len(parts) > 2 else ''
            elif line.startswith('fixed:'):
                fixed.append(line)
    return known, fixed


def finish(prop, tier, ctxs, t0, explanation, assumptions, rule_text, extra=None, seed=0):
    """Write reports + evidence, print VIOLATION / KNOWN-FINDING lines, return exit code."""
    os.makedirs(REPORTS, exist_ok=True)
    known, _fixed = load_known()
    # clear stale reports of this property
    for f in os.listdir(REPORTS):
        if f.startswith(prop + '-'):
            os.remove(os.path.join(REPORTS, f))
    all_insts = []
    per_cfg = {}
    for ctx in ctxs:
        n = 0
        for r in ctx.rules:
            for i in r.insts:
                all_insts.append((ctx.config, r, i))
                n += 1
        per_cfg[ctx.config] = n
    violations = []
    known_hits = []
    seen_keys = set()
    for cfg, r, i in all_insts:
        if i.ok:
            continue
        if (prop, i.key) in known:
            if (i.key) not in seen_keys:
                known_hits.append((i, known[(prop, i.key)]))
                seen_keys.add(i.key)
            continue
        if ('V', i.key) in seen_keys:
            continue
        seen_keys.add(('V', i.key))
        violations.append((cfg, r, i))
    for i, text in known_hits:
        print('KNOWN-FINDING: property=%s %s [%s]' % (prop, text, i.key))
    for cfg, r, i in violations:
        h = hashlib.sha256(i.key.encode()).hexdigest()[:12]
        path = os.path.join(REPORTS, '%s-%s.json' % (prop, h))
        rep = i.as_dict()
        rep.update({'property': prop, 'rule_description': r.desc, 'config': cfg, 'tier': tier})
        with open(path, 'w') as fh:
            json.dump(rep, fh, indent=1, sort_keys=True)
        print('VIOLATION property=%s replay=%s' % (prop, path))
        print('  rule %s key=%s' % (r.rid, i.key))
        print('  at %s' % (i.site,))
        if i.built is not None or i.expected is not None:
            print('  as-built: %s' % (json.dumps(i.built, default=str)[:600],))
            print('  expected: %s' % (json.dumps(i.expected, default=str)[:600],))
        if i.why:
            print('  why: %s' % i.why[:800])
    checked = [(c, r, i) for c, r, i in all_insts if not i.info]
    distinct = len(set(i.key for c, r, i in checked if i.kind == 'rule'))
    samples = []
    seen_rules = set()
    for c, r, i in checked:
        if r.rid in seen_rules and len(samples) >= 12:
            continue
        if r.rid in seen_rules and sum(1 for s in samples if s['rule'] == r.rid) >= 2:
            continue
        seen_rules.add(r.rid)
        d = i.as_dict()
        if 'as_built' in d:
            d['as_built'] = json.loads(json.dumps(d['as_built'], default=str))
            if isinstance(d['as_built'], str) and len(d['as_built']) > 300:
                d['as_built'] = d['as_built'][:300] + '...'
        samples.append(d)
        if len(samples) >= 40:
            break
    ctx0 = ctxs[0]
    cov = {
        'explanation': explanation,
        'rule': rule_text,
        'obligations': len(checked),
        'discharged': len([1 for c, r, i in checked if i.ok]) + len([1 for c, r, i in checked if (not i.ok) and (prop, i.key) in known]),
        'evaluations': len(checked),
        'distinct_nontrivial': distinct,
        'samples': samples,
        'rules': sorted(set('%s: %s' % (r.rid, r.desc) for c, r, i in all_insts)),
        'functions_analysed': len(set().union(*[c.counts['functions_analysed'] for c in ctxs])),
        'call_sites_read': sum(c.counts['call_sites'] for c in ctxs),
        'facts': {c.config: {'tree_hash': c.info['tree_hash'], 'extracted_in_this_run': c.info.get('extracted_now', False),
                             'features': c.facts['meta']['features'], 'fns_in_facts': len(c.facts['fns'])} for c in ctxs},
        'instances_per_config': per_cfg,
        'known_findings_matched': [i.key for i, _ in known_hits],
        'informational': [i.as_dict() for c, r, i in all_insts if i.info][:30],
        'exhaustive': False,
    }
    if extra:
        cov.update(extra)
    ev = {
        'property_id': prop,
        'tier': tier,
        'seed': seed,
        'level': 'other',
        'coverage': cov,
        'assumptions': assumptions,
        'wall_s': round(time.time() - t0, 2),
        'violations': len(violations),
    }
    os.makedirs(EVID, exist_ok=True)
    tmp = os.path.join(EVID, prop + '.json.tmp')
    with open(tmp, 'w') as fh:
        json.dump(ev, fh, indent=1, sort_keys=True, default=str)
    os.replace(tmp, os.path.join(EVID, prop + '.json'))
    print('%s: %d rule instances over %d config(s); %d holding, %d known finding(s), %d violation(s); %.1fs'
          % (prop, len(checked), len(ctxs), len([1 for c, r, i in checked if i.ok]), len(known_hits), len(violations), time.time() - t0))
    return 1 if violations else 0

import dispatch  # noqa: E402,F401  (the engine's module of that name must be the one in sys.modules before spec/ is put on the path)
