"""Symbolic reader of resolved HIR: structured terms, evaluation-ordered event lists with
structural path conditions (guards), and bounded inlining of crate-local callees.

Terms are nested tuples; `show` renders them canonically. Events are what rules match on.
"""
import re

import hir as H

ERASE = tuple(H.strip_generics(e) for e in H.ERASE_METHODS)


norm_path = H.norm_path


def is_erased_call(path):
    return any(path == e or path.startswith(e) for e in ERASE)


# arithmetic helpers without effects (a counter update is made of these)
PURE_NUM = {'saturating_add', 'saturating_sub', 'wrapping_add', 'wrapping_sub', 'checked_add', 'min', 'max', 'unwrap_or', 'saturating_mul', 'from', 'into', 'try_from'}

# generic callees whose type arguments carry meaning (shown in terms)
SHOW_GARGS = {'std::str::parse'}


def show(t):
    if t is None:
        return '_'
    k = t[0]
    if k == 'var':
        return t[1]
    if k == 'lit':
        return t[1]
    if k == 'path':
        return t[1]
    if k == 'field':
        return show(t[1]) + '.' + t[2]
    if k == 'struct':
        fs = ', '.join('%s: %s' % (n, show(v)) for n, v in t[2])
        if t[3] is not None:
            fs += (', ' if fs else '') + '..' + show(t[3])
        return '%s{%s}' % (t[1], fs)
    if k == 'call':
        if t[1] in SHOW_GARGS and len(t) > 3 and t[3]:
            return '%s::<%s>(%s)' % (t[1], ', '.join(t[3]), ', '.join(show(a) for a in t[2]))
        return '%s(%s)' % (t[1], ', '.join(show(a) for a in t[2]))
    if k == 'tup':
        return '(%s)' % ', '.join(show(a) for a in t[1])
    if k == 'bin':
        return '(%s %s %s)' % (show(t[2]), t[1], show(t[3]))
    if k == 'un':
        return '%s%s' % (t[1], show(t[2]))
    if k == 'cast':
        return '(%s as %s)' % (show(t[1]), t[2])
    if k == 'try':
        return show(t[1]) + '?'
    if k == 'macro':
        if t[1] in ('assert', 'debug_assert') and t[2]:
            import canon  # the asserted condition in its canonical spelling
            return '%s!(%s)' % (t[1], ', '.join([canon.bstr(t[2][0])] + [show(a) for a in t[2][1:]]))
        return '%s!(%s)' % (t[1], ', '.join(show(a) for a in t[2]))
    if k == 'closure':
        return '|%s| %s' % (', '.join(n for n, _ in t[2]), show(t[3]))
    if k == 'index':
        return '%s[%s]' % (show(t[1]), show(t[2]))
    if k == 'ctl':
        return t[1]
    if k == 'unit':
        return '()'
    if k == 'matches':
        return '(%s ~ %s)' % (show(t[1]), t[2])
    return '<%s>' % (k,)


def subterms(t):
    yield t
    if not isinstance(t, tuple):
        return
    for x in t[1:]:
        if isinstance(x, tuple):
            if x and isinstance(x[0], str) and x[0] in ('var', 'lit', 'path', 'field', 'struct', 'call', 'tup', 'bin', 'un', 'cast', 'try', 'macro', 'closure', 'index', 'ctl', 'unit', 'matches'):
                yield from subterms(x)
            else:
                for y in x:
                    if isinstance(y, tuple):
                        if y and isinstance(y[0], str) and y[0] in ('var', 'lit', 'path', 'field', 'struct', 'call', 'tup', 'bin', 'un', 'cast', 'try', 'macro', 'closure', 'index', 'ctl', 'unit', 'matches'):
                            yield from subterms(y)
                        else:
                            # (name, term) pairs of struct fields
                            for z in y:
                                if isinstance(z, tuple):
                                    yield from subterms(z)


def reads_place(t, place):
    """`place` occurs in t outside the arguments of any call (i.e. as a not-yet-evaluated read)."""
    if t == place:
        return True
    if not isinstance(t, tuple) or not t:
        return False
    k = t[0]
    if k in ('call', 'closure', 'macro', 'lit', 'path', 'ctl', 'var'):
        return False
    if k == 'field':
        return reads_place(t[1], place)
    if k == 'struct':
        return any(reads_place(v, place) for n, v in t[2]) or (t[3] is not None and reads_place(t[3], place))
    if k == 'tup':
        return any(reads_place(v, place) for v in t[1])
    if k == 'bin':
        return reads_place(t[2], place) or reads_place(t[3], place)
    if k in ('un',):
        return reads_place(t[2], place)
    if k in ('cast', 'try'):
        return reads_place(t[1], place)
    if k == 'index':
        return reads_place(t[1], place) or reads_place(t[2], place)
    return False


def struct_fields(t):
    assert t[0] == 'struct'
    return dict(t[2])


class Event(object):
    __slots__ = ('idx', 'kind', 'term', 'node', 'guards', 'fn', 'chain', 'callee', 'args', 'lhs', 'sp', 'extra')

    def __init__(self, **kw):
        for s in self.__slots__:
            setattr(self, s, kw.get(s))

    def __repr__(self):
        return 'Event(%s %s @%s)' % (self.kind, show(self.term) if self.term else '', self.sp)


class Guard(tuple):
    """(id, label, kind, cond_string, cond_term)"""
    pass


def disjuncts(t):
    if t is not None and t[0] == 'bin' and t[1] == '||':
        return disjuncts(t[2]) + disjuncts(t[3])
    return [t]


def conjuncts(t):
    if t is not None and t[0] == 'bin' and t[1] == '&&':
        return conjuncts(t[2]) + conjuncts(t[3])
    return [t]


def is_prefix(a, b):
    return len(a) <= len(b) and tuple(b[:len(a)]) == tuple(a)


class Evaluator(object):
    def __init__(self, fns, inline_depth=4, inline_filter=None):
        self.fns = fns  # normalised path -> fn facts
        self.depth_limit = inline_depth
        self.inline_filter = inline_filter
        self.events = []
        self.tyenv = {}
        self.try_ifs = set()
        self.last_let_subject = None
        self.names = {}
        self.mutated = {}
        self._mut_cache = {}
        self._frozen = 0

    # ------------------------------------------------------------------ events
    def _obs_place(self, l):
        """the assigned place goes through a field that only observes the run (see Ctx.obs_fields)"""
        obs = getattr(self, 'obs', None)
        if not obs or not isinstance(l, dict):
            return False
        import canon
        x = H.peel(l)
        while isinstance(x, dict) and x.get('k') == 'Field':
            if (norm_path(canon.strip_ty(x['e'].get('ty') or '')), x['name']) in obs:
                return True
            x = H.peel(x['e'])
        return False

    def _reads_obs(self, node):
        obs = getattr(self, 'obs', None)
        if not obs:
            return False
        import canon
        return any(n.get('k') == 'Field' and (norm_path(canon.strip_ty(n['e'].get('ty') or '')), n['name']) in obs for n in H.walk(node))

    def _obs_term(self, t):
        names = getattr(self, 'obs_names', None)
        while names and t is not None and t[0] == 'field':
            if any(seg in names for seg in t[2].split('.')):
                return True
            t = t[1]
        return False

    def emit(self, kind, term, node, guards, fn, chain, **kw):
        if kind in ('assign', 'assignop') and isinstance(node, dict) and (self._obs_place(node.get('l')) or self._obs_term(kw.get('lhs'))):
            return Event(idx=-1, kind='obs', term=term, node=node, guards=tuple(guards), fn=fn, chain=tuple(chain), sp=(node or {}).get('sp'), **kw)
        if kind == 'call' and isinstance(node, dict) and kw.get('callee', '').split('::')[-1] in PURE_NUM and \
                (self._reads_obs(node) or any(self._obs_term(a) for a in (kw.get('args') or ()))):
            return Event(idx=-1, kind='obs', term=term, node=node, guards=tuple(guards), fn=fn, chain=tuple(chain), sp=(node or {}).get('sp'), **kw)
        ev = Event(idx=len(self.events), kind=kind, term=term, node=node, guards=tuple(guards), fn=fn,
                   chain=tuple(chain), sp=(node or {}).get('sp'), **kw)
        self.events.append(ev)
        return ev

    def moved_alias(self, fnpath, let_stmt):
        """`let mut x = y;` where y (a plain local or parameter) is mentioned nowhere else: x is the same object under a new
        name, so it keeps y's term instead of becoming an opaque mutable local."""
        init = let_stmt.get('init')
        pat = let_stmt.get('pat', {})
        if pat.get('k') != 'Bind' or pat.get('sub') or init is None or let_stmt.get('els') is not None:
            return None
        y = H.peel(init)
        if y.get('k') != 'Local':
            return None
        cache = self.__dict__.setdefault('_local_refs', {})
        if fnpath not in cache:
            f = self.fns.get(fnpath) if isinstance(fnpath, str) else None
            cnt = {}
            if f is not None and 'hir' in f:
                for n in H.walk(f['hir']):
                    if n.get('k') == 'Local':
                        cnt[n['id']] = cnt.get(n['id'], 0) + 1
            cache[fnpath] = cnt
        return y['id'] if cache[fnpath].get(y['id'], 0) == 1 else None

    def log_only(self, fnpath):
        cache = self.__dict__.setdefault('_log_only', {})
        if fnpath not in cache:
            f = self.fns.get(fnpath) if isinstance(fnpath, str) else None
            cache[fnpath] = H.log_only_locals(f['hir'], self.fns, getattr(self, 'new_helper', None) or self.inline_filter) if f is not None and 'hir' in f else set()
        return cache[fnpath]

    def child(self):
        """A side-effect-free reader for conditions and subjects (same constants policy, no inlining)."""
        c = Evaluator(self.fns, inline_depth=0)
        c.consts = getattr(self, 'consts', {})
        c.new_const = getattr(self, 'new_const', None)
        c.error_has_source = getattr(self, 'error_has_source', lambda v: False)
        c.records = getattr(self, 'records', None)
        c.obs = getattr(self, 'obs', None)
        c.obs_names = getattr(self, 'obs_names', None)
        c.tyenv = dict(self.tyenv)
        return c

    # ------------------------------------------------------------------ eval
    def run_fn(self, path, arg_terms=None, guards=(), chain=()):
        """Evaluate function `path` with parameters bound to arg_terms (or to vars named after
        the parameters). Returns the term of the value it returns (tail expression)."""
        fn = self.fns[path]
        env = {}
        params = fn.get('params', [])
        saved_mut = self.mutated
        self.mutated = dict(self.mutated_locals(path, fn))
        saved_tr = getattr(self, 'tracked', set())
        if not getattr(self, 'tracked_by_caller', False):
            self.tracked = set(saved_tr) | self.trackable_locals(fn, False)
        for lid in self.tracked:
            self.mutated.pop(lid, None)
        for i, prm in enumerate(params):
            # a parameter the caller names keeps that name (it is an opaque variable anyway)
            if prm.get('k') == 'Bind' and (arg_terms is None or (i < len(arg_terms) and arg_terms[i] is not None and arg_terms[i][0] == 'var')):
                self.mutated.pop(prm['id'], None)
        try:
            return self._run_fn(fn, path, params, env, arg_terms, guards, chain)
        finally:
            self.mutated = saved_mut
            self.tracked = saved_tr

    def trackable_locals(self, fn, pathwise):
        """Locals that are re-assigned but can be followed exactly: never handed out as `&mut`, never assigned inside a
        loop or closure, and -- unless the caller walks paths one by one -- never assigned under a branch."""
        assigned, bad = set(), set()

        def rec(n, in_loop, in_branch):
            if not isinstance(n, dict):
                return
            k = n.get('k')
            if k in ('Assign', 'AssignOp') and n['l'].get('k') == 'Local':
                lid = n['l']['id']
                assigned.add(lid)
                if in_loop or (in_branch and not pathwise):
                    bad.add(lid)
            if k == 'AddrOf' and n.get('mut') and n['e'].get('k') == 'Local' and not n['e'].get('ty', '').startswith('&'):
                bad.add(n['e']['id'])
            if k == 'MethodCall' and n.get('recv', {}).get('k') == 'Local' and 'mut' in str(n.get('adj', '')).lower():
                bad.add(n['recv']['id'])
            loop = in_loop or k in ('Loop', 'Closure') or (k == 'Match' and n.get('src') == 'ForLoop')
            branch = in_branch or k in ('If', 'Match')
            for _, c in H.children(n):
                rec(c, loop, branch)
        rec(fn.get('hir', {}), False, False)
        return assigned - bad

    def mutated_locals(self, path, fn):
        """Locals that are re-assigned, or handed out as `&mut local`, somewhere in the body
        (loop-carried / mutable state): their initialiser must not be substituted for later reads.
        Returns {local id: positional name} -- names are positional so that renaming a local
        does not change any term."""
        if path in self._mut_cache:
            return self._mut_cache[path]
        ids = set()
        lent = set()   # `&mut local` arguments of helpers that are read through and do not assign through them: the local keeps its term
        nh = getattr(self, 'new_helper', None)
        if nh is not None:
            for n in H.walk(fn.get('hir', {})):
                if n.get('k') in ('Call', 'MethodCall'):
                    cp = norm_path(H.callee_path(n) or '')
                    tgt = self.fns.get(cp)
                    if tgt is None or 'hir' not in tgt or not nh(cp) or (self.inline_filter is not None and not self.inline_filter(cp)):
                        continue
                    for i_, a in enumerate(H.call_args(n)):
                        if a.get('k') == 'AddrOf' and a.get('mut') and a['e'].get('k') == 'Local' and not assigns_through_param(tgt, i_):
                            lent.add(id(a))
        for n in H.walk(fn.get('hir', {})):
            k = n.get('k')
            if k in ('Assign', 'AssignOp') and n['l'].get('k') == 'Local':
                ids.add(n['l']['id'])
            if k == 'AddrOf' and n.get('mut') and n['e'].get('k') == 'Local' and not n['e'].get('ty', '').startswith('&') and id(n) not in lent:
                ids.add(n['e']['id'])
        out = {lid: '$m%d' % i for i, lid in enumerate(sorted(ids))}
        self._mut_cache[path] = out
        return out

    def tail_positions(self, body):
        out = set()
        n = body
        while n is not None:
            out.add(n.get('sp'))
            if n.get('k') == 'Block':
                n = n.get('expr')
            elif n.get('k') in ('AddrOf', 'DropTemps', 'Unary', 'Cast'):
                n = n.get('e')
            else:
                break
        for x in H.walk(body):
            if x.get('k') == 'Ret' and x.get('e') is not None:
                out.add(x['e'].get('sp'))
        return out

    def _run_fn(self, fn, path, params, env, arg_terms, guards, chain):
        self.tail_sps = set(getattr(self, 'tail_sps', set())) | self.tail_positions(fn.get('hir', {}))
        for i, p in enumerate(params):
            val = None
            if arg_terms is not None and i < len(arg_terms):
                val = arg_terms[i]
            self.bind_pat(p, val, env)
        return self.eval(fn['hir'], env, list(guards), path, list(chain))

    def bind_pat(self, pat, val, env):
        k = pat.get('k')
        if k == 'Bind':
            self.names[pat['id']] = pat['name']
            if pat['id'] in self.mutated:
                nm = self.mutated[pat['id']]
                self.names[pat['id']] = nm
                if val is not None and not (val[0] == 'var' and val[2] == pat['id']):
                    self.emit('snapshot', val, None, (), None, (), lhs=('var', nm, pat['id']))
                env[pat['id']] = ('var', nm, pat['id'])
                if pat.get('sub'):
                    self.bind_pat(pat['sub'], val, env)
                return
            env[pat['id']] = val if val is not None else ('var', pat['name'], pat['id'])
            if pat.get('sub'):
                self.bind_pat(pat['sub'], val, env)
        elif k == 'PTuple':
            if val is not None and val[0] != 'tup' and pat.get('dd') is None:
                self.__dict__.setdefault('tuple_arity', {})[val] = len(pat['pats'])
            for i, sp in enumerate(pat['pats']):
                sub = None
                if val is not None and val[0] == 'tup' and pat.get('dd') is None and i < len(val[1]):
                    sub = val[1][i]
                elif val is not None and val[0] == 'call' and val[1] in ('std::slice::split_at', 'core::slice::split_at', 'std::slice::split_at_mut') and len(val[2]) == 2 and i < 2:
                    sub = ('index', val[2][0], ('struct', 'std::ops::RangeTo', (('end', val[2][1]),), None) if i == 0 else ('struct', 'std::ops::RangeFrom', (('start', val[2][1]),), None))
                elif val is not None:
                    sub = ('field', val, str(i))
                self.bind_pat(sp, sub, env)
        elif k in ('PRef', 'PBox', 'PDeref'):
            self.bind_pat(pat['p'], val, env)
        elif k == 'PTupleStruct':
            ctor = norm_path(H.res_path(pat['res']))
            for i, sp in enumerate(pat['pats']):
                sub = None
                if val is not None:
                    if val[0] == 'call' and val[1] == ctor and i < len(val[2]):
                        sub = val[2][i]
                    elif val[0] == 'call' and val[1].startswith('narrow::') and ctor == 'Ok' and i == 0:
                        sub = ('cast', val[2][0], val[1][len('narrow::'):])
                    elif val[0] == 'call' and val[1] in ('std::slice::get', 'core::slice::get') and len(val[2]) == 2 and ctor == 'Some' and i == 0:
                        sub = ('index', val[2][0], val[2][1])  # what `s.get(range)` hands out is `s[range]`
                    else:
                        sub = ('field', val, '%s.%d' % (ctor.split('::')[-1], i))
                self.bind_pat(sp, sub, env)
        elif k == 'PStruct':
            ctor = norm_path(H.res_path(pat['res']))
            rec = getattr(self, 'records', None)
            for name, sp in pat['fields']:
                sub = None
                if val is not None and rec and ctor in rec and name in rec[ctor]:
                    i_ = rec[ctor].index(name)
                    sub = val[1][i_] if (val[0] == 'tup' and i_ < len(val[1])) else ('field', val, str(i_))
                elif val is not None:
                    if val[0] == 'struct' and val[1] == ctor and name in dict(val[2]):
                        sub = dict(val[2])[name]
                    else:
                        sub = ('field', val, name)
                self.bind_pat(sp, sub, env)
        elif k == 'POr':
            for sp in pat['pats']:
                self.bind_pat(sp, val, env)

    def freeze_readers(self, env, place, node=None, guards=(), fn=None, chain=()):
        """A place was overwritten: locals bound to a term that still *reads* it (outside any call
        result) denote the old value; make them opaque so the new value is not substituted."""
        if place is None or place[0] not in ('field', 'var') or self._obs_term(place):
            return
        for lid, t in list(env.items()):
            if t is not None and reads_place(t, place):
                if t[0] == 'var':
                    continue
                nm = '$s%d' % self._frozen
                self._frozen += 1
                self.names[lid] = nm
                self.emit('snapshot', t, node, guards, fn, chain, lhs=('var', nm, lid))
                env[lid] = ('var', nm, lid)

    def eval_block(self, node, env, guards, fn, chain):
        guards = list(guards)
        last = ('unit',)
        for s in node['stmts']:
            sk = s['k']
            if sk == 'Let' and s.get('pat', {}).get('k') == 'Bind' and s['pat']['id'] in self.log_only(fn):
                continue  # computed for a log line only
            if sk == 'Let' and self.moved_alias(fn, s) is not None:
                yid = self.moved_alias(fn, s)
                yv = env.get(yid)
                if yv is None:
                    yv = self.eval(s['init'], env, guards, fn, chain)
                self.mutated.pop(s['pat']['id'], None)
                env[s['pat']['id']] = yv
                continue
            if sk == 'Let':
                val = None
                if s.get('init') is not None:
                    val = self.eval(s['init'], env, guards, fn, chain)
                    guards = guards + self.implied_guards(s['init'], env)
                if s.get('els') is not None:
                    sv = self.child().eval(s['init'], dict(env), [], None, [])
                    extra = {'let': True, 'pat': s['pat'], 'ty': s['init'].get('ty'), 'subject': sv}
                    cs = 'let %s = %s' % (H.pat_term(s['pat'], True), show(val))
                    self.eval_block(s['els'], dict(env), guards + [Guard((s['sp'], 'else', 'if', cs, ('ctl', cs), extra))], fn, chain)
                    guards = guards + [Guard((s['sp'], 'then', 'if', cs, ('ctl', cs), extra))]
                pat = s['pat']
                if pat.get('k') == 'Bind' and pat['id'] not in self.mutated and 'Mut' in pat.get('mode', '') and val is not None and val[0] == 'call' and len(val[2]) == 0:
                    # `let mut x = T::new()`: a fresh mutable object keeps its own identity
                    self.emit('snapshot', val, s, guards, fn, chain, lhs=('var', pat['name'], pat['id']))
                    val = None
                self.bind_pat(s['pat'], val, env)
            elif sk in ('Semi', 'ExprStmt'):
                if H.is_log(s['e']) or H.log_stmt(s['e'], self.fns, getattr(self, 'new_helper', None) or self.inline_filter):
                    continue
                self.eval(s['e'], env, guards, fn, chain)
                guards = guards + self.implied_guards(s['e'], env)
        if node.get('expr') is not None:
            last = self.eval(node['expr'], env, guards, fn, chain)
        return last

    def implied_guards(self, e, env):
        """After a statement whose one branch diverges, the rest of the block runs only under
        the other branch."""
        out = []
        k = e.get('k')
        if k in ('If', 'Match') and e['sp'] in self.try_ifs:
            return out
        if k == 'If':
            ctt = self.cond_term(e['cond'], env)
            ct = show(ctt)
            extra = None
            if e['cond'].get('k') == 'LetExpr':
                sv = self.child().eval(e['cond']['init'], dict(env), [], None, [])
                extra = {'let': True, 'pat': e['cond']['pat'], 'ty': e['cond']['init'].get('ty'), 'subject': sv}
            if e['then'].get('ty') == '!' or self.block_diverges(e['then']):
                out.append(Guard((e['sp'], 'else', 'if', ct, ctt, extra)))
            elif e.get('else') is not None and (e['else'].get('ty') == '!' or self.block_diverges(e['else'])):
                out.append(Guard((e['sp'], 'then', 'if', ct, ctt, extra)))
        elif k == 'Match' and e.get('src') == 'Normal':
            live = [i for i, a in enumerate(e['arms']) if not (a['body'].get('ty') == '!' or self.block_diverges(a['body']))]
            if len(live) < len(e['arms']):
                stt = self.cond_term(e['scrut'], env)
                st = show(stt)
                pats = ' | '.join(H.pat_term(e['arms'][i]['pat'], True) for i in live)
                import canon
                mty = e['scrut'].get('ty')
                names = set()
                for i in live:
                    w = canon.whole(e['arms'][i]['pat'], mty)
                    if isinstance(w, set) and names is not None:
                        names |= w
                    else:
                        names = None
                dead = [i for i in range(len(e['arms'])) if i not in live]
                minfo = canon.variants_of(mty)
                if names is None and minfo is not None and all(isinstance(canon.whole(e['arms'][i]['pat'], mty), set) and e['arms'][i].get('guard') is None for i in dead):
                    # the live arms are what the diverging whole-variant arms leave
                    names = set(x[0] for x in minfo[1])
                    for i in dead:
                        names -= canon.whole(e['arms'][i]['pat'], mty)
                cpred = canon.render(mty, names) if (names and minfo is not None) else pats
                out.append(Guard((e['sp'], 'arms:' + ','.join(map(str, live)), 'match', st + ' ~ ' + pats, stt, {'pred': cpred, 'names': names, 'subject': stt})))
        elif k == 'Try':
            out.extend(self.success_guards(H.peel(e['e']), env))
        return out

    def success_guards(self, call, env):
        """`helper(..)?` where helper is read through: the rest of the block runs only if the helper
        returned Ok, i.e. under the negation of every guard under which it returns an error early."""
        if call.get('k') not in ('Call', 'MethodCall'):
            return []
        cp = H.callee_path(call)
        if cp is None:
            return []
        npath = norm_path(cp)
        target = self.fns.get(npath)
        if target is None or 'hir' not in target or target['hir'].get('k') != 'Block':
            return []
        if self.inline_filter is not None and not self.inline_filter(npath):
            return []
        if self.depth_limit <= 0:
            return []
        sub = self.child()
        args = [sub.eval(a, dict(env), [], None, []) for a in H.call_args(call)]
        params = target.get('params', [])
        if len(params) != len(args):
            return []
        cenv = {}
        sub.mutated = dict(sub.mutated_locals(npath, target))
        for prm, a in zip(params, args):
            if prm.get('k') == 'Bind' and a is not None and a[0] == 'var':
                sub.mutated.pop(prm['id'], None)
            sub.bind_pat(prm, a, cenv)
        out = []
        for st in target['hir']['stmts']:
            sk = st['k']
            if sk == 'Let':
                val = sub.eval(st['init'], cenv, [], None, []) if st.get('init') is not None else None
                sub.bind_pat(st['pat'], val, cenv)
                continue
            if sk not in ('Semi', 'ExprStmt'):
                continue
            x = st['e']
            if x.get('k') == 'If' and x.get('else') is None and x['cond'].get('k') != 'LetExpr' and self.returns_error(x['then'], sub, cenv):
                ctt = sub.eval(x['cond'], dict(cenv), [], None, [])
                out.append(Guard((x['sp'], 'else', 'if', show(ctt), ctt)))
            elif any(n.get('k') in ('Assign', 'AssignOp') for n in H.walk(x)):
                break  # state changes: later conditions would be read against a different state
        return out

    def returns_error(self, block, sub, env):
        """the block ends in `return <error>` (Err(..) or a snafu fail())"""
        b = block
        last = None
        if b.get('k') == 'Block':
            if b.get('expr') is not None:
                last = b['expr']
            elif b['stmts'] and b['stmts'][-1]['k'] in ('Semi', 'ExprStmt'):
                last = b['stmts'][-1]['e']
        if last is None or last.get('k') != 'Ret' or last.get('e') is None:
            return False
        if len(b['stmts']) > (0 if b.get('expr') is not None else 1):
            return False
        t = show(sub.eval(last['e'], dict(env), [], None, []))
        return t.startswith('Err(')

    def block_diverges(self, b):
        """The expression never completes normally (structurally: return / break / continue / a
        never-typed call or macro at the end of every path through it)."""
        if b is None:
            return False
        if b.get('ty') == '!':
            return True
        k = b.get('k')
        if k in ('Ret', 'Break', 'Continue'):
            return True
        if k == 'MacroCall' and b.get('name') in ('unreachable', 'panic', 'todo', 'unimplemented'):
            return True
        if k == 'Block':
            for st in b['stmts']:
                if st['k'] in ('Semi', 'ExprStmt') and self.block_diverges(st['e']):
                    return True
                if st['k'] == 'Let' and st.get('init') is not None and st['init'].get('ty') == '!':
                    return True
            return b.get('expr') is not None and self.block_diverges(b['expr'])
        if k == 'If':
            return b.get('else') is not None and self.block_diverges(b['then']) and self.block_diverges(b['else'])
        if k == 'Match' and b.get('src') == 'Normal':
            return bool(b['arms']) and all(self.block_diverges(a['body']) for a in b['arms'])
        if k in ('AddrOf', 'Unary', 'Cast', 'Try', 'DropTemps') and b.get('e') is not None:
            return self.block_diverges(b['e'])
        return False

    def cond_term(self, e, env):
        # side-effect free evaluation of a condition under env
        sub = self.child()
        return sub.eval(e, dict(env), [], None, [])

    def cond_str(self, e, env):
        return show(self.cond_term(e, env))

    def eval(self, node, env, guards, fn, chain):
        k = node.get('k')
        # transparent wrappers
        if k == 'AddrOf':
            inner = node['e']
            if node.get('mut') and inner.get('k') == 'Local' and not inner.get('ty', '').startswith('&'):
                # `&mut local` handed out: the callee may overwrite the value; later reads are opaque
                v = self.eval(inner, env, guards, fn, chain)
                if v is not None and v[0] == 'var':
                    env[inner['id']] = v  # already opaque: keeps its name (local ids repeat across functions, `names` is shared)
                else:
                    env[inner['id']] = ('var', self.mutated.get(inner['id']) or inner['name'], inner['id'])
                return v
            return self.eval(inner, env, guards, fn, chain)
        if k == 'Unary' and node.get('op') == 'Deref':
            return self.eval(node['e'], env, guards, fn, chain)
        if k == 'Block':
            return self.eval_block(node, dict(env) if False else env, guards, fn, chain)
        if k == 'Local':
            v = env.get(node['id'])
            return v if v is not None else ('var', node['name'], node['id'])
        if k in ('Def', 'Call') and H.num_limit(node):
            return ('path', H.num_limit(node))
        if k == 'Def':
            cp = norm_path(node.get('resolved') or node['path'])
            c = getattr(self, 'consts', {}).get(cp)
            if c is not None and 'hir' in c and getattr(self, 'new_const', None) and self.new_const(cp) and len(chain) < 6:
                # a constant the oracle vocabulary does not know is read through to its value
                return self.eval(c['hir'], {}, guards, fn, list(chain) + ['const:' + cp])
            return ('path', cp)
        if k == 'Lit':
            return ('lit', H.lit_str(node['v']))
        if k == 'Field':
            base = self.eval(node['e'], env, guards, fn, chain)
            if base is not None and base[0] == 'call' and base[1] in ('std::slice::split_at', 'core::slice::split_at', 'std::slice::split_at_mut') and len(base[2]) == 2 and node['name'] in ('0', '1'):
                # s.split_at(n).0 is s[..n], .1 is s[n..]
                rng = ('struct', 'std::ops::RangeTo', (('end', base[2][1]),), None) if node['name'] == '0' else ('struct', 'std::ops::RangeFrom', (('start', base[2][1]),), None)
                return ('index', base[2][0], rng)
            rec = getattr(self, 'records', None)
            if rec:
                import canon
                order = rec.get(norm_path(canon.strip_ty(node['e'].get('ty') or '')))
                if order and node['name'] in order:
                    # a private struct the oracle vocabulary does not know is a record: its fields are positions
                    i_ = order.index(node['name'])
                    if base[0] == 'tup' and i_ < len(base[1]):
                        return base[1][i_]
                    return ('field', base, str(i_))
            if base[0] == 'struct' and node['name'] in dict(base[2]):
                return dict(base[2])[node['name']]
            if base[0] == 'tup' and node['name'].isdigit() and int(node['name']) < len(base[1]):
                return base[1][int(node['name'])]
            return ('field', base, node['name'])
        if k == 'Struct':
            fs = []
            sadt = norm_path(H.res_path(node['res']))
            for n, e in node['fields']:
                v_ = self.eval(e, env, guards, fn, chain)
                if (sadt, n) in (getattr(self, 'obs', None) or ()):
                    continue  # a field that only observes the run is not part of the value
                fs.append((n, v_))
            base = None
            if 'base' in node:
                base = self.eval(node['base'], env, guards, fn, chain)
            sp_ = norm_path(H.res_path(node['res']))
            rec = getattr(self, 'records', None)
            if rec and sp_ in rec and base is None and set(n for n, _ in fs) == set(rec[sp_]):
                d_ = dict(fs)
                return ('tup', tuple(d_[n] for n in rec[sp_]))
            if sp_ == 'std::ops::Range' and base is None and dict(fs).get('start') == ('lit', '0'):
                # `0..n` and `..n` are the same range of an unsigned index
                sp_, fs = 'std::ops::RangeTo', [(n, v) for n, v in fs if n != 'start']
            t = ('struct', sp_, tuple(sorted(fs)), base)
            self.emit('struct', t, node, guards, fn, chain)
            return t
        if k in ('Call', 'MethodCall'):
            return self.eval_call(node, env, guards, fn, chain)
        if k == 'Tup':
            es = tuple(self.eval(e, env, guards, fn, chain) for e in node['es'])
            if es and all(x is not None and x[0] == 'field' and x[2] == str(i) and x[1] == es[0][1] for i, x in enumerate(es)) \
                    and self.__dict__.get('tuple_arity', {}).get(es[0][1]) == len(es):
                return es[0][1]  # a tuple taken apart by a full tuple pattern and put together again is that tuple
            return ('tup', es)
        if k == 'Array':
            return ('tup', tuple(self.eval(e, env, guards, fn, chain) for e in node['es']))
        if k == 'Binary':
            l = self.eval(node['l'], env, guards, fn, chain)
            if node['op'] in ('&&', '||'):
                g = guards + [Guard((node['sp'], 'rhs' + node['op'], 'shortcircuit', show(l), l))]
                r = self.eval(node['r'], env, g, fn, chain)
            else:
                r = self.eval(node['r'], env, guards, fn, chain)
            if node['op'] in ('+', '-', '*') and l is not None and r is not None and l[0] == 'lit' and r[0] == 'lit' and l[1].isdigit() and r[1].isdigit():
                a_, b_ = int(l[1]), int(r[1])
                v_ = a_ + b_ if node['op'] == '+' else (a_ * b_ if node['op'] == '*' else a_ - b_)
                if v_ >= 0:
                    return ('lit', str(v_))  # arithmetic on literals (named constants read through) is its value
            UNS = ('u8', 'u16', 'u32', 'u64', 'u128', 'usize')
            lt_, rt_ = (node['l'].get('ty') or '').lstrip('&'), (node['r'].get('ty') or '').lstrip('&')
            if lt_ in UNS and rt_ in UNS and l is not None and r is not None:
                # an unsigned value compared with 0 / 1 only asks whether it is 0: `x > 0`, `x >= 1`, `0 < x`, `x != 0` are one test
                zero, one = ('lit', '0'), ('lit', '1')
                op = node['op']
                nz = (op == '>' and r == zero) or (op == '<' and l == zero) or (op == '>=' and r == one) or (op == '<=' and l == one)
                z = (op == '<=' and r == zero) or (op == '>=' and l == zero) or (op == '<' and r == one) or (op == '>' and l == one)
                if nz or z:
                    x_ = l if (r in (zero, one)) else r
                    return ('bin', '!=' if nz else '==', x_, zero)
            if node['op'] in ('*', '+') and l is not None and r is not None and show(r) < show(l):
                nums = set(H._INTS) | {'std::time::Duration'}
                lt, rt = (node['l'].get('ty') or '').lstrip('&'), (node['r'].get('ty') or '').lstrip('&')
                if lt in nums and rt in nums and (lt == rt or node['op'] == '*'):
                    return ('bin', node['op'], r, l)  # a commutative product / sum of numbers: one operand order
            return ('bin', node['op'], l, r)
        if k == 'Unary':
            op = {'Not': '!', 'Neg': '-'}.get(node['op'], node['op'])
            inner = self.eval(node['e'], env, guards, fn, chain)
            if op == '!' and inner is not None and inner[0] == 'un' and inner[1] == '!' and (node.get('ty') == 'bool'):
                return inner[2]  # !!x
            return ('un', op, inner)
        if k == 'Cast':
            inner = self.eval(node['e'], env, guards, fn, chain)
            if widening(node['e'].get('ty'), node.get('to')):
                return inner  # u16 -> usize and the like keep the value (as `usize::from` does); narrowing casts stay visible
            return ('cast', inner, node['to'])
        if k == 'Try':
            inner = self.eval(node['e'], env, guards, fn, chain)
            if inner is not None and inner[0] == 'call' and inner[1] in ('Ok', 'Some') and len(inner[2]) == 1:
                return inner[2][0]  # `Ok(x)?` (the value a helper that was read through ends with) is x
            t = ('try', inner)
            self.emit('try', t, node, guards, fn, chain)
            return t
        if k == 'MacroCall':
            if node['name'] in H.LOG_MACROS:
                return ('unit',)
            leaves = tuple(self.eval(l, env, guards, fn, chain) for l in node['leaves'])
            tm = H.format_template(node)
            if tm is not None and node['name'] in ('format', 'write', 'writeln', 'panic', 'unreachable', 'assert', 'assert_eq'):
                leaves = (('lit', '"%s"' % tm.replace('\x00', '\\0')),) + leaves if node['name'] == 'format' else leaves
            t = ('macro', node['name'], leaves)
            self.emit('macro', t, node, guards, fn, chain)
            return t
        if k == 'Closure':
            cenv = dict(env)
            pnames = []
            for i, p in enumerate(node['params']):
                # alpha-normalise: closure parameters are named by position
                if p.get('k') == 'Bind':
                    nm = '$c%d' % i
                    cenv[p['id']] = ('var', nm, p['id'])
                    pnames.append((nm, p['id']))
                elif p.get('k') == 'Wild':
                    pnames.append(('$c%d' % i, -1))
                else:
                    self.bind_pat(p, ('var', '$c%d' % i, -1), cenv)
                    pnames.append(('$c%d' % i, -1))
            g = guards + [Guard((node['sp'], 'closure', 'closure', node['def'], None))]
            body = self.eval(node['body'], cenv, g, fn, chain)
            return ('closure', node['def'], tuple(pnames), body)
        if k == 'Index':
            b = self.eval(node['e'], env, guards, fn, chain)
            i = self.eval(node['i'], env, guards, fn, chain)
            t = ('index', b, i)
            self.emit('index', t, node, guards, fn, chain)
            return t
        if k in ('Assign', 'AssignOp') and node['l'].get('k') == 'Local' and node['l']['id'] in getattr(self, 'tracked', ()):
            # a local whose every update the reader follows exactly (straight-line on this path, never lent out):
            # keep its current value instead of an opaque name; the update itself is not an effect
            lid = node['l']['id']
            r = self.eval(node['r'], env, guards, fn, chain)
            if k == 'Assign':
                env[lid] = r
            else:
                old = env.get(lid)
                if old is None:
                    old = ('var', node['l'].get('name', '?'), lid)
                env[lid] = ('bin', node['op'].rstrip('='), old, r)
            return ('unit',)
        if k == 'Assign':
            r = self.eval(node['r'], env, guards, fn, chain)
            l = self.eval(node['l'], env, guards, fn, chain)
            self.freeze_readers(env, l, node, guards, fn, chain)
            self.emit('assign', r, node, guards, fn, chain, lhs=l)
            if node['l'].get('k') == 'Local':
                lid = node['l']['id']
                env[lid] = ('var', self.mutated[lid], lid) if lid in self.mutated else None  # reassigned local: not substitutable
            return ('unit',)
        if k == 'AssignOp':
            r = self.eval(node['r'], env, guards, fn, chain)
            l = self.eval(node['l'], env, guards, fn, chain)
            self.freeze_readers(env, l, node, guards, fn, chain)
            self.emit('assignop', ('bin', node['op'].rstrip('='), l, r), node, guards, fn, chain, lhs=l, extra=node['op'])
            if node['l'].get('k') == 'Local':
                lid = node['l']['id']
                env[lid] = ('var', self.mutated[lid], lid) if lid in self.mutated else None
            return ('unit',)
        if k == 'Ret':
            v = ('unit',)
            if node.get('e') is not None:
                v = self.eval(node['e'], env, guards, fn, chain)
            self.emit('ret', v, node, guards, fn, chain)
            return ('ctl', 'return ' + show(v))
        if k in ('Break', 'Continue'):
            self.emit(k.lower(), None, node, guards, fn, chain)
            return ('ctl', k.lower())
        if k == 'If':
            extra = None
            if node['cond'].get('k') == 'LetExpr':
                n0 = len(self.events)
                sv = self.child().eval(node['cond']['init'], dict(env), [], None, [])
                extra = {'let': True, 'pat': node['cond']['pat'], 'ty': node['cond']['init'].get('ty'), 'subject': sv}
            c = self.eval(node['cond'], env, guards, fn, chain)
            if extra is not None and node['cond']['init'].get('k') in ('Call', 'MethodCall', 'Try', 'Local', 'Field', 'AddrOf', 'Unary'):
                # the subject as the full evaluator sees it (inlined helpers, substituted locals)
                m = re.match(r'^let (.+?) = (.+)$', show(c))
                if m:
                    extra['subject_str'] = m.group(2)
            cs = show(c)
            gt = guards + [Guard((node['sp'], 'then', 'if', cs, c, extra))]
            # `if let` bindings
            tenv = dict(env)
            ev0 = len(self.events)
            tt = self.eval(node['then'], tenv, gt, fn, chain)
            if extra is not None and node.get('else') is None and (node['cond']['init'].get('ty') or '').lstrip('&').startswith('std::result::Result<'):
                # `if let Err(e) = r { return Err(e) }` is the explicit spelling of `r?;`
                import canon
                if canon.whole(node['cond']['pat'], node['cond']['init'].get('ty')) == {'Err'} and self.block_diverges(node['then']):
                    inner = self.events[ev0:]
                    rets = [x for x in inner if x.kind == 'ret']
                    others = [x for x in inner if x.kind not in ('ret', 'ctor', 'struct') and not (x.kind == 'call' and x.callee == 'Err')]
                    m = re.match(r'^let (.+?) = (.+)$', cs)
                    if len(rets) == 1 and not others and rets[0].term is not None and rets[0].term[0] == 'call' and rets[0].term[1] == 'Err' and m:
                        # the subject as the full evaluator saw it is not kept as a term by LetExpr: recover it from the init
                        sv = self.last_let_subject
                        payload_err = ('field', sv, 'Err.0') if sv is not None else None
                        gterm = rets[0].term[2][0]
                        if payload_err is not None and gterm == payload_err:
                            del self.events[ev0:]
                            self.emit('try', ('try', sv), node, guards, fn, chain)
                            self.try_ifs.add(node['sp'])
                            return ('unit',)
            if extra is None and node.get('else') is None and c is not None and c[0] == 'call' and c[1] == 'std::result::Result::is_err' and len(c[2]) == 1 and self.block_diverges(node['then']):
                inner = self.events[ev0:]
                rets = [x for x in inner if x.kind == 'ret']
                if len(rets) == 1 and rets[0].term is not None and rets[0].term[0] == 'call' and rets[0].term[1] == 'Err' and error_building_only(inner, rets[0].term):
                    # `if r.is_err() { return Err(e) }` is the explicit spelling of `r.map_err(|_| e)?;`
                    del self.events[ev0:]
                    # the is_err call itself is not an effect either
                    self.events[:] = [x for x in self.events if not (x.kind == 'call' and x.term == c)]
                    for i_, x in enumerate(self.events):
                        x.idx = i_
                    sub = ('call', 'std::result::Result::map_err', (c[2][0], ('closure', 'explicit', (('$c0', -1),), rets[0].term[2][0])), ())
                    self.emit('try', ('try', sub), node, guards, fn, chain)
                    self.try_ifs.add(node['sp'])
                    return ('unit',)
            s = 'if %s {%s}' % (cs, show(tt))
            if node.get('else') is not None:
                ge = guards + [Guard((node['sp'], 'else', 'if', cs, c, extra))]
                et = self.eval(node['else'], dict(env), ge, fn, chain)
                s += ' else {%s}' % show(et)
                # value of an if/else with one diverging branch is the other branch
                if self.block_diverges(node['then']) and et[0] != 'ctl':
                    return et
                if self.block_diverges(node['else']) and tt[0] != 'ctl':
                    return tt
                if extra is None and c is not None and tt[0] != 'ctl' and et[0] != 'ctl':
                    return cond_value(c, tt, et)  # a conditional *value*: one spelling whatever the source form
            return ('ctl', s)
        if k == 'LetExpr':
            v = self.eval(node['init'], env, guards, fn, chain)
            self.last_let_subject = v
            self.bind_pat(node['pat'], self.payload_of(v, node['pat']), env)
            return ('ctl', 'let %s = %s' % (H.pat_term(node['pat'], True), show(v)))
        if k == 'Match':
            fl = H.desugar_for(node)
            if fl is not None:
                pat, it, body = fl
                itt = self.eval(it, env, guards, fn, chain)
                itt, item = iter_view(itt, it)
                benv = dict(env)
                self.bind_pat(pat, item, benv)
                g = guards + [Guard((node['sp'], 'for', 'loop', show(itt), itt))]
                self.emit('for', itt, node, guards, fn, chain, extra=H.pat_term(pat, True))
                self.eval(body, benv, g, fn, chain)
                return ('ctl', 'for _ in %s' % show(itt))
            mt = self.matches_term(node, env, guards, fn, chain)
            if mt is not None:
                return mt
            if node.get('sp') in getattr(self, 'tail_sps', ()):
                lifted = lift_propagating_arm(node)
                if lifted is not node:
                    self.tail_sps = set(self.tail_sps) | {lifted['expr']['sp']}
                    return self.eval(lifted, env, guards, fn, chain)
            node = H.nest_tuple_match(H.nest_result_match(node))
            if node.get('tail_of') in getattr(self, 'tail_sps', ()):
                self.tail_sps = set(self.tail_sps) | {node.get('sp')}
            sc = self.eval(node['scrut'], env, guards, fn, chain)
            scs = show(sc)
            kv = None
            if sc is not None:
                import canon as _c
                if sc[0] == 'path' and _c.is_variant_path(sc):
                    kv = sc[1].split('::')[-1]
                elif sc[0] == 'call' and sc[1] in ('Ok', 'Err', 'Some'):
                    kv = sc[1]
                elif sc[0] == 'path' and sc[1] == 'None':
                    kv = 'None'
                elif sc[0] == 'call' and _c.is_variant_path(('path', sc[1])) and not sc[1].startswith(('std::', 'core::')):
                    kv = sc[1].split('::')[-1]
            if kv is not None and all(a.get('guard') is None for a in node['arms']):
                # the scrutinee is a known variant (a helper applied to a constant argument, read through): only the first arm that takes it runs
                mty0 = node['scrut'].get('ty')
                ws = [_c.whole(a['pat'], mty0) for a in node['arms']]
                if all(w is not None for w in ws):
                    for a, w in zip(node['arms'], ws):
                        if w == 'ALL' or kv in w:
                            aenv = dict(env)
                            self.bind_pat(a['pat'], sc, aenv)
                            return self.eval(a['body'], aenv, guards, fn, chain)
            self.emit('match', sc, node, guards, fn, chain)
            parts = []
            live_vals = []
            import canon
            mty = node['scrut'].get('ty')
            earlier = []
            earlier_preds = []
            arm_info = []
            minfo = canon.variants_of(mty)
            for i, a in enumerate(node['arms']):
                aenv = dict(env)
                self.bind_pat(a['pat'], self.payload_of(sc, a['pat']), aenv)
                pt = H.pat_term(a['pat'], True)
                cpred, cnames = canon.pattern_pred(a['pat'], mty, earlier)
                if cpred == '_' and earlier_preds:
                    cpred = 'not ' + ' | '.join(earlier_preds)
                if a.get('guard') is None:
                    w = canon.whole(a['pat'], mty)
                    if w == 'ALL':
                        earlier.append(set(x[0] for x in minfo[1]) if minfo is not None else None)
                    else:
                        earlier.append(w)
                    if cpred != '_' and not cpred.startswith('not '):
                        earlier_preds.append(cpred)
                nst = canon.nested(a['pat'])
                if nst is not None and cnames is None and cpred != '_' and not cpred.startswith('not ') and ' | ' not in cpred:
                    # `V(P)`: the variant test, then the test of its field -- as the nested match would guard it
                    en, vn, sub = nst
                    outer = canon.render(en, {vn}) if canon.variants_of(en) else '%s::%s(_)' % (en, vn)
                    fld = ('field', sc, '%s.0' % vn)
                    sen = canon.variant_of_pat(sub)
                    spred, snames = canon.pattern_pred(sub, sen[0] if sen else None, [])
                    g = guards + [Guard((node['sp'], 'arm:%d' % i, 'match', scs + ' ~ ' + pt, sc, {'pred': outer, 'names': {vn}, 'subject': sc})),
                                  Guard((node['sp'] + '#in', 'arm:%d' % i, 'match', show(fld) + ' ~ ' + spred, fld, {'pred': spred, 'names': snames, 'subject': fld}))]
                else:
                    g = guards + [Guard((node['sp'], 'arm:%d' % i, 'match', scs + ' ~ ' + pt, sc, {'pred': cpred, 'names': cnames, 'subject': sc}))]
                if a.get('guard') is not None:
                    gt = self.eval(a['guard'], aenv, g, fn, chain)
                    g = g + [Guard((a['sp'], 'guard', 'armguard', show(gt), gt))]
                ev0 = len(self.events)
                bt = self.eval(a['body'], aenv, g, fn, chain)
                parts.append('%s => %s' % (pt, show(bt)))
                arm_info.append((a, canon.whole(a['pat'], mty) if a.get('guard') is None else None, bt, ev0, len(self.events)))
                if not self.block_diverges(a['body']):
                    live_vals.append(bt)
            red = self.reduce_result_match(node, sc, arm_info, guards, fn, chain)
            if red is not None:
                return red
            red = self.reduce_option_match(node, sc, arm_info, guards, fn, chain)
            if red is not None:
                return red
            if len(arm_info) == 2 and all(a.get('guard') is None for a in node['arms']) and arm_info[0][2][0] != 'ctl' and arm_info[1][2][0] != 'ctl' \
                    and not self.block_diverges(node['arms'][0]['body']) and not self.block_diverges(node['arms'][1]['body']):
                p0, p1 = node['arms'][0]['pat'], node['arms'][1]['pat']
                if p0.get('k') == 'PLit' and (p1.get('k') in ('Wild',) or (p1.get('k') == 'Bind' and not p1.get('sub'))):
                    # match x { LIT => a, other => b }: the conditional value `if x == LIT {a} else {b}` (other is x)
                    lit = ('lit', H.lit_str(p0['v']))
                    return cond_value(('bin', '==', sc, lit), arm_info[0][2], arm_info[1][2])
            # a match whose other arms all diverge evaluates to its one live arm
            if len(live_vals) == 1 and live_vals[0][0] != 'ctl':
                return live_vals[0]
            return ('ctl', 'match %s {%s}' % (scs, '; '.join(parts)))
        if k == 'Loop':
            g = guards + [Guard((node['sp'], 'loop', 'loop', node.get('src', ''), None))]
            self.emit('loop', None, node, guards, fn, chain, extra=node.get('src'))
            self.eval_block(node['body'], env, g, fn, chain)
            return ('ctl', 'loop')
        if k == 'Repeat':
            return ('call', 'repeat', (self.eval(node['e'], env, guards, fn, chain),), ())
        return ('ctl', '<%s>' % k)

    def matches_term(self, node, env, guards, fn, chain):
        """`matches!(x, P)` (a match whose arms are the literals true / false, no guards, no bindings used): the pattern
        test as a term, so that it reads like `if let P = x` wherever it stands (condition, arm guard, operand of && / ||)."""
        import canon
        arms = node.get('arms') or []
        if node.get('src') != 'Normal' or len(arms) < 2:
            return None
        vals = []
        for a in arms:
            b = H.peel(a['body']) if isinstance(a.get('body'), dict) else {}
            while b.get('k') == 'Block' and not b.get('stmts') and b.get('expr') is not None:
                b = H.peel(b['expr'])
            if a.get('guard') is not None or b.get('k') != 'Lit' or H.lit_str(b.get('v')) not in ('true', 'false'):
                return None
            vals.append(H.lit_str(b['v']) == 'true')
        ty = node['scrut'].get('ty')
        # true arms first, then everything else false (the shape matches! expands to) -- or its mirror image
        if vals[:-1] == [True] * (len(arms) - 1) and vals[-1] is False and canon.whole(arms[-1]['pat'], ty) == 'ALL':
            pol = True
        elif vals[:-1] == [False] * (len(arms) - 1) and vals[-1] is True and canon.whole(arms[-1]['pat'], ty) == 'ALL':
            pol = False
        else:
            return None
        earlier = []
        preds, names_all = [], set()
        for a in arms[:-1]:
            pr, nm = canon.pattern_pred(a['pat'], ty, earlier)
            if pr == '_' or pr.startswith('not ') or canon.nested(a['pat']) is not None and nm is None and len(arms) > 2:
                return None
            preds.append(pr)
            if nm is None:
                names_all = None
            elif names_all is not None:
                names_all |= set(nm)
        sc = self.eval(node['scrut'], env, guards, fn, chain)
        if names_all and sc is not None and sc[0] == 'path' and canon.is_variant_path(sc):
            return ('lit', 'true' if ((sc[1].split('::')[-1] in names_all) == pol) else 'false')
        if names_all and canon.variants_of(ty) is not None:
            pred = canon.render(ty, names_all)
        else:
            pred = ' | '.join(preds)
        t = ('matches', sc, pred, ty)
        return t if pol else ('un', '!', t)

    def reduce_option_match(self, node, sc, arm_info, guards, fn, chain):
        """`match opt { Some(v) => Ok(v), None => Err(e) }` is `opt.ok_or(e)`; with `Some(v) => v, None => return Err(e)` it is
        `opt.ok_or(e)?`."""
        if not (node['scrut'].get('ty') or '').lstrip('&').startswith('std::option::Option<') or len(arm_info) != 2:
            return None
        some = [x for x in arm_info if x[1] == {'Some'}]
        none = [x for x in arm_info if x[1] == {'None'}]
        if len(some) != 1 or len(none) != 1:
            return None
        (sa, _, sbt, s0, s1), (na, _, nbt, n0, n1) = some[0], none[0]
        payload = ('field', sc, 'Some.0')
        nevs = self.events[n0:n1]
        if self.block_diverges(na['body']):
            rets = [x for x in nevs if x.kind == 'ret']
            if len(rets) != 1 or rets[0].term is None or rets[0].term[0] != 'call' or rets[0].term[1] != 'Err':
                return None
            if not error_building_only(nevs, rets[0].term):
                return None
            if self.block_diverges(sa['body']) or sbt[0] == 'ctl':
                return None
            e = rets[0].term[2][0]
            del self.events[n0:n1]
            for i, x in enumerate(self.events):
                x.idx = i
            t = ('try', ('call', 'std::option::Option::ok_or', (sc, e), ()))
            self.emit('try', t, node, guards, fn, chain)
            self.try_ifs.add(node['sp'])
            return replace(sbt, payload, t)
        if sbt == payload and nbt is not None and nbt[0] in ('lit', 'path') and not nevs and is_default_match(node):
            # match opt { Some(v) => v, None => d }   ==   opt.unwrap_or(d)
            return ('call', 'std::option::Option::unwrap_or', (sc, nbt), ())
        if nbt is None or nbt[0] != 'call' or nbt[1] != 'Err' or len(nbt[2]) != 1:
            return None
        if not error_building_only([x for x in nevs if x.kind != 'ret'], nbt) or [x for x in nevs if x.kind == 'ret']:
            return None
        if sbt == ('call', 'Ok', (payload,), ()):
            return ('call', 'std::option::Option::ok_or', (sc, nbt[2][0]), ())
        return None

    def reduce_result_match(self, node, sc, arm_info, guards, fn, chain):
        """`match r { Ok(v) => .., Err(e) => <hand e on> }` is the explicit spelling of `r?` / `r.map(..)` /
        `r.map_err(..)?`: give it the same term and events as the operator form."""
        if not (node['scrut'].get('ty') or '').lstrip('&').startswith('std::result::Result<') or len(arm_info) != 2:
            return None
        ok = [x for x in arm_info if x[1] == {'Ok'}]
        er = [x for x in arm_info if x[1] == {'Err'}]
        if len(ok) != 1 or len(er) != 1:
            return None
        (oa, _, obt, o0, o1), (ea, _, ebt, e0, e1) = ok[0], er[0]
        payload_ok, payload_err = ('field', sc, 'Ok.0'), ('field', sc, 'Err.0')
        err_events = self.events[e0:e1]
        # the Err arm only hands the error on: `Err(e)` as the arm's value, or `return Err(e)`, e possibly mapped
        returned = None
        if self.block_diverges(ea['body']):
            rets = [x for x in err_events if x.kind == 'ret']
            if len(rets) != 1:
                return None
            returned = rets[0].term
            if not error_building_only(err_events, returned):
                return None
            diverging = True
        else:
            returned = ebt
            if not error_building_only(err_events, returned) or [x for x in err_events if x.kind == 'ret']:
                return None
            diverging = False
        if returned is None or returned[0] != 'call' or returned[1] != 'Err' or len(returned[2]) != 1:
            return None
        g = returned[2][0]
        if g == payload_err:
            subject = sc
        elif any(t == payload_err for t in subterms(g)) or not H.pat_bindings(ea['pat']):
            subject = ('call', 'std::result::Result::map_err', (sc, ('closure', 'explicit', (('$c0', -1),), replace(g, payload_err, ('var', '$c0', -1)))), ())
        else:
            return None
        if diverging:
            # let v = match r { Ok(v) => v, Err(e) => return Err(e) }   ==   r?
            if self.block_diverges(oa['body']) or obt[0] == 'ctl':
                return None
            keep = self.events[:e0] + self.events[e1:] if e0 >= o1 else self.events[:e0] + self.events[e1:]
            del self.events[:]
            self.events.extend(keep)
            for i, x in enumerate(self.events):
                x.idx = i
            t = ('try', subject)
            self.emit('try', t, node, guards, fn, chain)
            self.try_ifs.add(node['sp'])
            return replace(obt, payload_ok, t)
        unit_ok = oa['pat'].get('k') == 'PTupleStruct' and len(oa['pat'].get('pats', [])) == 1 and oa['pat']['pats'][0].get('k') == 'PTuple' and not oa['pat']['pats'][0].get('pats')
        if unit_ok and obt[0] == 'call' and obt[1] == 'Ok' and len(obt[2]) == 1 and obt[2][0] in (('unit',), ('tup', ())) and subject is not sc:
            # match r { Ok(()) => Ok(()), Err(e) => Err(g(e)) }   ==   r.map_err(g)
            return subject
        if node['sp'] in getattr(self, 'tail_sps', ()) and obt[0] != 'ctl':
            # in tail position: match r { Ok(v) => E(v), Err(e) => Err(g(e)) }   ==   { let v = r.map_err(g)?; E(v) }
            t = ('try', subject)
            for x in self.events[o0:o1]:
                # what the Ok arm did with the payload it did with the value of `r?`
                x.term = replace(x.term, payload_ok, t)
                if getattr(x, 'args', None):
                    x.args = tuple(replace(a_, payload_ok, t) for a_ in x.args)
            ev_ = Event(idx=o0, kind='try', term=t, node=node, guards=tuple(guards), fn=fn, chain=tuple(chain), sp=node.get('sp'))
            pos = min(o0, e0)
            self.events.insert(pos, ev_)
            for i, x in enumerate(self.events):
                x.idx = i
            if obt == payload_ok:
                return t
            return replace(obt, payload_ok, t)
        # match r { Ok(v) => Ok(f(v)), Err(e) => Err(e) }   ==   r.map(|v| f(v))  (canonical: Ok(f(r?)))
        if obt[0] == 'call' and obt[1] == 'Ok' and len(obt[2]) == 1:
            t = ('try', subject)
            self.emit('try', t, node, guards, fn, chain)
            return ('call', 'Ok', (replace(obt[2][0], payload_ok, t),), ())
        return None

    def payload_of(self, val, pat):
        # binding through a variant pattern: keep the scrutinee so bind_pat can project
        return val

    def eval_call(self, node, env, guards, fn, chain):
        decl = H.callee_decl(node)
        path = H.callee_path(node)
        args_nodes = H.call_args(node)
        if path is None:
            # call through a value (closure / fn pointer)
            f = self.eval(node['f'], env, guards, fn, chain)
            args = tuple(self.eval(a, env, guards, fn, chain) for a in args_nodes)
            if f[0] == 'path':
                # enum/struct constructor applied
                t = ('call', f[1], args, ())
                self.emit('call', t, node, guards, fn, chain, callee=f[1], args=args)
                return t
            if f[0] == 'closure' and len(f[2]) == len(args):
                # beta-reduce a call of a locally defined closure
                body = f[3]
                for (nm, pid), a in zip(f[2], args):
                    body = replace(body, ('var', nm, pid), a)
                self.emit('callclosure', body, node, guards, fn, chain, callee=f[1], args=args, extra=f)
                return body
            t = ('call', 'value:' + show(f), args, ())
            self.emit('callvalue', t, node, guards, fn, chain, callee=show(f), args=args, extra=f)
            return t
        npath = norm_path(path)
        ndecl = norm_path(decl) if decl else npath
        if npath.startswith('<T as ') or npath.startswith('<Self as '):
            # blanket / generic impl: name the Self type the call was resolved for
            ga = node.get('gargs') if node.get('k') == 'MethodCall' else (node.get('f') or {}).get('gargs')
            if ga:
                npath = '<' + H.norm_path(self.tyenv.get(ga[0], ga[0])) + npath[npath.index(' as '):]
        elif self.tyenv and '::' in npath and not npath.startswith('<'):
            # `T::method(..)` inside a generic helper that is read through for a concrete T: the impl the caller's type selects
            ga = node.get('gargs') if node.get('k') == 'MethodCall' else (node.get('f') or {}).get('gargs')
            if ga and ga[0] in self.tyenv:
                tr_, m_ = npath.rsplit('::', 1)
                conc = H.norm_path(self.tyenv[ga[0]])
                for cand in ('<%s as %s>::%s' % (conc, tr_, m_), '<T as %s>::%s' % (tr_, m_)):
                    if cand in self.fns:
                        npath = '<%s as %s>::%s' % (conc, tr_, m_)
                        break
        if npath in ('std::result::Result::and_then',) and len(args_nodes) == 2 and closure_node(args_nodes[1]) is not None and len(closure_node(args_nodes[1])['params']) == 1:
            cn = closure_node(args_nodes[1])
            x = self.eval(args_nodes[0], env, guards, fn, chain)
            t = ('try', x)
            self.emit('try', t, node, guards, fn, chain)
            benv = dict(env)
            self.bind_pat(cn['params'][0], t, benv)
            return self.eval(cn['body'], benv, guards, fn, chain)
        if npath == 'std::result::Result::map' and len(args_nodes) == 2 and node.get('sp') in getattr(self, 'tail_sps', ()):
            # in tail position `r.map(f)` is `Ok(f(r?))` (the error type is the function's own, so `?` converts nothing)
            cn = closure_node(args_nodes[1])
            fnode = H.peel(args_nodes[1]) if isinstance(args_nodes[1], dict) else {}
            fpath = norm_path(fnode.get('resolved') or fnode.get('path') or '') if fnode.get('k') == 'Def' else None
            if cn is not None and len(cn['params']) == 1:
                x = self.eval(args_nodes[0], env, guards, fn, chain)
                t = ('try', x)
                self.emit('try', t, node, guards, fn, chain)
                benv = dict(env)
                self.bind_pat(cn['params'][0], t, benv)
                return ('call', 'Ok', (self.eval(cn['body'], benv, guards, fn, chain),), ())
            if fpath and fpath in self.fns and 'hir' in self.fns[fpath] and len(self.fns[fpath].get('params', [])) == 1:
                x = self.eval(args_nodes[0], env, guards, fn, chain)
                t = ('try', x)
                self.emit('try', t, node, guards, fn, chain)
                return ('call', 'Ok', (self.apply_fn(fpath, (t,), (), fpath, node, guards, fn, chain),), ())
        if ndecl in ('std::iter::Iterator::try_for_each', 'std::iter::Iterator::for_each') and len(args_nodes) == 2 and closure_node(args_nodes[1]) is not None \
                and len(closure_node(args_nodes[1])['params']) == 1:
            # `iter.try_for_each(|x| body)` / `iter.for_each(|x| body)`: the loop `for x in iter { body[?] }`
            cn = closure_node(args_nodes[1])
            itt = self.eval(args_nodes[0], env, guards, fn, chain)
            itt, item = iter_view(itt)
            benv = dict(env)
            self.bind_pat(cn['params'][0], item, benv)
            g = guards + [Guard((node['sp'], 'for', 'loop', show(itt), itt))]
            self.emit('for', itt, node, guards, fn, chain, extra='_')
            bt = self.eval(cn['body'], benv, g, fn, chain)
            if ndecl.endswith('try_for_each'):
                self.emit('try', ('try', bt), node, g, fn, chain)
                return ('call', 'Ok', (('unit',),), ())
            return ('unit',)
        if ndecl == 'std::iter::Extend::extend' and len(args_nodes) == 2:
            # `set.extend(iter)` is `for x in iter { set.insert(x) }` (push for a Vec): one element at a time, in order
            import canon
            sty = norm_path(canon.strip_ty(args_nodes[0].get('ty') or ''))
            meth = 'push' if sty.startswith('std::vec::Vec') else 'insert'
            if sty and not sty.startswith(('std::collections::HashMap', 'std::collections::BTreeMap', 'std::string::String')):
                coll = self.eval(args_nodes[0], env, guards, fn, chain)
                itt = self.eval(args_nodes[1], env, guards, fn, chain)
                itt, item = iter_view(itt, args_nodes[1])
                g = guards + [Guard((node['sp'], 'for', 'loop', show(itt), itt))]
                self.emit('for', itt, node, guards, fn, chain, extra='_')
                ct = ('call', '%s::%s' % (sty, meth), (coll, item), ())
                self.emit('call', ct, node, g, fn, chain, callee='%s::%s' % (sty, meth), args=(coll, item), extra={'decl': '%s::%s' % (sty, meth), 'gargs': ()})
                return ('unit',)
        tgt_ = self.fns.get(npath)
        reads_through = tgt_ is not None and 'hir' in tgt_ and len(chain) < self.depth_limit and npath not in chain and (self.inline_filter is None or self.inline_filter(npath)) \
            and getattr(self, 'new_helper', None) is not None and self.new_helper(npath)
        args = []
        for i_, a in enumerate(args_nodes):
            if reads_through and a.get('k') == 'AddrOf' and a.get('mut') and a['e'].get('k') == 'Local' and not (a['e'].get('ty') or '').startswith('&') \
                    and env.get(a['e']['id']) is not None and env[a['e']['id']][0] != 'var' and not assigns_through_param(tgt_, i_):
                # a local lent to a helper that is read through: what the helper does to it is seen where it does it, the local keeps its term
                args.append(env[a['e']['id']])
            else:
                args.append(self.eval(a, env, guards, fn, chain))
        args = tuple(args)
        if (is_erased_call(ndecl) or is_erased_call(npath)) and len(args) == 1:
            return args[0]
        if ndecl.endswith('TryFrom::try_from') and len(args) == 1 and len(args_nodes) == 1:
            src = (args_nodes[0].get('ty') or '').lstrip('&').strip()
            mres = re.match(r'^std::result::Result<(\w+), ', norm_path(node.get('ty') or '')) or re.match(r'^(?:core|std)::result::Result<(\w+), ', node.get('ty') or '')
            dst = mres.group(1) if mres else None
            if src in _UW and dst in _UW:
                if _UW[src] <= _UW[dst]:
                    return ('call', 'Ok', (args[0],), ())  # cannot fail: the value itself
                # a checked narrowing: Ok((x as uN)) iff x <= uN::MAX -- conditions on it are rendered as that comparison (canon.cmp_conds)
                return ('call', 'narrow::' + dst, (args[0],), ())
        if ndecl == 'std::string::String::new' and not args:
            return ('lit', '""')
        if npath == 'std::result::Result::and' and len(args) == 2 and args[1] is not None and args[1][0] == 'call' and args[1][1] == 'Ok':
            self.emit('try', ('try', args[0]), node, guards, fn, chain)
            return args[1]
        if len(args) == 1 and npath.split('::')[-1] == 'key' and npath.startswith('std::collections::hash_map::'):
            # the key of the entry obtained for key k is k
            a = args[0]
            if a is not None and a[0] == 'field' and a[2] in ('Vacant.0', 'Occupied.0'):
                a = a[1]
            if a is not None and a[0] == 'call' and a[1] == 'std::collections::HashMap::entry' and len(a[2]) == 2:
                return a[2][1]
        gargs = ()
        if node.get('k') == 'MethodCall':
            gargs = tuple(node.get('gargs', []))
        else:
            gargs = tuple(node['f'].get('gargs', []))
        gargs = tuple(self.tyenv.get(g, g) for g in gargs)
        f = node.get('f') or {}
        if node.get('k') == 'Call' and f.get('dk', '').startswith('Ctor'):
            t = ('call', npath, args, ())
            self.emit('ctor', t, node, guards, fn, chain, callee=npath, args=args)
            return t
        t = ('call', npath, args, gargs)
        if npath.endswith('VacantEntry::insert') and len(args) == 2 and args[0] is not None and args[0][0] == 'field' and args[0][2] == 'Vacant.0' \
                and args[0][1] is not None and args[0][1][0] == 'call' and args[0][1][1].endswith('::entry') and len(args[0][1][2]) == 2:
            # inserting through the vacant entry obtained for key k of map m is m.insert(k, v)
            m_, k_ = args[0][1][2]
            npath = args[0][1][1].rsplit('::', 1)[0] + '::insert'
            args = (m_, k_, args[1])
            t = ('call', npath, args, ())
        ce = canon_error_call(npath, args, getattr(self, 'error_has_source', lambda v: False))
        if ce is not None:
            t = ce
        if t[0] == 'call' and t[1] == 'std::result::Result::map_err' and len(t[2]) == 2 and t[2][0] is not None and t[2][0][0] == 'call' and t[2][1] is not None and t[2][1][0] == 'closure':
            inner, clo = t[2]
            if inner[1] == 'Err' and len(inner[2]) == 1 and len(clo[2]) == 1:
                # map_err(Err(e), |x| f(x)) is Err(f(e))
                t = ('call', 'Err', (replace(clo[3], ('var', clo[2][0][0], clo[2][0][1]), inner[2][0]),), ())
            elif inner[1] == 'Ok' and len(inner[2]) == 1:
                t = inner
        if t[0] == 'call' and t[1] == 'std::result::Result::map_err' and len(t[2]) == 2 and t[2][1] is not None and t[2][1][0] == 'closure' and len(t[2][1][2]) == 1 \
                and t[2][1][3] == ('var', t[2][1][2][0][0], t[2][1][2][0][1]):
            return t[2][0]  # map_err(|e| { log; e }): the error itself
        if t[0] == 'call' and t[1] == 'std::result::Result::map_err' and len(t[2]) == 2 and t[2][1] is not None and t[2][1][0] == 'path' and \
                (t[2][1][1].endswith('::into') or t[2][1][1].endswith('::from')):
            t = t[2][0]  # map_err(Into::into): a conversion of the error type, erased like every From/Into
        if t[0] == 'call' and t[1] in ('std::option::Option::unwrap_or_else', 'std::result::Result::unwrap_or_else') and len(t[2]) == 2 and t[2][1] is not None and t[2][1][0] == 'closure' \
                and len(t[2][1][2]) == (0 if t[1].startswith('std::option') else 1) and t[2][1][3] is not None and t[2][1][3][0] in ('lit', 'path'):
            # unwrap_or_else(|| constant) is unwrap_or(constant): nothing is computed lazily
            npath = t[1][:-len('_else')]
            args = (t[2][0], t[2][1][3])
            t = ('call', npath, args, ())
        if t[0] == 'call' and t[1] == 'std::option::Option::unwrap_or' and len(t[2]) == 2 and t[2][0] is not None and t[2][0][0] == 'call' \
                and t[2][0][1] == 'std::option::Option::filter' and len(t[2][0][2]) == 2:
            some, clo = t[2][0][2]
            if some is not None and some[0] == 'call' and some[1] == 'Some' and len(some[2]) == 1 and clo is not None and clo[0] == 'closure' and len(clo[2]) == 1:
                # Some(x).filter(|c| p(c)).unwrap_or(d) is `if p(x) {x} else {d}`
                x = some[2][0]
                return cond_value(replace(clo[3], ('var', clo[2][0][0], clo[2][0][1]), x), x, t[2][1])
        return self.apply_fn(npath, args, gargs, ndecl, node, guards, fn, chain, t)

    def apply_fn(self, npath, args, gargs, ndecl, node, guards, fn, chain, t=None):
        if t is None:
            t = ('call', npath, args, gargs)
        ev = self.emit('call', t, node, guards, fn, chain, callee=npath, args=args, extra={'decl': ndecl, 'gargs': gargs})
        # bounded inlining of crate-local callees
        target = self.fns.get(npath)
        if target is not None and 'hir' in target and len(chain) < self.depth_limit and npath not in chain:
            if self.inline_filter is None or self.inline_filter(npath):
                g = guards + [Guard((node['sp'], 'inl', 'inline', npath, None))]
                saved = self.tyenv
                gens = target.get('generics', [])
                if len(gens) == len(gargs):
                    self.tyenv = dict(zip(gens, gargs))
                else:
                    self.tyenv = {}
                try:
                    rv = self.run_fn(npath, list(args), g, chain + [npath])
                finally:
                    self.tyenv = saved
                ev.extra['inlined'] = True
                ev.extra['ret'] = rv
                if rv is not None and rv[0] != 'ctl':
                    return rv
        return t


def assigns_through_param(target, i):
    """the function assigns to (a part of) what its i-th parameter refers to, or hands it to mem::replace / take / swap"""
    prms = target.get('params', [])
    if i >= len(prms) or prms[i].get('k') != 'Bind':
        return True
    pid = prms[i]['id']
    for n_ in H.walk(target.get('hir') or {}):
        if n_.get('k') in ('Assign', 'AssignOp'):
            x_ = n_['l']
            while isinstance(x_, dict) and (x_.get('k') in ('Field', 'Index', 'AddrOf') or (x_.get('k') == 'Unary' and x_.get('op') == 'Deref')):
                x_ = x_['e']
            if isinstance(x_, dict) and x_.get('k') == 'Local' and x_['id'] == pid:
                return True
        elif n_.get('k') in ('Call', 'MethodCall') and norm_path(H.callee_path(n_) or '').startswith(('std::mem::', 'core::mem::')):
            for a_ in H.call_args(n_):
                y_ = a_
                while isinstance(y_, dict) and (y_.get('k') in ('Field', 'Index', 'AddrOf') or (y_.get('k') == 'Unary' and y_.get('op') == 'Deref')):
                    y_ = y_['e']
                if isinstance(y_, dict) and y_.get('k') == 'Local' and y_['id'] == pid:
                    return True
    return False


def guard_lits(g):
    """Canonical literals (subject, predicate) a structural guard contributes."""
    out = []
    for x in guard_strs(g):
        m = re.match(r'^(if|unless)\((.*)\)$', x)
        if m:
            out.append((m.group(2), m.group(1) == 'if'))
            continue
        m = re.match(r'^case\((.*) ~ (.*?)\)$', x)
        if m:
            out.append((m.group(1), m.group(2)))
    return out


def lits_at(e):
    return [l for g in e.guards for l in guard_lits(g)]


def guard_strs(g):
    """Canonical rendering of one structural guard: list of 'if(X)' / 'unless(X)' / 'case(X ~ P)'."""
    import canon
    kind = g[2]
    extra = g[5] if len(g) > 5 else None
    if kind == 'if':
        if extra and extra.get('let'):
            subj = extra.get('subject_str')
            if subj is None:
                m = re.match(r'^let (.+?) = (.+)$', g[3])
                subj = m.group(2) if m else show(extra['subject'])
            if g[1] == 'then':
                pred, names = canon.pattern_pred(extra['pat'], extra['ty'])
            else:
                pred = canon.complement_pred(extra['pat'], extra['ty'])
                w = canon.whole(extra['pat'], extra['ty'])
                info = canon.variants_of(extra['ty'])
                names = (set(x[0] for x in info[1]) - w) if (info is not None and isinstance(w, set)) else None
            cc = canon.cmp_conds(extra['subject'], names) if names else None
            if cc is not None:
                return ['%s(%s)' % ('if' if p else 'unless', s_) for s_, p in cc]
            return ['case(%s ~ %s)' % (subj, pred)]
        out = []
        for s_, p in canon.cond(g[4], g[1] == 'then') if g[4] is not None else [(g[3], g[1] == 'then')]:
            if isinstance(p, bool):
                out.append('%s(%s)' % ('if' if p else 'unless', s_))
            else:
                out.append('case(%s ~ %s)' % (s_, p))
        return out
    if kind == 'match':
        if extra:
            subj = g[3].split(' ~ ')[0] if ' ~ ' in g[3] else show(extra['subject'])
            cc = canon.cmp_conds(extra['subject'], extra.get('names')) if extra.get('names') else None
            if cc is not None:
                return ['%s(%s)' % ('if' if p else 'unless', s_) for s_, p in cc]
            return ['case(%s ~ %s)' % (subj, extra['pred'])]
        return ['case(%s)' % g[3]]
    if kind == 'armguard':
        out = []
        for s_, p in canon.cond(g[4], True) if g[4] is not None else [(g[3], True)]:
            out.append('%s(%s)' % ('if' if p is True else 'unless', s_) if isinstance(p, bool) else 'case(%s ~ %s)' % (s_, p))
        return out
    return []


def _hands_error_on(body, pat):
    """body is `Err(e)` / `return Err(e)` / `{ return Err(e); }` with e the error bound by `Err(e)` (possibly converted)."""
    b = body
    while b.get('k') == 'Block' and not (b['stmts'] and b.get('expr') is not None) and (len(b['stmts']) == 1 or (not b['stmts'] and b.get('expr') is not None)):
        b = b['expr'] if b.get('expr') is not None else b['stmts'][0].get('e', {})
        if b is None:
            return False
    if b.get('k') == 'Ret':
        b = b.get('e') or {}
    b = H.peel(b)
    if b.get('k') == 'MethodCall' and b.get('name') == 'fail' and not b.get('args') and 'Snafu' in (H.peel(b['recv']).get('ty') or H.term(b['recv'])):
        # a snafu selector's `.fail()` is `Err(<that error>)`
        sel = H.peel(b['recv'])
        binds = [x['id'] for x in H.pat_bindings(pat)]
        if not binds:
            return not any(n.get('k') in ('Call', 'MethodCall') and not (n.get('k') == 'Call' and n['f'].get('dk', '').startswith('Ctor')) for n in H.walk(sel))
        return len(binds) == 1 and any(n.get('k') == 'Local' and n['id'] == binds[0] for n in H.walk(sel))
    if b.get('k') != 'Call' or (b['f'].get('path') or '').split('::')[-1] != 'Err' or len(b['args']) != 1:
        return False
    binds = [x['id'] for x in H.pat_bindings(pat)]
    if not binds:
        # `Err(_) => Err(<constant error>)` (an error built from values at hand: clones and conversions are not effects)
        return H.pure_expr(b['args'][0])
    if len(binds) != 1:
        return False
    return any(n.get('k') == 'Local' and n['id'] == binds[0] for n in H.walk(b['args'][0]))


def is_propagate_match(node):
    """Static shape of `match r { Ok(v) => .., Err(e) => <hand e on> }` on a Result."""
    import canon
    if node.get('k') != 'Match' or node.get('src') != 'Normal' or len(node['arms']) != 2:
        return False
    ty = node['scrut'].get('ty') or ''
    if ty.lstrip('&').startswith('std::option::Option<'):
        # `match opt { Some(v) => v, None => return Err(e) }` is `opt.ok_or(e)?`
        ws = [canon.whole(a['pat'], ty) if a.get('guard') is None else None for a in node['arms']]
        if {'Some'} not in ws or {'None'} not in ws:
            return False
        na = node['arms'][ws.index({'None'})]
        sa = node['arms'][ws.index({'Some'})]
        nb = na['body']
        while nb.get('k') == 'Block' and not (nb['stmts'] and nb.get('expr') is not None) and (len(nb['stmts']) == 1 or (not nb['stmts'] and nb.get('expr') is not None)):
            nb = nb['expr'] if nb.get('expr') is not None else nb['stmts'][0].get('e', {})
            if nb is None:
                return False
        if nb.get('k') != 'Ret':
            return False
        sb = H.peel(sa['body'])
        binds = H.pat_bindings(sa['pat'])
        if not (sb.get('k') == 'Local' and len(binds) == 1 and sb['id'] == binds[0]['id']):
            return False
        return _hands_error_on(na['body'], {'k': 'Wild'})
    if not ty.lstrip('&').startswith('std::result::Result<'):
        return False
    ws = [canon.whole(a['pat'], ty) if a.get('guard') is None else None for a in node['arms']]
    if {'Ok'} not in ws or {'Err'} not in ws:
        return False
    ea = node['arms'][ws.index({'Err'})]
    oa = node['arms'][ws.index({'Ok'})]
    ob = H.peel(oa['body']) if isinstance(oa['body'], dict) else {}
    if oa['body'].get('ty') == '!' or ob.get('ty') == '!' or (ob.get('k') == 'MacroCall' and ob.get('name') in ('unreachable', 'panic', 'unimplemented', 'todo')):
        return False  # an Ok arm that never yields a value is a real branch, not the success side of `?`
    if ob.get('k') == 'Block' and ob.get('expr') is not None and not ob.get('stmts'):
        ob2 = H.peel(ob['expr'])
        if ob2.get('ty') == '!' or (ob2.get('k') == 'MacroCall' and ob2.get('name') in ('unreachable', 'panic', 'unimplemented', 'todo')):
            return False
    return _hands_error_on(ea['body'], ea['pat'])


_LIFT = {}


def lift_propagating_arm(node):
    """In tail position, `match opt { Some(P1) => a, Some(P2) => b, None => Err(e) }` (likewise a Result whose Err arm only hands
    the error on) is `let v = opt.ok_or(e)?; match v { P1 => a, P2 => b }`: the failing arm is the `?`, the rest is a decision on
    the payload. Returns the rewritten block, or the node itself."""
    import canon
    if node.get('k') != 'Match' or node.get('src') != 'Normal' or len(node.get('arms', [])) < 2:
        return node
    key = id(node)
    if key in _LIFT and _LIFT[key][0] is node:
        return _LIFT[key][1]
    out = node
    ty = (node['scrut'].get('ty') or '').lstrip('&')
    good, bad = ('Some', 'None') if ty.startswith('std::option::Option<') else (('Ok', 'Err') if ty.startswith('std::result::Result<') else (None, None))
    if good is not None and all(a.get('guard') is None for a in node['arms']):
        ws = [canon.whole(a['pat'], ty) for a in node['arms']]
        bads = [a for a, w in zip(node['arms'], ws) if w == {bad}]
        goods = [a for a, w in zip(node['arms'], ws) if w != {bad}]
        ok = len(bads) == 1 and goods and all(a['pat'].get('k') == 'PTupleStruct' and len(a['pat'].get('pats', [])) == 1 and H.res_path(a['pat']['res']).split('::')[-1] == good for a in goods)
        simple = len(goods) == 1 and goods[0]['pat']['pats'][0].get('k') in ('Bind', 'Wild') if ok else False
        if ok and not simple and _hands_error_on(bads[0]['body'], bads[0]['pat'] if bad == 'Err' else {'k': 'Wild'}):
            inner_ty = H._generic_args(ty)[0] if H._generic_args(ty) else None
            sp = node.get('sp') or ''
            vid = -(3000000 + (abs(hash(sp)) % 1000000))
            nid = vid - 1
            bb = bads[0]['body']
            bbp = bb
            while bbp.get('k') == 'Block' and not bbp.get('stmts') and bbp.get('expr') is not None:
                bbp = bbp['expr']
            ret_body = bb if H.peel(bbp).get('k') == 'Ret' or bbp.get('k') == 'Ret' else {'k': 'Ret', 'e': bb, 'ty': '!', 'sp': sp + '#ret'}
            good_pat = dict(goods[0]['pat'], pats=[{'k': 'Bind', 'name': '$v', 'id': vid, 'mode': 'BindingMode(No, Not)', 'ty': inner_ty}])
            first = {'k': 'Match', 'src': 'Normal', 'scrut': node['scrut'], 'ty': inner_ty, 'sp': sp + '#lift',
                     'arms': [dict(goods[0], pat=good_pat, body={'k': 'Local', 'name': '$v', 'id': vid, 'ty': inner_ty, 'sp': sp + '#v'}),
                              dict(bads[0], body=ret_body)]}
            let = {'k': 'Let', 'pat': {'k': 'Bind', 'name': '$n', 'id': nid, 'mode': 'BindingMode(No, Not)', 'ty': inner_ty}, 'init': first, 'els': None, 'sp': sp + '#let'}
            second = {'k': 'Match', 'src': 'Normal', 'scrut': {'k': 'Local', 'name': '$n', 'id': nid, 'ty': inner_ty, 'sp': sp + '#n'}, 'ty': node.get('ty'),
                      'sp': sp + '#rest', 'tail_of': sp, 'arms': [dict(a, pat=a['pat']['pats'][0]) for a in goods]}
            out = {'k': 'Block', 'stmts': [let], 'expr': second, 'ty': node.get('ty'), 'sp': sp + '#blk'}
    _LIFT[key] = (node, out)
    return out


def is_default_match(node):
    """Static shape of `match opt { Some(v) => v, None => <constant> }`: the explicit spelling of `opt.unwrap_or(<constant>)`."""
    import canon
    if node.get('k') != 'Match' or node.get('src') != 'Normal' or len(node.get('arms', [])) != 2:
        return False
    ty = node['scrut'].get('ty') or ''
    if not ty.lstrip('&').startswith('std::option::Option<'):
        return False
    ws = [canon.whole(a['pat'], ty) if a.get('guard') is None else None for a in node['arms']]
    if {'Some'} not in ws or {'None'} not in ws:
        return False
    sa, na = node['arms'][ws.index({'Some'})], node['arms'][ws.index({'None'})]
    sb = H.peel(sa['body'])
    binds = H.pat_bindings(sa['pat'])
    if not (sb.get('k') == 'Local' and len(binds) == 1 and sb['id'] == binds[0]['id']):
        return False
    nb = H.peel(na['body'])
    return nb.get('k') in ('Lit', 'Def') or bool(H.num_limit(nb))


def is_propagate_iflet(node):
    import canon
    if node.get('k') != 'If' or node['cond'].get('k') != 'LetExpr' or node.get('else') is not None:
        return False
    ty = node['cond']['init'].get('ty') or ''
    if not ty.lstrip('&').startswith('std::result::Result<') or canon.whole(node['cond']['pat'], ty) != {'Err'}:
        return False
    return _hands_error_on(node['then'], node['cond']['pat'])


_UW = {'u8': 8, 'u16': 16, 'u32': 32, 'u64': 64, 'usize': 64, 'u128': 128}


def widening(src, dst):
    """an unsigned-to-unsigned cast that cannot lose bits (usize taken as 64 bits, as the rest of the analysis does)"""
    return src in _UW and dst in _UW and _UW[src] <= _UW[dst]


def closure_node(n):
    n = H.peel(n) if isinstance(n, dict) else n
    return n if isinstance(n, dict) and n.get('k') == 'Closure' else None


_SEL = re.compile(r'^errors::(\w+)Snafu$')


def snafu_error(sel):
    """the error value a snafu context selector stands for: errors::XSnafu{f..} -> errors::Error::X{f..}"""
    if sel is None:
        return None
    if sel[0] == 'path':
        m = _SEL.match(sel[1])
        return ('path', 'errors::Error::' + m.group(1)) if m else None
    if sel[0] == 'struct' and sel[3] is None:
        m = _SEL.match(sel[1])
        if not m:
            return None
        if not sel[2]:
            return ('path', 'errors::Error::' + m.group(1))
        return ('struct', 'errors::Error::' + m.group(1), sel[2], None)
    return None


def with_source(err, src):
    if err[0] == 'path':
        return ('struct', err[1], (('source', src),), None)
    return ('struct', err[1], tuple(sorted(err[2] + (('source', src),))), None)


def canon_error_call(npath, args, has_source):
    """snafu spellings and their hand-written equivalents in one form: `XSnafu{..}.fail()` is `Err(Error::X{..})`,
    `.build()` is `Error::X{..}`, `opt.context(sel)` / `ok_or_else(|| e)` is `ok_or(opt, e)`, `res.context(sel)` /
    `with_context(|_| sel)` is `map_err(res, |$c0| Error::X{.., source: $c0})`."""
    m = re.match(r'^errors::(\w+)Snafu::(fail|build)$', npath)
    if m and len(args) == 1:
        e = snafu_error(args[0])
        if e is not None:
            return ('call', 'Err', (e,), ()) if m.group(2) == 'fail' else e
    if npath.endswith('snafu::OptionExt<T>>::context') and len(args) == 2:
        e = snafu_error(args[1])
        if e is not None:
            return ('call', 'std::option::Option::ok_or', (args[0], e), ())
    if npath == 'std::option::Option::ok_or_else' and len(args) == 2 and args[1] is not None and args[1][0] == 'closure' and not args[1][2]:
        return ('call', 'std::option::Option::ok_or', (args[0], args[1][3]), ())
    if npath.endswith('snafu::ResultExt<T, E>>::context') and len(args) == 2:
        e = snafu_error(args[1])
        if e is not None:
            body = with_source(e, ('var', '$c0', -1)) if has_source(e[1]) else e
            return ('call', 'std::result::Result::map_err', (args[0], ('closure', 'snafu', (('$c0', -1),), body)), ())
    if npath.endswith('snafu::ResultExt<T, E>>::with_context') and len(args) == 2 and args[1] is not None and args[1][0] == 'closure':
        e = snafu_error(args[1][3])
        if e is not None:
            body = with_source(e, ('var', '$c0', -1)) if has_source(e[1]) else e
            return ('call', 'std::result::Result::map_err', (args[0], ('closure', 'snafu', (('$c0', -1),), body)), ())
    return None


def error_building_only(events, returned):
    """the events only build the error value that is handed on (constructors, selectors, helpers read through)"""
    shown = set(show(t) for t in subterms(returned)) if returned is not None else set()
    for x in events:
        if x.kind in ('ret', 'ctor', 'struct'):
            continue
        if x.kind == 'call' and (x.callee == 'Err' or x.callee.startswith('errors::') or show(x.term) in shown or (isinstance(x.extra, dict) and x.extra.get('inlined'))):
            continue
        return False
    return True


def cond_value(c, a, b):
    """Canonical term of `if c {a} else {b}` used as a value: the condition in its canonical spelling, and a negative
    condition flipped into the positive one."""
    import canon
    cs = canon.bstr(c, True)
    if cs.startswith('!') and not cs.startswith('!('):
        cs, a, b = canon.bstr(c, False), b, a
    return ('ctl', 'if %s {%s} else {%s}' % (cs, show(a), show(b)))


def iter_view(itt, it_node=None):
    """(iterator term, item term): HashMap::keys(m) / values(m) are read as iter(m) with the item projected;
    `for x in &c` / `for x in &mut c` are read as `for x in c.iter()` / `c.iter_mut()`."""
    n = it_node
    while isinstance(n, dict) and n.get('k') in ('DropTemps', 'Paren'):
        n = n.get('e')
    if isinstance(n, dict) and n.get('k') == 'AddrOf' and itt is not None and not (itt[0] == 'call' and itt[1].split('::')[-1] in ('iter', 'iter_mut', 'keys', 'values', 'drain')):
        import canon
        ty = norm_path(canon.strip_ty((n.get('e') or {}).get('ty') or ''))
        if ty.startswith(('std::vec::Vec', '[')) or ty == '':
            ty = 'std::slice' if ty else ''
        if ty and not (n.get('e') or {}).get('ty', '').startswith('&'):
            itt = ('call', ty + ('::iter_mut' if n.get('mut') else '::iter'), (itt,), ())
    if itt is not None and itt[0] == 'call' and itt[1] == 'std::iter::Iterator::map' and len(itt[2]) == 2 and itt[2][1] is not None and itt[2][1][0] == 'closure' and len(itt[2][1][2]) == 1:
        # `for x in it.map(|p| f(p))` walks `it` with x = f(item): same loop, the item projected
        base, bitem = iter_view(itt[2][0])
        clo = itt[2][1]
        return base, replace(clo[3], ('var', clo[2][0][0], clo[2][0][1]), bitem)
    if itt is not None and itt[0] == 'call' and itt[1] in ('std::iter::Iterator::copied', 'std::iter::Iterator::cloned') and len(itt[2]) == 1:
        return iter_view(itt[2][0])  # the items by value instead of by reference: the same items
    if itt is not None and itt[0] == 'call' and itt[1] in ('std::collections::HashMap::keys', 'std::collections::HashMap::values') and len(itt[2]) == 1:
        base = ('call', 'std::collections::HashMap::iter', itt[2], ())
        return base, ('field', ('call', 'iter_item', (base,), ()), '0' if itt[1].endswith('keys') else '1')
    return itt, ('call', 'iter_item', (itt,), ())


def unconditional(e, events):
    """The event happens on every execution of its function: no branch / loop / closure context
    and no early exit before it."""
    if [g for g in e.guards if g[2] not in ('inline',)]:
        return False
    return not [x for x in events if x.idx < e.idx and x.kind in ('ret', 'try', 'break', 'continue')]


def dominates(a, b):
    """Structural dominance: a is evaluated before b on every path that reaches b."""
    ga = [g for g in a.guards if g[2] != 'inline']
    gb = [g for g in b.guards if g[2] != 'inline']
    return a.idx < b.idx and is_prefix(ga, gb)


def replace(t, target, repl):
    """Replace every occurrence of sub-term `target` in `t` by `repl`."""
    if t == target:
        return repl
    if not isinstance(t, tuple):
        return t
    return tuple(replace(x, target, repl) if isinstance(x, tuple) else x for x in t)
