"""C05 -- when a connection dies, every caller is released with an error; nobody hangs."""
import re

import hir as H
import mir as M
import paths as P
import sym as S
from rules import arms as A
from rules import panics

EXPLANATION = (
    "The release mechanism's structure is decided, not its timing. (1) Errors end the loop: on the I/O thread no value of type Result<_, amiquip::Error> is dropped -- every "
    "such call is consumed by `?`, returned, matched or handed on; the only tolerated probes are tabled with a reason. (2) No masking: the one place that replaces an error by "
    "another (InvalidCredentials after StartOk) does so only for the socket-closed error. (3) Every client-side blocking point is disconnect-woken: each channel endpoint the "
    "I/O thread sends on or receives from is created at a known site, its I/O-side half is stored only in structures owned by the I/O thread's state (ChannelSlot, Channel0Slot, "
    "the thread closure), is never cloned, and thread_main takes the loop state, the stream and the channel-0 slot by value, so they drop -- disconnecting every reply queue and "
    "consumer queue -- when it returns. (4) Error mapping: EOF, read errors, write errors, malformed frames, missed heartbeats and closing states map to the errors the "
    "statement names (rows shared with C06/C01/C17/C08). (5) close_impl takes the join handle, asks for the close, then joins and returns the I/O thread's error in preference to "
    "the close call's own result; Drop calls it. 'In bounded time', wake-up latency and what the kernel reports when a peer vanishes silently are NOT decided.")
ASSUMPTIONS = ["crossbeam / mio_extras: dropping the last sender (receiver) wakes a blocked receiver (sender) with a disconnect error", "JoinHandle::join returns when the thread function returns"]
RULE_TEXT = "obligations: one per Result-returning call site on the I/O thread, per endpoint creation/storage site, per error-mapping row, per close step; distinct = distinct keys"
LEVEL_TEXT = ("Structural decision of the release mechanism for every failure point: no dropped errors on the I/O thread, no masking, ownership of every channel endpoint by state "
              "that dies with the I/O thread, error-mapping rows, and close joining the thread and preferring its error. Timing ('bounded time') is not decided.")
LEVEL_NOTE = "Trusts rustc HIR/MIR/type information and the channel libraries' disconnect semantics."
TECHNIQUE = "static analysis: error-discipline lint over every Result<_, Error> call site in the I/O set, endpoint ownership from items + creation-site inventory, path tables"

ERR_T = re.compile(r'^std::result::Result<.*errors::Error>$')
PROBES = {
    ('io_loop::handshake_state::HandshakeState::process', '<amq_protocol::protocol::connection::Secure as serialize::TryFromAmqpFrame>::try_from'):
        'probe: is the frame a Secure challenge? (a non-match moves on to Tune with the same frame)',
    ('io_loop::handshake_state::HandshakeState::process', '<amq_protocol::protocol::connection::Close as serialize::TryFromAmqpFrame>::try_from'):
        'probe: is the frame a Close? (a non-match is type-checked as OpenOk right after)',
    ('io_loop::connection_state::ConnectionState::process', 'io_loop::connection_state::slot_remove'):
        'documented Channel.Close / CloseOk race: a CloseOk for an already removed slot is not an error',
}


def io_set(ctx):
    roots = [x for x in panics.IO_ROOTS if ctx.has_fn(x)]
    return ctx.cg.reachable(roots)


def run(ctx):
    _run_main(ctx)
    _shared_r4(ctx)
    _shared_r5(ctx)
    _round6(ctx)
    _round7(ctx)


def _run_main(ctx):
    with ctx.rule('R05.1', 'no Result<_, Error> is dropped on the I/O thread', floor=60) as r:
        seen = io_set(ctx)
        n = 0
        for p in sorted(seen):
            fn = ctx.fns[p]
            if fn['dk'] == 'Closure' or 'hir' not in fn or fn.get('impl_trait') in ('std::fmt::Debug', 'std::fmt::Display', 'std::error::Error'):
                continue
            if p.startswith(('errors::', '<errors::')):
                continue
            for chain, nd in H.ancestors(fn['hir'], lambda x: x.get('k') in ('Call', 'MethodCall') and ERR_T.match(x.get('ty', '') or '')):
                callee = H.callee_name(nd)
                # walk up through transparent wrappers
                i = len(chain) - 1
                while i >= 0 and chain[i][0].get('k') in ('AddrOf', 'Block') and chain[i][1] in ('e', 'expr'):
                    i -= 1
                parent, role = chain[i] if i >= 0 else ({}, '')
                pk = parent.get('k')
                verdict = 'used'
                if pk in ('Semi', 'ExprStmt'):
                    # statement position: the value is dropped (unless the statement is the diverging tail `return x;`)
                    verdict = 'dropped'
                elif pk == 'Let' and role == 'init' and parent['pat'].get('k') == 'Wild':
                    verdict = 'dropped'
                elif pk == 'MethodCall' and role == 'recv' and parent['name'] in ('ok', 'unwrap_or', 'unwrap_or_default', 'unwrap_or_else', 'is_ok', 'is_err', 'err'):
                    verdict = 'masked:' + parent['name']
                elif pk == 'LetExpr' and role == 'init':
                    pt = H.pat_term(parent['pat'], True)
                    if pt.startswith('Ok('):
                        verdict = 'probe'
                n += 1
                key = '%s:%s#%d' % (p, callee.split('::')[-1], sum(1 for i in r.insts if i.key.split('#')[0].endswith('%s:%s' % (p, callee.split('::')[-1]))))
                if verdict == 'used':
                    r.ok('used:%s' % key, ctx.site(p, nd), built='consumed by %s' % (pk or 'tail'))
                    continue
                if verdict == 'probe' and (p, callee) in PROBES:
                    r.ok('probe:%s' % key, ctx.site(p, nd), built=PROBES[(p, callee)])
                    continue
                r.bad('%s:%s' % (verdict, key), ctx.site(p, nd), built='%s result of %s' % (verdict, callee), expected='propagated with `?`, returned, matched with an Err arm, or a tabled probe',
                      why='an error swallowed on the I/O thread leaves the loop running and callers waiting')
        r.check('call-sites-examined', n >= 60, None, built=n, expected='>= 60 Result<_, Error> call sites in the I/O set')
        for k, why in PROBES.items():
            pass

    with ctx.rule('R05.6', 'an error is swallowed only by the tabled arm: EOF after CloseOk in state ClientClosed', floor=1) as r:
        seen = io_set(ctx)
        SW = []
        for p in sorted(seen):
            fn = ctx.fns[p]
            if fn['dk'] == 'Closure' or 'hir' not in fn:
                continue
            for nd in H.walk(fn['hir']):
                # every branch on a Result<_, Error> that takes the Err side and does nothing with it, in either spelling:
                # `match x { .., Err(..) => {} }` or `if let Ok(..) = x { .. }` without an else
                if nd.get('k') == 'Match' and nd.get('src') == 'Normal' and ERR_T.match(nd['scrut'].get('ty', '') or ''):
                    subj = nd['scrut'].get('ty')  # what the discarded error came with (rename-proof)
                    for a in nd['arms']:
                        pt = H.pat_term(a['pat'], True)
                        body = H.term(a['body'])
                        if (pt.startswith('Err(') or pt == '_') and body in ('{}', '()', 'Ok(())', '{Ok(())}'):
                            SW.append((ctx.owner(p), subj, pt, H.term(a['guard']) if a.get('guard') else None))
                if nd.get('k') == 'If' and nd['cond'].get('k') == 'LetExpr' and ERR_T.match(nd['cond']['init'].get('ty', '') or ''):
                    pt = H.pat_term(nd['cond']['pat'], True)
                    els = nd.get('else')
                    if pt.startswith('Ok(') and (els is None or H.term(els) in ('{}', '()')):
                        subj = nd['cond']['init'].get('ty')
                        SW.append((ctx.owner(p), subj, 'Err(_)', None))
        SW = sorted(set(SW), key=lambda x: tuple(str(y) for y in x))
        PROC, HSP = 'io_loop::connection_state::ConnectionState::process', 'io_loop::handshake_state::HandshakeState::process'
        want = sorted([
            # EOF behind the server's CloseOk is the normal end of a client-initiated close (C08)
            ('io_loop::IoLoop::handle_steady_event', 'std::result::Result<(), errors::Error>', 'Err(errors::Error::UnexpectedSocketClose)', 'match state {io_loop::connection_state::ConnectionState::ClientClosed => true; _ => false}'),
            # the late CloseOk of a channel the server closed first: the slot is gone already (documented race, C09/C20)
            (PROC, 'std::result::Result<io_loop::ChannelSlot, errors::Error>', 'Err(_)', None),
            # handshake probes: "is this frame a Secure / a Close?" -- the frame is then read as what must follow instead
            (HSP, 'std::result::Result<amq_protocol::protocol::connection::Secure, errors::Error>', 'Err(_)', None),
            (HSP, 'std::result::Result<amq_protocol::protocol::connection::Close, errors::Error>', 'Err(_)', None),
        ], key=lambda x: tuple(str(y) for y in x))
        extra = [x for x in SW if x not in want]
        r.check('swallowing-arms', not extra, ctx.site('io_loop::IoLoop::handle_steady_event'), built=extra or SW, expected=want,
                why='an EOF before CloseOk (or any other error) that is swallowed leaves the I/O thread polling a dead socket: close() and every caller hang '
                    '(an error may be discarded only at the tabled places; discarding it at fewer places is fine)')

    with ctx.rule('R05.2', 'no masking: an error is replaced by another only for the tabled cause', floor=2) as r:
        from rules import c16
        sub = type(ctx)(ctx.facts, ctx.info, ctx.prop, ctx.tier, ctx.config)
        c16.run(sub)
        for rr in sub.rules:
            if rr.rid == 'R16.2':
                for i in rr.insts:
                    if 'socket-closed-after-StartOk' in i.key or 'other-errors-unchanged' in i.key:
                        r.insts.append(type(i)(r.rid, r._key(i.key.split(':', 1)[1]), i.ok, i.site, i.built, i.expected, i.why))

    with ctx.rule('R05.3', 'every blocking point is disconnect-woken: endpoints owned by I/O-thread state, never cloned; state taken by value', floor=14, floor_notls=13) as r:
        mk = []
        for p, fn in sorted(ctx.fns.items()):
            if 'hir' not in fn or fn['dk'] == 'Closure':
                continue
            for nd in H.walk(fn['hir']):
                if nd.get('k') == 'Call':
                    cp = S.norm_path(H.callee_path(nd) or '')
                    if cp in ('crossbeam_channel::bounded', 'crossbeam_channel::unbounded', 'mio_extras::channel::sync_channel', 'mio_extras::channel::channel', 'std::sync::mpsc::channel', 'std::sync::mpsc::sync_channel'):
                        mk.append((p, cp.split('::')[-1]))
        want = sorted([('channel::Channel::listen_for_publisher_confirms', 'unbounded'), ('channel::Channel::listen_for_returns', 'unbounded'),
                       ('connection::Connection::listen_for_connection_blocked', 'unbounded'), ('io_loop::Channel0Slot::new', 'bounded'), ('io_loop::Channel0Slot::new', 'sync_channel'),
                       ('io_loop::Channel0Slot::new', 'sync_channel'), ('io_loop::ChannelSlot::new', 'bounded'), ('io_loop::ChannelSlot::new', 'sync_channel'),
                       ('io_loop::IoLoop::start', 'bounded'), ('io_loop::connection_state::ConnectionState::process', 'unbounded')] +
                      ([('io_loop::IoLoop::start_tls', 'bounded')] if ctx.has_fn('io_loop::IoLoop::start_tls') else []))
        r.eq('creation-sites', sorted(mk), want, None, why='a channel created elsewhere would be a blocking point this rule has not examined')
        # where sender / receiver halves are stored (struct fields)
        holders = {}
        for p, adt in sorted(ctx.adts.items()):
            for v in adt['variants']:
                for f in v['fields']:
                    if re.search(r'(crossbeam_channel::(Sender|Receiver)|mio_extras::channel::(SyncSender|Sender|Receiver))<', f['ty']):
                        holders.setdefault(p, []).append(f['name'])
        want_h = {'io_loop::ChannelSlot': ['rx', 'tx', 'consumers', 'return_handler', 'pub_confirm_handler'],
                  'io_loop::Channel0Slot': ['set_blocked_rx', 'blocked_tx', 'alloc_chan_req_rx', 'alloc_chan_rep_tx'],
                  'io_loop::io_loop_handle::IoLoopHandle': ['tx', 'rx'], 'io_loop::io_loop_handle::IoLoopHandle0': ['set_blocked_tx', 'alloc_chan_req_tx', 'alloc_chan_rep_rx'],
                  'io_loop::IoLoopMessage': ['0', '0'], 'io_loop::ChannelMessage': ['1'], 'consumer::Consumer': ['rx']}
        r.eq('endpoint-storage', holders, want_h, None, why='I/O-side halves live only in the slots (owned by the I/O thread); client-side halves only in the handles')
        # the I/O-side structures are not Clone, and no endpoint is cloned anywhere
        for ty in ('io_loop::ChannelSlot', 'io_loop::Channel0Slot', 'io_loop::Inner', 'io_loop::IoLoop', 'io_loop::connection_state::ConnectionState'):
            r.check('not-clone:%s' % ty.split('::')[-1], not ctx.impls_of('std::clone::Clone', ty), None)
        clones = []
        for p, fn in ctx.fns.items():
            if 'hir' not in fn:
                continue
            for nd in H.walk(fn['hir']):
                if nd.get('k') == 'MethodCall' and nd['name'] == 'clone' and re.search(r'(crossbeam_channel::(Sender|Receiver)|mio_extras::channel::(SyncSender|Sender|Receiver))<', nd.get('recv_ty', '')):
                    clones.append((p, nd.get('recv_ty')))
        r.check('endpoints-never-cloned', not clones, None, built=clones, why='a cloned sender keeps a queue open after the I/O thread has died: its receiver would block forever')
        # thread_main owns the state
        fn = ctx.fn('io_loop::IoLoop::thread_main')
        r.eq('thread_main:by-value', [ctx.expand_ty(t) for t in fn['inputs'][:2] + fn['inputs'][3:5]], ['io_loop::IoLoop', 'S', 'crossbeam_channel::Sender<(usize, std::collections::BTreeMap<std::string::String, amq_protocol::types::AMQPValue>)>', 'io_loop::Channel0Slot'],
             ctx.site('io_loop::IoLoop::thread_main'), why='loop state, stream, handshake sender and channel-0 slot are moved in, so they drop when the thread function returns')
        rows = P.table(ctx, 'io_loop::IoLoop::run_connection', ['self', 'stream', 'ch0_slot'])
        r.check('ch0-slot-moved-into-state', all('let $m0 = io_loop::connection_state::ConnectionState::Steady(ch0_slot)' in x.effects for x in rows), ctx.site('io_loop::IoLoop::run_connection'))
        for st in ('io_loop::IoLoop::start', 'io_loop::IoLoop::start_tls'):
            if not ctx.has_fn(st):
                continue
            f2 = ctx.fn(st)
            cl = [n for n in H.walk(f2['hir']) if n.get('k') == 'Closure']
            sp = [n for n in H.walk(f2['hir']) if n.get('k') == 'MethodCall' and n['name'] == 'spawn']
            r.check('%s:spawn-moves-state' % st.split('::')[-1], len(cl) == 1 and len(sp) == 1 and 'thread_main' in H.term(cl[0]['body']) and H.term(cl[0]['body']).count('self') >= 1, ctx.site(st),
                    built=H.term(cl[0]['body'])[:200] if cl else None)
        # client blocking points wait on queues whose other half is in a slot
        H0 = 'io_loop::io_loop_handle::'
        ev = ctx.evaluator(0)
        t = ev.run_fn(H0 + 'IoLoopHandle::recv', [('var', 'self', -1)])
        r.check('recv:on-own-queue', 'crossbeam_channel::Receiver::recv(self.rx)' in S.show(t), ctx.site(H0 + 'IoLoopHandle::recv'), built=S.show(t))
        evs, _ = ctx.events('io_loop::ChannelSlot::new')
        hd = [e for e in evs if e.kind == 'call' and e.callee == H0 + 'IoLoopHandle::new']
        r.check('slot/handle-pairing', len(hd) == 1 and [S.show(a) for a in hd[0].args] == ['channel_id', 'mio_extras::channel::sync_channel(mio_channel_bound).0', 'crossbeam_channel::bounded(2).1'], ctx.site('io_loop::ChannelSlot::new'),
                built=[S.show(a) for a in hd[0].args] if hd else None, why="the handle's sender pairs with the slot's receiver and vice versa")

    with ctx.rule('R05.4', 'error mapping: EOF, read / write errors, malformed data, missed heartbeats', floor=6) as r:
        from rules import c01, c06, c17
        for mod, rid, pick in ((c06, 'R06.4', ('eof', 'io-error')), (c06, 'R06.3', ('row',)), (c01, 'R01.2', ('error:mapped',)), (c17, 'R17.3', ('rx-expired',))):
            sub = type(ctx)(ctx.facts, ctx.info, ctx.prop, ctx.tier, ctx.config)
            mod.run(sub)
            for rr in sub.rules:
                if rr.rid == rid:
                    for i in rr.insts:
                        if any(pk in i.key for pk in pick):
                            r.insts.append(type(i)(r.rid, r._key(i.key.replace(':', '/', 1)), i.ok, i.site, i.built, i.expected, i.why))
        A.include(ctx, r, 'c17', 'R17.2', pick=('own-timer', 'only-caller', 'rx:on-bytes', 'tx:on-every-ok-write'))
        A.include(ctx, r, 'c17', 'R17.1', pick=('rx-tx-intervals', 'max-missed'))

    with ctx.rule('R05.7', "server-initiated close: every slot and consumer is told and the stored Close keeps the server's code and text for the final error (shared with C08)", floor=5) as r:
        A.include(ctx, r, 'c08', 'R08.4')
        A.include(ctx, r, 'c08', 'R08.5', pick=('result:',))
        A.include(ctx, r, 'c08', 'R08.1', pick=('seal-dominates',))

    with ctx.rule('R05.8', 'a failing write ends the loop with IoErrorWritingSocket; only would-block is retried (shared with C01)', floor=5) as r:
        A.include(ctx, r, 'c01', 'R01.2', pick=('rows', 'row-count', 'error:', 'would-block', 'operand-identity'))
    with ctx.rule('R05.9', 'every request of a handle goes through the one send path that reads the queued close reason on failure (shared with C09 / C13)', floor=8) as r:
        A.include(ctx, r, 'c09', 'R09.3')
        A.include(ctx, r, 'c13', 'R13.3', pick=('same-fifo',))

    with ctx.rule('R05.5', 'close joins the I/O thread and reports its error in preference to the close call\'s own result', floor=5) as r:
        fnp = 'connection::Connection::close_impl'
        evs, ret = ctx.events(fnp)
        site = ctx.site(fnp)
        take = [e for e in evs if e.kind == 'call' and e.callee == 'std::option::Option::take' and S.show(e.args[0]) == 'self.join_handle']
        close = [e for e in evs if e.kind == 'call' and e.callee == 'io_loop::channel_handle::Channel0Handle::close_connection']
        join = [e for e in evs if e.kind == 'call' and e.callee == 'std::thread::JoinHandle::join']
        tries = [e for e in evs if e.kind == 'try']
        r.check('takes-handle-once', len(take) == 1, site, why='a second close (from Drop) must do nothing')
        ok = len(close) == 1 and len(join) == 1 and close[0].idx < join[0].idx and not [t for t in tries if t.term[1] == close[0].term]
        r.check('close-then-join', ok, site, built=[S.show(e.term)[:120] for e in close + join], expected='close_result = close_connection() (not yet returned); then join()',
                why='returning the close result before joining would hide the root cause and leave the thread running')
        mp = 'std::result::Result::map_err(std::thread::JoinHandle::join(std::option::Option::take(self.join_handle).Some.0), |$c0| errors::Error::IoThreadPanic)'
        r.check('join-errors-first', [S.show(t.term) for t in tries] == [mp + '?', mp + '??'], site, built=[S.show(t.term) for t in tries], expected=[mp + '?', mp + '??'],
                why="a panic becomes IoThreadPanic and the thread's own error is returned before the close result")
        rows = P.table(ctx, fnp, ['self'])
        some = [x for x in rows if x.conds and x.conds[0][1] == 'Some(_)']
        none = [x for x in rows if x.conds and x.conds[0][1] == 'None']
        r.check('result', len(some) == 1 and some[0].value_str() == 'io_loop::channel_handle::Channel0Handle::close_connection(self.channel0)' and len(none) == 1 and none[0].value_str() == 'Ok(())', site,
                built=[x.row() for x in rows])
        evs2, _ = ctx.events('<connection::Connection as std::ops::Drop>::drop')
        r.check('drop-closes', any(e.kind == 'call' and e.callee == fnp and S.unconditional(e, evs2) for e in evs2), ctx.site('<connection::Connection as std::ops::Drop>::drop'))
        ev = ctx.evaluator(0)
        t = ev.run_fn('connection::Connection::close', [('var', 'self', -1)])
        r.eq('close', S.show(t), fnp + '(self)', ctx.site('connection::Connection::close'))


def _shared_r4(ctx):
    """Rules of other properties that are necessary conditions of this one too (found by seeding round 4)."""
    with ctx.rule('R05.10', 'the I/O thread never blocks on a client queue, and its timers run on the negotiated heartbeat (shared with C03 / C15)', floor=2) as r:
        A.include(ctx, r, 'c03', 'R03.6', pick=('blocking:', 'send:try_send'))
        A.include(ctx, r, 'c15', 'R15.3', pick=('timers',))


def _shared_r5(ctx):
    """Rules of other properties that are necessary conditions of this one too (found by seeding round 5)."""
    from rules import arms as A
    with ctx.rule('R05.11', 'the connection ends once its closing frame is flushed, in every closing state, and the seal survives the write loop (shared with C08 / C01)', floor=2) as r:
        A.include(ctx, r, 'c08', 'R08.5', pick=('done:',))
        A.include(ctx, r, 'c01', 'R01.7', pick=('forward:clear',))


def _round6(ctx):
    """Rules that are necessary conditions of this property too (found by seeding round 6)."""
    from rules import arms as A
    with ctx.rule('R05.12', 'a close or EOF behind any burst is seen: one readable wake-up hands over every complete frame and reads until the transport would block (shared with C06)', floor=7) as r:
        A.include(ctx, r, 'c06', 'R06.2')


def _round7(ctx):
    """Found by seeding round 7 (minimal one-line mutations)."""
    from rules import arms as A
    with ctx.rule('R05.13', "the root cause survives the shutdown: a stale channel wake-up is not an error, and frames behind the client's own exception are discarded, not fatal (shared with C20, C07)", floor=10) as r:
        A.include(ctx, r, 'c20', 'R20.2', pick=(':stale',))
        A.include(ctx, r, 'c07', 'R07.3')
    with ctx.rule('R05.14', "heartbeats are enabled when both sides ask for them: the negotiated interval is the minimum of the two heartbeat fields (shared with C15)", floor=1) as r:
        A.include(ctx, r, 'c15', 'R15.1', pick=('heartbeat',))
