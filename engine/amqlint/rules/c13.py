"""C13 -- confirms, returns and blocked notices are forwarded verbatim, in order."""
import dispatch as D
import hir as H
import paths as P
import sym as S
import wire as W
from rules import arms as A

EXPLANATION = (
    "Forwarding is decided structurally: the Ack/Nack arms build Confirm::Ack/Nack (no cross-wiring) with delivery_tag and multiple taken from the same "
    "frame and hand it to try_send_confirm of the frame's own slot; Blocked/Unblocked go to try_send_blocked of the channel-0 slot with the server's reason; "
    "returned content reaches try_send_return of its slot (C03). Each event is forwarded synchronously inside its own arm, so order of forwarding = order of "
    "frames. The three try_send_* helpers return () (they cannot fail the loop), use try_send, and clear the listener on Full/Disconnected; listener queues "
    "are created unbounded. Registration messages travel through the same IoLoopHandle::send / MioSyncSender as every later request of that channel and the "
    "I/O side assigns the slot field (replacing, hence disconnecting, the old sender). FIFO of the hand-off channels is trusted.")
ASSUMPTIONS = ["mio_extras / crossbeam channels are FIFO", "the server answers a publish after receiving it (protocol)"]
RULE_TEXT = "obligations: arm scripts, helper path rows, listener creation sites, registration wiring; distinct = distinct keys"
LEVEL_TEXT = ("Structural decision that server notices are forwarded verbatim and synchronously to the right listener, that listeners can never fail or block the I/O "
              "loop, and that listener registration rides the channel's request FIFO. Not decided: FIFO of the queues themselves, timing.")
LEVEL_NOTE = "Trusts rustc HIR resolution, FIFO of the channel libraries, hand-written arm scripts."
TECHNIQUE = "static analysis: ordered arm scripts vs oracle, path tables of the try_send helpers, symbolic wiring of listener registration"

CS = 'io_loop::connection_state::'


def run(ctx):
    _run_main(ctx)
    _shared_r4(ctx)
    _shared_r5(ctx)
    _round7(ctx)
    _round8(ctx)
    _round10(ctx)


def _run_main(ctx):
    m, arms, _ = D.read(ctx)
    with ctx.rule('R13.1', 'verbatim forwarding: Ack->Ack, Nack->Nack, tag and multiple from the frame; blocked reason; per-slot listener', floor=4) as r:
        for key in (('Method', 'n', 'basic', 'Ack'), ('Method', 'n', 'basic', 'Nack'), ('Method', '0', 'connection', 'Blocked'), ('Method', '0', 'connection', 'Unblocked')):
            A.check_script(ctx, r, arms, key)
    with ctx.rule('R13.2', 'listeners cannot disturb the connection: helpers return (), try_send, listener cleared on failure; queues unbounded', floor=12) as r:
        for nm, fld, params in (('try_send_return', 'return_handler', ['slot', 'item']), ('try_send_confirm', 'pub_confirm_handler', ['slot', 'item']),
                                ('try_send_blocked', 'blocked_tx', ['slot', 'item'])):
            fnp = CS + nm
            fn = ctx.fn(fnp)
            site = ctx.site(fnp)
            r.eq('%s:returns-unit' % nm, fn['output'], '()', site, why='a helper that returns Result could propagate a listener failure into the I/O loop')
            rows = P.table(ctx, fnp, params)
            snd = 'crossbeam_channel::Sender::try_send(slot.%s.Some.0, item)' % fld
            none = [x for x in rows if x.conds and x.conds[0] == ('slot.' + fld, 'None')]
            okr = [x for x in rows if len(x.conds) >= 2 and x.conds[1] == (snd, 'Ok(_)')]
            fail = [x for x in rows if len(x.conds) >= 2 and x.conds[1] != (snd, 'Ok(_)')]
            r.check('%s:rows' % nm, len(none) == 1 and len(okr) == 1 and len(fail) >= 1, site, built=[x.row() for x in rows])
            r.check('%s:no-listener-discards' % nm, len(none) == 1 and not [e for e in none[0].effects if 'send' in e], site, built=[x.row() for x in none])
            r.check('%s:try_send' % nm, all(x.effects and x.effects[0] == snd for x in okr + fail), site, built=[x.effects[:1] for x in okr + fail], expected=snd)
            r.check('%s:cleared-on-failure' % nm, fail and all('slot.%s = None' % fld in x.effects for x in fail), site, built=[x.row() for x in fail],
                    expected='slot.%s = None on Full / Disconnected' % fld)
            if nm != 'try_send_blocked':
                pats = sorted(x.conds[1][1] for x in fail)
                BOTH = 'Err(crossbeam_channel::TrySendError::Full(_)) | Err(crossbeam_channel::TrySendError::Disconnected(_))'
                r.check('%s:failure-kinds' % nm, pats in ([BOTH], ['Err(_)']) and all(x.conds[1][0] == snd for x in fail), site, built=pats, expected=[BOTH],
                        why='a full and a disconnected listener queue are both listener failures (the only two kinds of TrySendError)')
        for fnp, setter in (('channel::Channel::listen_for_publisher_confirms', 'io_loop::channel_handle::ChannelHandle::set_pub_confirm_handler'),
                            ('channel::Channel::listen_for_returns', 'io_loop::channel_handle::ChannelHandle::set_return_handler'),
                            ('connection::Connection::listen_for_connection_blocked', 'io_loop::channel_handle::Channel0Handle::set_blocked_tx')):
            evs, ret = ctx.events(fnp)
            mk = [e for e in evs if e.kind == 'call' and e.callee.startswith('crossbeam_channel::') and e.callee.split('::')[-1] in ('unbounded', 'bounded')]
            st = [e for e in evs if e.kind == 'call' and e.callee == setter]
            site = ctx.site(fnp)
            r.check('%s:unbounded' % fnp.split('::')[-1], len(mk) == 1 and mk[0].callee == 'crossbeam_channel::unbounded', site, built=[S.show(e.term) for e in mk])
            r.check('%s:sender-registered' % fnp.split('::')[-1], len(st) == 1 and 'crossbeam_channel::unbounded().0' in S.show(st[0].term) and S.show(W.canon_ret(ret)) == 'Ok(crossbeam_channel::unbounded().1)', site,
                    built=[S.show(e.term) for e in st] + [S.show(ret)], expected='tx registered with the I/O thread, rx returned')
    with ctx.rule('R13.3', "registration rides the channel's request FIFO; the I/O side stores the sender in the slot of that channel", floor=8) as r:
        H0 = 'io_loop::io_loop_handle::IoLoopHandle::'
        for nm, msg in (('set_return_handler', 'SetReturnHandler'), ('set_pub_confirm_handler', 'SetPubConfirmHandler')):
            ev = ctx.evaluator(0)
            t = ev.run_fn(H0 + nm, [('var', 'self', -1), ('var', 'handler', -2)])
            r.eq('%s:via-send' % nm, S.show(t), '%ssend(self, io_loop::IoLoopMessage::%s(handler))' % (H0, msg), ctx.site(H0 + nm))
        # every request kind of a channel goes through IoLoopHandle::send -> self.tx
        for nm in ('call_nowait', 'call_message', 'get', 'consume', 'send_content_header', 'send_content_body'):
            evs, ret = ctx.events(H0 + nm)
            sends = [e for e in evs if e.kind == 'call' and (e.callee.startswith('mio_extras::channel::') or e.callee == H0 + 'send')]
            r.check('%s:same-fifo' % nm, sends and all(e.callee == H0 + 'send' and S.show(e.args[0]) == 'self' for e in sends), ctx.site(H0 + nm), built=[S.show(e.term)[:120] for e in sends],
                    expected='only IoLoopHandle::send(self, ..)')
        rows = P.table(ctx, 'io_loop::Inner::process_channel_message', ['self', 'channel_id', 'message'])
        for msg, fld in (('SetReturnHandler', 'return_handler'), ('SetPubConfirmHandler', 'pub_confirm_handler')):
            x = [y for y in rows if y.conds and y.conds[0][1] == 'io_loop::IoLoopMessage::%s(_)' % msg]
            want = 'std::option::Option::unwrap(io_loop::channel_slots::ChannelSlots::get_mut(self.chan_slots, channel_id)).%s = message.%s.0' % (fld, msg)
            r.check('io-side:%s' % msg, len(x) == 1 and want in x[0].effects, ctx.site('io_loop::Inner::process_channel_message'), built=[y.row() for y in x], expected=want)
        rows = P.table(ctx, 'io_loop::IoLoop::handle_set_blocked_tx', ['self', 'ch0_slot'])
        ok = [x for x in rows if x.conds and x.conds[0][1] == 'Ok(_)']
        r.check('io-side:blocked-listener', len(ok) == 1 and any(e.startswith('ch0_slot.blocked_tx = Some(') and 'try_recv(ch0_slot.set_blocked_rx)' in e for e in ok[0].effects),
                ctx.site('io_loop::IoLoop::handle_set_blocked_tx'), built=[x.row() for x in ok])


def _shared_r4(ctx):
    """Rules of other properties that are necessary conditions of this one too (found by seeding round 4)."""
    with ctx.rule('R13.4', 'a returned message is collected and handed over whatever its size and whether or not a listener exists (shared with C03)', floor=3) as r:
        A.include(ctx, r, 'c03', 'R03.5', pick=('Return', 'completion-sends'))


def _shared_r5(ctx):
    """Rules of other properties that are necessary conditions of this one too (found by seeding round 5)."""
    from rules import arms as A
    with ctx.rule('R13.5', 'a returned message is forwarded verbatim: every field of Basic.Return and of the header is copied to the like-named field (shared with C03)', floor=3) as r:
        A.include(ctx, r, 'c03', 'R03.4', pick=('Return::new',))


def _round7(ctx):
    """Found by seeding round 7 (minimal one-line mutations)."""
    from rules import arms as A
    with ctx.rule('R13.6', "a returned message of any size reaches the listener, and the blocked-listener queue is polled under its own token (shared with C03, C10)", floor=7) as r:
        A.include(ctx, r, 'c03', 'R03.1', pick=(':Return:',))
        A.include(ctx, r, 'c10', 'R10.7', pick=('source-token-pairs',))


def _round8(ctx):
    """Rules that are necessary conditions of this property too (found by seeding round 8)."""
    from rules import arms as A
    with ctx.rule('R13.7', 'a new blocked-listener is handed over with a blocking send (never dropped with the caller left waiting) (shared with C09)', floor=1) as r:
        A.include(ctx, r, 'c09', 'R09.3', pick=('set_blocked_tx',))


def _round10(ctx):
    """Rules of other properties that are necessary conditions of this one too (found by seeding round 10: two cooperating sites, indirection)."""
    from rules import arms as A
    with ctx.rule('R13.8', "a new listener replaces the old one: the receiving end handed out is the only one of its queue -- never stored, never cloned (shared with C05)", floor=2) as r:
        A.include(ctx, r, 'c05', 'R05.3', pick=('endpoint-storage', 'endpoints-never-cloned'))
