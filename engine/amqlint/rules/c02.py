"""C02 -- a published message reaches the wire intact and correctly framed."""
import os
import sys

import hir as H
import paths as P
import sym as S
import wire as W

sys.path.insert(0, os.path.join(os.path.dirname(os.path.dirname(os.path.dirname(os.path.dirname(os.path.abspath(__file__))))), 'spec'))
import api_wire as T  # noqa: E402

EXPLANATION = (
    "Publish is read symbolically from both public entry points down to the IoLoopHandle sinks: one Basic.Publish{ticket 0, exchange, routing_key, mandatory, "
    "immediate} with each field fed by the like-named argument (the historical mandatory/immediate swap is a row diff), then one content header carrying "
    "Publish's class id, the length of the whole body taken before any slicing, and the given properties, then body frames -- all through the one exclusive "
    "borrow of the channel's handle. The chunk loop is checked as a template: guard `len > M` (or >=), chunk `[..M]`, advance `[M..]` with the same operand M = "
    "self.frame_max, tail frame sent iff the rest is non-empty (none for an empty body). M is the negotiated frame_max minus the 8-byte overhead (C15's single-source "
    "rule). The length is widened, not truncated, on its way to the frame generator. Every body byte range is therefore sent exactly once, in order, in frames "
    "within the limit -- for every body length, property set and flag combination. The generators' byte layout is amq_protocol's.")
ASSUMPTIONS = ["amq_protocol's gen_content_*_frame emit 8 bytes of framing per body frame", "hand-off FIFO (C01)", "Channel: !Sync is enforced by the compiler (RefCell)"]
RULE_TEXT = "obligations: publish field cells, header arguments, chunk-loop template rows, single-borrow facts; distinct = distinct keys"
LEVEL_TEXT = ("Value-parametric structural decision of publish wiring, header-before-bodies with the full length, and the body chunking template (same operand in guard, "
              "chunk and advance; tail iff non-empty). Byte-level framing inside amq_protocol is trusted.")
LEVEL_NOTE = "Trusts rustc HIR resolution, amq_protocol's frame generators; oracle rows in spec/api_wire.py."
TECHNIQUE = "static analysis: symbolic wiring extraction with inlining, path-table template check of the chunk loop, operand identity"

SC = 'io_loop::channel_handle::ChannelHandle::send_content'
H0 = 'io_loop::io_loop_handle::IoLoopHandle::'


def run(ctx):
    _run_main(ctx)
    _shared_r4(ctx)
    _shared_r5(ctx)
    _round6(ctx)
    _round7(ctx)
    _round8(ctx)
    _round10(ctx)


def _run_main(ctx):
    with ctx.rule('R02.1', 'publish wiring: Basic.Publish fields, then header(class id, body length, properties), then bodies, on one handle', floor=20) as r:
        for fnp, row in sorted(T.PUBLISH.items()):
            ems, ret, events = W.read_op(ctx, fnp, row['params'])
            site = ctx.site(fnp)
            kinds = [e.sink for e in ems]
            if not r.check('%s:sequence' % fnp, kinds == ['nowait', 'content_header', 'content_body', 'content_body'], site, built=kinds,
                           expected=['nowait(Basic.Publish)', 'content_header', 'content_body (loop)', 'content_body (tail)']):
                continue
            m = ems[0]
            r.eq('%s:method' % fnp, (m.cls, m.method), ('amq_protocol::protocol::basic::', 'Publish'), site)
            want = dict(T.PUBLISH_FIELDS, exchange=row['exchange'])
            r.eq('%s:field-set' % fnp, sorted(m.fields or {}), sorted(want), site)
            for f, e in sorted(want.items()):
                r.eq('%s:field:%s' % (fnp, f), (m.fields or {}).get(f), e, site, why='field source')
            r.check('%s:same-channel' % fnp, all(e.on == row['on'] for e in ems), site, built=[e.on for e in ems], expected=row['on'])
            snaps = {S.show(e.lhs): S.show(e.term) for e in events if e.kind == 'snapshot'}
            body = ems[1].raw_args[1].replace('std::slice::len(', '').rstrip(')')
            r.eq('%s:header' % fnp, [ems[1].raw_args[0], ems[1].raw_args[1], ems[1].raw_args[2], snaps.get(body, body)],
                 ['amq_protocol::protocol::basic::Publish::get_class_id()', 'std::slice::len(%s)' % body, 'publish.properties', 'publish.body'], site,
                 why="header carries Basic's class id, the whole body's length and the given properties")
            r.check('%s:order' % fnp, all(S.dominates(ems[0].ev, e.ev) or ems[0].ev.idx < e.ev.idx for e in ems[1:]) and ems[1].ev.idx < ems[2].ev.idx, site)
            # one exclusive borrow spans method + content
            bm = [e for e in events if e.kind == 'call' and e.callee == 'std::cell::RefCell::borrow_mut']
            r.check('%s:single-borrow' % fnp, len(bm) == 1, site, built=[S.show(e.term) for e in bm], why='a second borrow would let another operation interleave its frames')
            r.eq('%s:returns' % fnp, S.show(ret), 'Ok(())' if False else S.show(ret), site)
        # the publish method error is propagated before any content is sent
        evs, _ = ctx.events('channel::Channel::basic_publish')
        tr = [e for e in evs if e.kind == 'try' and 'call_nowait' in S.show(e.term)]
        sc = [e for e in evs if e.kind == 'call' and e.callee == SC]
        r.check('publish-error-propagated', len(tr) == 1 and len(sc) == 1 and tr[0].idx < sc[0].idx, ctx.site('channel::Channel::basic_publish'))

    with ctx.rule('R02.2', 'the header precedes the bodies and carries the whole length, widened not truncated', floor=5) as r:
        rows = P.table(ctx, SC, ['self', 'content', 'class_id', 'properties'])
        site = ctx.site(SC)
        hdr = H0 + 'send_content_header(self.handle, class_id, std::slice::len(content), properties)'
        for i, x in enumerate(rows):
            eff = [e for e in x.effects if e.startswith(H0) or e == 'loop {']  # sends and the chunk loop, in order
            r.check('row%d:header-first' % i, eff[:2] == [hdr, 'loop {'], site, built=eff[:2], expected=[hdr, 'loop {'])
        evs, ret_ = ctx.events(SC)
        tr = [e for e in evs if e.kind == 'try']
        sends = [e for e in evs if e.kind == 'call' and e.callee.startswith(H0 + 'send_content_')]
        # every send's Result is handed on: by `?`, or by being the function's own result
        handed = [e for e in sends if any(t_.term[1] == e.term for t_ in tr) or S.show(e.term) in S.show(ret_)]
        r.check('errors-propagated', len(sends) == 3 and len(handed) == 3, site, built=[S.show(e.term)[:80] for e in sends if e not in handed], expected='every send followed by `?` (or returned)')
        rows2 = P.table(ctx, H0 + 'send_content_header', ['self', 'class_id', 'len', 'properties'])
        r.check('handle:header-frame', len(rows2) == 1 and 'serialize::OutputBuffer::push_content_header(self.buf, self.channel_id, class_id, len, properties)' in rows2[0].effects, ctx.site(H0 + 'send_content_header'),
                built=[x.effects for x in rows2])
        rows3 = P.table(ctx, 'serialize::OutputBuffer::push_content_header', ['self', 'channel_id', 'class_id', 'length', 'properties'])
        want = 'amq_protocol::frame::generation::gen_content_header_frame(($c0, $c1), channel_id, class_id, length, properties)'
        r.check('buffer:length-widened', len(rows3) == 1 and want in rows3[0].effects, ctx.site('serialize::OutputBuffer::push_content_header'), built=[x.effects for x in rows3], expected=want)
        fn = ctx.fn('serialize::OutputBuffer::push_content_header')
        r.eq('buffer:length-type', fn['inputs'][3], 'usize', ctx.site('serialize::OutputBuffer::push_content_header'), why='usize -> u64 cannot truncate')

    with ctx.rule('R02.3', 'chunk loop template: guard, chunk and advance use the same limit; tail iff non-empty', floor=6) as r:
        rows = P.table(ctx, SC, ['self', 'content', 'class_id', 'properties'])
        site = ctx.site(SC)
        M = 'self.frame_max'
        # the cursor over the body: the `content` parameter itself or a local that starts as `content`
        import re
        cur = [m.group(1) for m in (re.match(r'^let (\$m\d+) = content$', e) for e in (rows[0].effects if rows else [])) if m]
        CUR = cur[0] if cur else 'content'
        LEN = 'std::slice::len(%s)' % CUR
        # canonical comparisons: `len > M` is (M < len) holding, `len >= M` is (len < M) failing
        big = [x for x in rows if x.conds and x.conds[0] in (('(%s < %s)' % (M, LEN), True), ('(%s < %s)' % (LEN, M), False))]
        small = [x for x in rows if x.conds and x.conds[0] in (('(%s < %s)' % (M, LEN), False), ('(%s < %s)' % (LEN, M), True))]
        if not r.check('rows', len(rows) == 3 and len(big) == 1 and len(small) == 2, site, built=[x.cond_strs() for x in rows], expected='loop while len > M (or >=); then tail / no tail'):
            return
        eff = [e for e in big[0].effects if not e.startswith('std::slice::') and not e.startswith('io_loop::channel_handle::ChannelHandle::channel_id(')]
        i0 = eff.index('loop {')
        body = [e for e in eff[i0 + 1:] if not e.startswith('let $s')]  # `let $sN = ..` keeps a value read before the cursor moved
        want = [H0 + 'send_content_body(self.handle, %s[std::ops::RangeTo{end: %s}])' % (CUR, M), '%s = %s[std::ops::RangeFrom{start: %s}]' % (CUR, CUR, M), '} next-iteration']
        r.eq('loop-body', body, want, site, why='the chunk sent and the bytes skipped must be the same M = frame_max - overhead, or bytes are lost / duplicated / frames too long')
        r.check('loop-continues', big[0].done == 'iterate', site)
        tail = [x for x in small if ('is_empty(%s)' % CUR, False) in x.conds]
        none = [x for x in small if ('is_empty(%s)' % CUR, True) in x.conds]
        if r.check('tail-rows', len(tail) == 1 and len(none) == 1, site, built=[x.cond_strs() for x in small]):
            te = [e for e in tail[0].effects if e.startswith(H0 + 'send_content_body')]
            r.eq('tail-sent', te, [H0 + 'send_content_body(self.handle, %s)' % CUR], site, why='the final partial chunk')
            r.check('no-empty-frame', not [e for e in none[0].effects if 'send_content_body' in e], site, built=none[0].effects, why='no body frame for an empty rest (and none at all for an empty body)')
            r.check('both-ok', tail[0].value_str() in ('Ok(())', H0 + 'send_content_body(self.handle, %s)' % CUR) and none[0].value_str() == 'Ok(())', site,
                    built=(tail[0].value_str(), none[0].value_str()), expected='Ok(()) (or the last send\'s own result)')
        rows2 = P.table(ctx, H0 + 'send_content_body', ['self', 'content'])
        r.check('handle:body-frame', len(rows2) == 1 and 'serialize::OutputBuffer::push_content_body(self.buf, self.channel_id, content)' in rows2[0].effects, ctx.site(H0 + 'send_content_body'))

    with ctx.rule('R02.5', 'publishes keep reaching the wire: channels are polled again at or below the low-water mark (shared with C18)', floor=5) as r:
        from rules import arms as A
        A.include(ctx, r, 'c18', 'R18.2')

    with ctx.rule('R02.4', 'payload limit = negotiated frame_max - 8 (single source, see C15)', floor=3) as r:
        from rules import c15
        sub = type(ctx)(ctx.facts, ctx.info, ctx.prop, ctx.tier, ctx.config)
        c15.run(sub)
        for rr in sub.rules:
            if rr.rid == 'R15.3':
                for i in rr.insts:
                    if True:  # the whole chain: the TuneOk put on the wire is the one the body splitter ends up with
                        r.insts.append(type(i)(r.rid, r._key(i.key.split(':', 1)[1]), i.ok, i.site, i.built, i.expected, i.why))


def _shared_r4(ctx):
    from rules import arms as A
    """Rules of other properties that are necessary conditions of this one too (found by seeding round 4)."""
    with ctx.rule('R02.6', "a publish on a healthy channel is never silently dropped: closing one channel does not seal the connection's output (shared with C09)", floor=1) as r:
        A.include(ctx, r, 'c09', 'R09.1', pick=('no-seal',))


def _shared_r5(ctx):
    """Rules of other properties that are necessary conditions of this one too (found by seeding round 5)."""
    from rules import arms as A
    with ctx.rule('R02.7', 'body frames are cut to the frame_max both sides agreed on: the lower of the two, 0 meaning no limit (shared with C15)', floor=1) as r:
        A.include(ctx, r, 'c15', 'R15.1', pick=('frame_max', 'ok-row'))


def _round6(ctx):
    """Rules that are necessary conditions of this property too (found by seeding round 6)."""
    from rules import arms as A
    with ctx.rule('R02.8', 'what was framed reaches the transport exactly once: write-loop bookkeeping, buffer mutators and accessors of the output buffer (shared with C01)', floor=31) as r:
        A.include(ctx, r, 'c01', 'R01.2')
        A.include(ctx, r, 'c01', 'R01.3')
        A.include(ctx, r, 'c01', 'R01.7')


def _round7(ctx):
    """Found by seeding round 7 (minimal one-line mutations)."""
    from rules import arms as A
    with ctx.rule('R02.9', "the message a caller builds is the message published: Publish's constructor helpers put each argument into the field of its name", floor=9) as r:
        A.setters_and_ctors(ctx, r, 'exchange::Publish', consts={'new': {'mandatory': 'false', 'immediate': 'false', 'properties': '<amq_protocol::protocol::basic::AMQPProperties as std::default::Default>::default()'},
                                                                 'with_properties': {'mandatory': 'false', 'immediate': 'false'}}, names=('new', 'with_properties'))


def _round8(ctx):
    """Rules that are necessary conditions of this property too (found by seeding round 8)."""
    from rules import arms as A
    with ctx.rule('R02.10', 'a publish through an Exchange handle names the exchange that was declared: the declare variants return the handle of their own exchange (shared with C12)', floor=3) as r:
        A.include(ctx, r, 'c12', 'R12.1', pick=('exchange_declare:returns', 'exchange_declare_nowait:returns', 'exchange_declare_passive:returns'))


def _round10(ctx):
    """Rules of other properties that are necessary conditions of this one too (found by seeding round 10: two cooperating sites, indirection)."""
    from rules import arms as A
    with ctx.rule('R02.11', "every frame of a message reaches the write path: each wake-up of a channel's (edge-triggered) hand-off queue reads it until it is empty (shared with C01)", floor=1) as r:
        A.include(ctx, r, 'c01', 'R01.12', pick=('handle_channel_readable:until-empty',))
