"""C07 -- server protocol violations are contained: never mis-delivered, never a panic."""
import os
import sys

import dispatch as D
import hir as H
import paths as P
import sym as S
from core import Unrecognised
from rules import c03, panics

sys.path.insert(0, os.path.join(os.path.dirname(os.path.dirname(os.path.dirname(os.path.dirname(os.path.abspath(__file__))))), 'spec'))
import dispatch as _unused  # noqa: F401,E402  (engine module shadows; the oracle is loaded by path below)
import importlib.util  # noqa: E402

_spec = importlib.util.spec_from_file_location('dispatch_oracle', os.path.join(os.path.dirname(os.path.dirname(os.path.dirname(os.path.dirname(os.path.abspath(__file__))))), 'spec', 'dispatch.py'))
O = importlib.util.module_from_spec(_spec)
_spec.loader.exec_module(O)

EXPLANATION = (
    "Static containment argument for hostile frame sequences. (1) Panic inventory: every panic-capable MIR site (panic machinery calls with their "
    "macro, overflow/bounds Assert terminators, a curated list of panicking std entry points) in every function reachable in the call graph from the "
    "I/O thread entry points and transport callbacks is enumerated and must be discharged by a mechanically re-checked guard/ownership rule or a "
    "reasoned table entry; an undischarged site is a violation. (2) The frame dispatch of ConnectionState::process is read as an as-built table and "
    "simulated with first-match semantics over the whole AMQP method universe x {channel 0, other} and every frame kind, and compared with a "
    "hand-written oracle (ignore / FrameUnexpected / 530 / 540 / handler). (3) The state gate, the slot and consumer-tag lookups (errors, never "
    "unwraps), the client-exception sequence (Close with the code, seal, state) and the collector's rejection of out-of-sequence content are "
    "checked structurally. (4) Wire-controlled allocation sizes and the length of the client exception's reply text are bounded. The verdict is "
    "about code shape and so covers every frame sequence; panics inside dependencies on their own invariants are trusted.")
ASSUMPTIONS = [
    "dependencies (amq_protocol, mio, crossbeam, std) do not panic on their own invariants; only the curated API list is modelled",
    "usize is at least 64 bits (two overflow discharges rely on it)",
    "allocation failure for sizes the type system allows is out of scope",
    "the reasoned entries of spec/panic_discharge.py were confirmed by reading (one line each)",
]
RULE_TEXT = ("obligations: one per panic-capable site in the I/O set, one per (frame kind | class::method, channel-0-ness) of the dispatch universe, "
             "per lookup helper, per client-exception step, per allocation-size site; distinct = distinct instance keys")

LEVEL_TEXT = ("Panic-freedom of the I/O thread is decided as an exhaustive inventory: every panic-capable MIR site reachable in the call graph from the "
              "thread entry points must be discharged by a re-checked guard/ownership rule or a reasoned entry; the dispatch of every frame kind and "
              "every AMQP method x channel-0-ness is compared with a hand-written oracle; lookups, the client-exception sequence and wire-controlled "
              "sizes are checked structurally. Covers all frame sequences because it is about code shape; dependencies' internal panics are trusted.")
LEVEL_NOTE = "Trusts rustc's MIR construction and callee resolution, the curated list of panicking std APIs, the reasoned discharge entries, >= 64-bit usize."
TECHNIQUE = "static analysis: MIR call-graph reachability + panic-site inventory with guard-dominance discharges; as-built dispatch table vs oracle"


def run(ctx):
    _run_main7(ctx)
    _round7(ctx)
    _round10(ctx)


def _run_main7(ctx):
    panics.inventory(ctx, 'R07.1', 'every panic-capable site reachable from the I/O thread is discharged', floor_sites=35, floor_funcs=150)
    r072(ctx)
    r073(ctx)
    r074(ctx)
    r075(ctx)
    r076(ctx)
    c03.r031(ctx, 'R07.7')
    c03.r035(ctx, 'R07.8')
    with ctx.rule('R07.9', 'Header and Body completion arms agree (unknown tag is an error in both)', floor=1) as r:
        from rules import arms as A
        A.include(ctx, r, 'c03', 'R03.2')


def r072(ctx):
    with ctx.rule('R07.2', 'dispatch table of ConnectionState::process equals the oracle for every frame kind / method / channel-0-ness', floor=140) as r:
        m, arms, _ = D.read(ctx)
        site = ctx.site(D.PROCESS, m)
        wild = [a for a in arms if any(k[0] == '*' for k in a.keys)]
        r.check('no-wildcard-arm', not wild, site, built=[a.pat for a in wild], why='a wildcard arm would silently swallow new or misplaced frame kinds')
        for (kind, ch0), want in sorted(O.FRAMES.items(), key=str):
            for c0 in ([True, False] if ch0 is None else [ch0]):
                a = D.first_match(arms, kind, c0, None, None)
                got = D.classify(a) if a else None
                r.eq('%s/%s' % (kind, 'ch0' if c0 else 'chN'), got, want, ctx.site(D.PROCESS, a.node) if a else site)
        for cls, meths in sorted(D.UNIVERSE.items()):
            for meth in meths:
                for c0 in (True, False):
                    want = O.expected_method(D.UNIVERSE, c0, cls, meth)
                    a = D.first_match(arms, 'Method', c0, cls, meth)
                    got = D.classify(a) if a else None
                    key = 'Method/%s/%s::%s' % ('ch0' if c0 else 'chN', cls, meth)
                    if want is None:
                        r.bad(key, site, built=got, expected='an oracle row', why='oracle gap (fail closed)')
                    else:
                        r.eq(key, got, want, ctx.site(D.PROCESS, a.node) if a else site, why='first-match arm for this frame')
        # every exception arm passes the frame's description and the tabled code; codes are the AMQP constants
        for a in arms:
            for c in a.calls('client_exception'):
                code = S.show(c.args[2]).split('::')[-1]
                r.check('exception-code:%s' % a.pat[:60], code in O.HARD_ERROR_CODES, ctx.site(D.PROCESS, c.node), built=code)


def r073(ctx):
    with ctx.rule('R07.3', 'state gate: frames are acted on only in Steady; ignored after a client exception; FrameUnexpected when closing/closed', floor=4) as r:
        fn = ctx.fn(D.PROCESS)
        ms = [n for n in H.walk(fn['hir']) if n.get('k') == 'Match' and n.get('src') == 'Normal' and H.term(n['scrut']) == 'self']
        if not r.check('gate-found', len(ms) >= 1, ctx.site(D.PROCESS)):
            return
        g = ms[0]
        tbl = {}
        for a in g['arms']:
            for alt in H.pat_alternatives(a['pat']):
                tbl[panics.variant_of(H.pat_term(alt))] = gate_body(ctx, a['body'])
        site = ctx.site(D.PROCESS, g)
        r.eq('Steady', tbl.get('Steady'), 'ch0_slot', site)
        r.eq('ClientException', tbl.get('ClientException'), 'return Ok(())', site, why='after a client exception further frames are ignored')
        fu = 'return Err(errors::Error::FrameUnexpected)'
        r.eq('ServerClosing', tbl.get('ServerClosing'), fu, site)
        r.eq('ClientClosed', tbl.get('ClientClosed'), fu, site)
        # the gate dominates the frame match
        m, arms, events = D.read(ctx)
        ev_m = [e for e in events if e.kind == 'match' and e.sp == m['sp']]
        r.check('gate-dominates-dispatch', len(ev_m) == 1 and any(gd[0] == g['sp'] and gd[1].startswith('arms:') for gd in ev_m[0].guards), site,
                built=[gd[3] for gd in ev_m[0].guards] if ev_m else None, expected='`match frame` only under the Steady outcome of the gate')


def gate_body(ctx, body):
    """what a gate arm does, in the reader's canonical terms: `ch0_slot`, `return Ok(())`, `return Err(..)`"""
    ev = ctx.evaluator(0)
    t = ev.eval(body, {}, [], None, [])
    rets = [e for e in ev.events if e.kind == 'ret']
    if rets:
        return 'return ' + S.show(rets[0].term)
    return S.show(t)


def r074(ctx):
    with ctx.rule('R07.4', 'slot and consumer-tag lookups fail as errors (never unwrap): bogus channel id, unknown tag, duplicate tag', floor=8) as r:
        for nm, inner in (('slot_get', 'get'), ('slot_get_mut', 'get_mut'), ('slot_remove', 'remove')):
            fnp = 'io_loop::connection_state::' + nm
            ctx.fn(fnp)
            ev = ctx.evaluator(0)
            t = ev.run_fn(fnp, [('var', 'inner', -1), ('var', 'channel_id', -2)])
            want = 'std::option::Option::ok_or(io_loop::channel_slots::ChannelSlots::%s(inner.chan_slots, channel_id), errors::Error::ReceivedFrameWithBogusChannelId{channel_id: channel_id})' % inner
            r.eq(nm, S.show(t), want, ctx.site(fnp), why='an unknown channel id must become ReceivedFrameWithBogusChannelId carrying that id')
        m, arms, _ = D.read(ctx)
        # every slot lookup result in an arm is propagated with `?` (or is the documented CloseOk race probe)
        for a in arms:
            for c in c03.slot_calls(a):
                tries = [e for e in a.events if e.kind == 'try' and e.term[1] == c.term]
                is_probe = a.keys == [('Method', 'n', 'channel', 'CloseOk')] and c.callee.endswith('slot_remove')
                key = 'propagated:%s:%s' % (a.keys[0][2] + '::' + a.keys[0][3] if a.keys[0][0] == 'Method' else a.keys[0][0], c.callee.split('::')[-1])
                if is_probe:
                    r.ok(key + ':closeok-race-probe', ctx.site(D.PROCESS, c.node), built='if let Ok(slot) = slot_remove(..): documented Close/CloseOk race')
                else:
                    r.check(key, len(tries) >= 1, ctx.site(D.PROCESS, c.node), built=S.show(c.term), expected='slot lookup followed by `?`')
        # duplicate consumer tag: entry API, Occupied -> DuplicateConsumerTag
        a = [x for x in arms if x.keys == [('Method', 'n', 'basic', 'ConsumeOk')]][0]
        rets = [e for e in a.events if e.kind == 'ret']
        want = 'Err(errors::Error::DuplicateConsumerTag{channel_id: frame.Method.0, consumer_tag: frame.Method.1.Basic.0.ConsumeOk.0.consumer_tag})'
        TAG = 'frame.Method.1.Basic.0.ConsumeOk.0.consumer_tag'
        CONS = [S.show(c.args[0]) for c in a.calls('HashMap::insert')]
        has = lambda e: [s_ for s_, p_ in S.lits_at(e) if isinstance(p_, bool) and s_.startswith('std::collections::HashMap::contains_key(') and s_.endswith(', %s)' % TAG)]
        r.check('duplicate-tag', len(rets) == 1 and S.show(rets[0].term) == want and any(p_ is True and s_.startswith('std::collections::HashMap::contains_key(') and s_.endswith(', %s)' % TAG) for s_, p_ in S.lits_at(rets[0])),
                ctx.site(D.PROCESS, a.node), built=[S.show(x.term) for x in rets], expected=want + ' where the tag is already in the table')
        ent = [e for e in a.calls() if e.callee in ('std::collections::HashMap::entry', 'std::collections::HashMap::contains_key')]
        r.check('duplicate-tag:entry-key', len(ent) == 1 and S.show(ent[0].args[1]) == TAG, ctx.site(D.PROCESS, a.node),
                built=[S.show(e.term) for e in ent])
        ins = a.calls('HashMap::insert')
        r.check('duplicate-tag:no-overwrite', len(ins) == 1 and S.show(ins[0].args[1]) == TAG and any(p_ is False and s_.startswith('std::collections::HashMap::contains_key(') and s_.endswith(', %s)' % TAG) for s_, p_ in S.lits_at(ins[0])),
                ctx.site(D.PROCESS, a.node), built=[S.show(c.term)[:160] for c in ins], expected='the consumer is stored only where the tag is not in the table yet',
                why='an unguarded HashMap::insert would silently replace an existing consumer')


def r075(ctx):
    with ctx.rule('R07.5', 'client exception: Connection.Close{code, class 0, method 0} on channel 0, then seal, then state ClientException -> Error::ClientException', floor=5) as r:
        fnp = 'io_loop::connection_state::ConnectionState::client_exception'
        events, ret = ctx.events(fnp)
        site = ctx.site(fnp)
        push = [e for e in events if e.kind == 'call' and e.callee == 'io_loop::Inner::push_method']
        seal = [e for e in events if e.kind == 'call' and e.callee == 'io_loop::Inner::seal_writes']
        asg = [e for e in events if e.kind == 'assign' and S.show(e.lhs) == 'self']
        if not r.check('shape', len(push) == 1 and len(seal) == 1 and len(asg) == 1, site, built=[S.show(e.term) for e in push + seal + asg]):
            return
        want = ('io_loop::Inner::push_method(inner, 0, amq_protocol::protocol::connection::AMQPMethod::Close(amq_protocol::protocol::connection::Close{'
                'class_id: 0, method_id: 0, reply_code: amq_protocol::protocol::AMQPHardError::get_id(reply_code), reply_text: reply_text}))')
        r.eq('close-frame', S.show(push[0].term), want, ctx.site(fnp, push[0].node))
        r.check('order', S.dominates(push[0], seal[0]) and S.dominates(seal[0], asg[0]) and not [g for e in (push[0], seal[0], asg[0]) for g in e.guards if g[2] != 'inline'], site,
                built=[e.idx for e in (push[0], seal[0], asg[0])], expected='push Close; seal; state = ClientException (unconditionally, in this order)')
        r.eq('state', S.show(asg[0].term), 'io_loop::connection_state::ConnectionState::ClientException', site)
        rows = P.table(ctx, 'io_loop::IoLoop::run_connection', ['self', 'stream', 'ch0_slot'])
        ce = [x for x in rows if x.cond_strs() and 'ConnectionState::ClientException' in x.cond_strs()[-1]]
        r.check('result', len(ce) == 1 and ce[0].value_str() == 'Err(errors::Error::ClientException)', ctx.site('io_loop::IoLoop::run_connection'),
                built=[x.row() for x in ce])


ALLOC = ('std::vec::Vec::with_capacity', 'std::vec::Vec::reserve', 'std::vec::Vec::reserve_exact', 'std::vec::Vec::resize',
         'std::string::String::with_capacity', 'std::string::String::reserve', 'std::collections::HashMap::with_capacity',
         'std::collections::VecDeque::with_capacity', 'input_buffer::InputBuffer::with_capacity')
ALLOC_OK = {
    ('serialize::serialize', 'std::vec::Vec::resize'): 'size requested by the frame generator for a client-built frame',
    ('serialize::OutputBuffer::drain_into_new_buf', 'std::vec::Vec::with_capacity'): 'client side: length of a buffer the client already holds',
}


def r076(ctx):
    with ctx.rule('R07.6', 'wire-controlled sizes and texts are bounded before use', floor=3) as r:
        seen = ctx.cg.reachable([x for x in panics.IO_ROOTS if ctx.has_fn(x)])
        n = 0
        for p in sorted(seen):
            fn = ctx.fns[p]
            root = panics.hir_root_of(ctx, p)
            if fn['dk'] == 'Closure' or 'hir' not in fn:
                continue
            for nd in H.walk(fn['hir']):
                if nd.get('k') in ('Call', 'MethodCall'):
                    cp = S.norm_path(H.callee_decl(nd) or '')
                    if cp in ALLOC:
                        n += 1
                        key = (p, cp)
                        args = H.call_args(nd)
                        size = H.term(args[-1]) if cp.endswith('with_capacity') else H.term(args[1])
                        if key in ALLOC_OK:
                            r.ok('alloc:%s:%s' % (p, cp.split('::')[-1]), ctx.site(p, nd), built='%s -- %s' % (size, ALLOC_OK[key]))
                        else:
                            r.bad('alloc:%s:%s' % (p, cp.split('::')[-1]), ctx.site(p, nd), built=size,
                                  expected='no allocation sized by a value the server controls (or a tabled, reasoned site)',
                                  why='an allocation size on the I/O thread that is not in the reasoned table; wire integers (body_size) can be up to 2^64-1')
        r.check('alloc-sites-seen', n >= 1, None, built=n)
        # 32-bit frame size -> reserve: informational
        r.info('frame-size-reserve', ctx.site('frame_buffer::Inner::read_from'), built='prepare_reserve(max(MIN_READ, frame_size)) with frame_size <= 2^32+7',
               why='bounded by the 32-bit size field; outside the statement\'s list')
        # reply text of the client exception fits a short string
        ok, why = panics.Checkers(ctx).run('reply_text_truncation_safe')
        fnp = 'io_loop::connection_state::ConnectionState::client_exception'
        r.check('reply-text:bounded', ok, ctx.site(fnp), built=why, expected='reply_text truncated to <= 255 bytes before it is put into Connection.Close',
                why='a short string longer than 255 bytes is serialized with a wrapped length byte: the last frame would be malformed')
        events, _ = ctx.events(fnp)
        tr = [e for e in events if e.kind == 'call' and e.callee == 'std::string::String::truncate']
        st = [e for e in events if e.kind == 'struct' and e.term[1].endswith('connection::Close')]
        r.check('reply-text:truncate-before-use', len(tr) == 1 and len(st) == 1 and tr[0].idx < st[0].idx and S.show(tr[0].args[0]) == S.show(dict(st[0].term[2])['reply_text']),
                ctx.site(fnp), built=[S.show(e.term) for e in tr], expected='truncate(reply_text, ..) precedes Close{reply_text}')


def _round7(ctx):
    """Found by seeding round 7 (minimal one-line mutations)."""
    from rules import arms as A
    with ctx.rule('R07.10', "the Close carrying the hard-error code is written before the loop ends, and a cancelled consumer's tag is unknown afterwards (shared with C08, C11)", floor=6) as r:
        A.include(ctx, r, 'c08', 'R08.5', pick=('done:',))
        A.include(ctx, r, 'c11', 'R11.2', pick=('basic::Cancel',))
    with ctx.rule('R07.11', "a violation in the same read as OpenOk is a violation: errors of the frames replayed after the handshake propagate (shared with C16)", floor=1) as r:
        A.include(ctx, r, 'c16', 'R16.8', pick=('errors-propagated',))


def _round10(ctx):
    """Rules of other properties that are necessary conditions of this one too (found by seeding round 10: two cooperating sites, indirection)."""
    from rules import arms as A
    with ctx.rule('R07.12', "a frame behind the server's CloseOk still ends the connection with its error: only the end of stream is excused once the client's close has completed (shared with C08)", floor=1) as r:
        A.include(ctx, r, 'c08', 'R08.6', pick=('eof-after-clientclosed-is-ok',))
