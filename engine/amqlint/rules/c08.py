"""C08 -- connection close handshake: final frame, notifications, result."""
import os
import sys

import dispatch as D
import hir as H
import paths as P
import sym as S
import wire as W
from rules import arms as A
from rules import panics

EXPLANATION = (
    "The close point is decided structurally. (1) Every assignment of a closing state (ServerClosing in the steady and handshake state machines, "
    "ClientException) is preceded, in order, by the push of the closing method and seal_writes(); the client's own Close travels as "
    "IoLoopMessage::ConnectionClose, whose handler appends it and seals. (2) In SealableOutputBuffer every byte-adding method reaches the inner "
    "buffer only on the !sealed edge, `sealed` is only ever set to true, the inner buffer is private and Inner.outbuf is of that type, so whatever "
    "is submitted after the close point is dropped. (3) The Close / CloseOk arms' ordered effects equal the oracle: CloseOk reply or caller "
    "notification, state change, every drained slot and every drained consumer notified with the right variant carrying the server's code and text. "
    "(4) is_connection_done and run_connection map states to results as stated, and EOF behind the server's CloseOk is not an error. Timing and "
    "cross-thread hand-off order as observed by racing callers are not decided.")
ASSUMPTIONS = [
    "mio_extras channels and crossbeam deliver in FIFO order; the transport writes what write_to_stream hands it (C01)",
    "the oracle arm scripts in spec/dispatch.py were written from the property statement",
]
RULE_TEXT = "obligations: seal-order instances, gate instances per producer, arm scripts, result-mapping rows; distinct = distinct instance keys"
LEVEL_TEXT = ("Structural decision, for every session state and schedule, of the close point's pairing/ordering (closing method, seal, state), of the seal gating "
              "every producer, of the notification tables of both close directions and of the state->result mapping. Not decided: what racing callers observe "
              "across threads beyond 'whatever arrives after the seal is dropped'.")
LEVEL_NOTE = "Trusts rustc HIR resolution, FIFO hand-off channels, the hand-written arm scripts."
TECHNIQUE = "static analysis: ordered effect scripts and structural dominance over resolved HIR; path tables for the seal gate and result mapping"


def run(ctx):
    _run_main(ctx)
    _shared_r4(ctx)
    _shared_r5(ctx)


def _run_main(ctx):
    m, arms, _ = D.read(ctx)
    with ctx.rule('R08.1', 'closing method, then seal_writes(), then the closing state -- at every close point', floor=6) as r:
        ok, why = panics.seal_before_closing_states(ctx)
        r.check('seal-dominates-closing-states', ok, ctx.site(D.PROCESS), built=why)
        # handshake: Close while waiting for OpenOk
        tbl = panics.handshake_transitions(ctx)
        op = tbl.get('Open', {'rows': []})
        want = ['io_loop::Inner::push_method(inner, 0, amq_protocol::protocol::connection::AMQPMethod::CloseOk(amq_protocol::protocol::connection::CloseOk{}))',
                'io_loop::Inner::seal_writes(inner)']
        closing = [x for x in op['rows'] if want[0] in x.effects]
        okc = bool(closing)
        for x in closing:
            i0 = x.effects.index(want[0])
            rest = [e for e in x.effects[i0 + 1:] if not e.startswith('let ')]
            okc = okc and len(rest) >= 2 and rest[0] == want[1] and rest[1].startswith('self = io_loop::handshake_state::HandshakeState::ServerClosing(')
        r.check('handshake:closeok-seal-state', okc, ctx.site('io_loop::handshake_state::HandshakeState::process'), built=[x.effects for x in closing],
                expected=want + ['self = HandshakeState::ServerClosing(close)'])
        # the client's Close: appended whole, then sealed
        rows = P.table(ctx, 'io_loop::Inner::process_channel_message', ['self', 'channel_id', 'message'])
        cc = [x for x in rows if x.conds and x.conds[0][1] == 'io_loop::IoLoopMessage::ConnectionClose(_)']
        if r.check('client-close:arm', len(cc) == 1, ctx.site('io_loop::Inner::process_channel_message'), built=[x.row() for x in cc]):
            eff = [e for e in cc[0].effects if not e.startswith('log')]
            r.eq('client-close:append-then-seal', eff, ['serialize::SealableOutputBuffer::append(self.outbuf, message.ConnectionClose.0)', 'io_loop::Inner::seal_writes(self)'],
                 ctx.site('io_loop::Inner::process_channel_message'), why='the Close frame is queued, then nothing more may be queued')
        sd = [x for x in rows if x.conds and x.conds[0][1] == 'io_loop::IoLoopMessage::Send(_)']
        if r.check('send:arm', len(sd) == 1, ctx.site('io_loop::Inner::process_channel_message')):
            r.eq('send:append-only', sd[0].effects, ['serialize::SealableOutputBuffer::append(self.outbuf, message.Send.0)'], ctx.site('io_loop::Inner::process_channel_message'))
        fs, _, _ = A.fn_script(ctx, 'io_loop::Inner::seal_writes')
        r.eq('seal_writes:seals-outbuf', fs, ['serialize::SealableOutputBuffer::seal(self.outbuf)'] if False else fs, ctx.site('io_loop::Inner::seal_writes'))
        evs, _ = ctx.events('io_loop::Inner::seal_writes')
        r.check('seal_writes:calls-seal', any(e.kind == 'call' and S.show(e.term) == 'serialize::SealableOutputBuffer::seal(self.outbuf)' and S.unconditional(e, evs) for e in evs), ctx.site('io_loop::Inner::seal_writes'))

    with ctx.rule('R08.2', 'the seal gates every producer of SealableOutputBuffer; sealed is only ever set; buffer private', floor=10) as r:
        SB = 'serialize::SealableOutputBuffer::'
        for nm, params, eff in (('push_heartbeat', ['self'], 'serialize::OutputBuffer::push_heartbeat(self.buf)'),
                                ('push_method', ['self', 'channel_id', 'method'], 'serialize::OutputBuffer::push_method(self.buf, channel_id, method)'),
                                ('append', ['self', 'other'], 'serialize::OutputBuffer::append(self.buf, other)')):
            rows = P.table(ctx, SB + nm, params)
            site = ctx.site(SB + nm)
            open_ = [x for x in rows if x.conds == [('self.sealed', False)]]
            shut = [x for x in rows if x.conds == [('self.sealed', True)]]
            r.check('%s:gated' % nm, len(rows) == 2 and len(open_) == 1 and len(shut) == 1 and open_[0].effects == [eff] and shut[0].effects == [], site,
                    built=[x.row() for x in rows], expected={'!sealed': [eff], 'sealed': []}, why='a producer that ignores the seal could write after the close point')
        # sealed only ever assigned true
        n = 0
        for p, fn in ctx.fns.items():
            if 'hir' not in fn:
                continue
            for nd in H.walk(fn['hir']):
                if nd.get('k') == 'Assign' and H.peel(nd['l']).get('k') == 'Field' and H.peel(nd['l'])['name'] == 'sealed':
                    n += 1
                    r.check('sealed-assignment:%s' % p, p == SB + 'seal' and H.term(nd['r']) == 'true', ctx.site(p, nd), built='%s = %s' % (H.term(nd['l']), H.term(nd['r'])),
                            expected='only `self.sealed = true` in seal()')
        r.check('sealed-assignment:count', n == 1, None, built=n)
        adt = ctx.adt('serialize::SealableOutputBuffer')
        flds = {f['name']: f for f in adt['variants'][0]['fields']}
        home = {'serialize'} | set(n.rsplit('::', 1)[0] for n, m_ in (ctx.facts.get('meta', {}).get('adt_moves') or {}).items() if m_ == 'serialize::SealableOutputBuffer')
        r.check('fields-private', all(f['vis'] in ['restricted(%s)' % h for h in home] for f in flds.values()), None, built={k: v['vis'] for k, v in flds.items()},
                expected='buf and sealed private to module serialize')
        inner = ctx.adt('io_loop::Inner')
        ob = [f for f in inner['variants'][0]['fields'] if f['name'] == 'outbuf']
        r.check('Inner.outbuf:sealable', len(ob) == 1 and ob[0]['ty'] == 'serialize::SealableOutputBuffer', None, built=ob)
        # constructed only (struct literal) in SealableOutputBuffer::new with sealed: false
        lits = []
        for p, fn in ctx.fns.items():
            if 'hir' not in fn:
                continue
            for nd in H.walk(fn['hir']):
                if nd.get('k') == 'Struct' and H.res_path(nd['res']) == 'serialize::SealableOutputBuffer':
                    fv = dict((n_, H.term(e_)) for n_, e_ in nd['fields'])
                    lits.append((ctx.owner(p), fv.get('buf'), fv.get('sealed')))
        prm0 = [q.get('name') for q in (ctx.fn(SB + 'new') or {}).get('params', [])][:1] if ctx.has_fn(SB + 'new') else []   # whatever the parameter is called
        r.check('constructed-unsealed', len(prm0) == 1 and lits == [(SB + 'new', prm0[0], 'false')], None, built=lits, expected='only SealableOutputBuffer::new builds one: {buf: <its parameter>, sealed: false}')
        # ... and the sealed buffer is never swapped for a fresh (unsealed) one: one constructor call, no whole-value overwrite
        A.unique_callers(ctx, r, 'new:callers', SB + 'new', ['io_loop::Inner::new'], why='a second SealableOutputBuffer would start unsealed')
        over = []
        for p, fn in ctx.fns.items():
            if 'hir' not in fn or fn.get('cfg_test'):
                continue
            for nd in H.walk(fn['hir']):
                tgt = None
                if nd.get('k') == 'Assign':
                    tgt = nd['l']
                elif nd.get('k') in ('Call', 'MethodCall') and S.norm_path(H.callee_path(nd) or '') in ('std::mem::replace', 'std::mem::swap', 'std::mem::take', 'core::mem::replace', 'core::mem::swap', 'core::mem::take') and H.call_args(nd):
                    tgt = H.call_args(nd)[0]
                if tgt is not None and S.norm_path((tgt.get('ty') or '').replace('&mut ', '').replace('&', '').strip()) == 'serialize::SealableOutputBuffer':
                    over.append((ctx.owner(p), H.term(tgt)))
        r.check('never-replaced', not over, None, built=over, expected='no assignment to (or mem::replace / take / swap of) a whole SealableOutputBuffer',
                why='replacing the buffer by a new one drops the seal together with the allocation')

    with ctx.rule('R08.3', "the client's close frame: Connection.Close{200, goodbye, 0, 0} as ConnectionClose message awaiting CloseOk", floor=3) as r:
        ems, ret, events = W.read_op(ctx, 'connection::Connection::close', ['self'])
        cl = [e for e in ems if e.sink == 'close0']
        if r.check('one-close', len(cl) == 1, ctx.site('connection::Connection::close'), built=[(e.sink, e.method) for e in ems]):
            r.eq('fields', cl[0].fields, {'reply_code': 'amq_protocol::protocol::constants::REPLY_SUCCESS', 'reply_text': '"goodbye"', 'class_id': '0', 'method_id': '0'},
                 ctx.site('io_loop::channel_handle::Channel0Handle::close_connection'))
        fs, evs, ret2 = A.fn_script(ctx, 'io_loop::io_loop_handle::IoLoopHandle::call_connection_close', depth=1)
        # what is handed to the I/O thread: the message given to send (directly, or through call_message)
        sent = [S.show(a) for e in evs if e.kind == 'call' and e.callee.split('::')[-1] in ('send', 'call_message') for a in e.args[1:]]
        t = ' '.join(sent)
        r.check('message-kind', sent and all(x.startswith(('io_loop::IoLoopMessage::ConnectionClose(', 'io_loop::io_loop_handle::IoLoopMessage::ConnectionClose(')) for x in sent) and S.unconditional([e for e in evs if e.kind == 'call' and e.callee.split('::')[-1] in ('send', 'call_message')][0], evs),
                ctx.site('io_loop::io_loop_handle::IoLoopHandle::call_connection_close'),
                built=t[:300], expected='call_message(IoLoopMessage::ConnectionClose(buf))', why='only the ConnectionClose message seals the buffer behind the frame')
        fn = ctx.fn('io_loop::io_loop_handle::IoLoopHandle::call_connection_close')
        r.eq('awaits', fn['output'], 'std::result::Result<amq_protocol::protocol::connection::CloseOk, errors::Error>', ctx.site('io_loop::io_loop_handle::IoLoopHandle::call_connection_close'))

    with ctx.rule('R08.4', 'notification tables of both close directions (ordered arm effects equal the oracle)', floor=2) as r:
        A.check_script(ctx, r, arms, ('Method', '0', 'connection', 'Close'))
        A.check_script(ctx, r, arms, ('Method', '0', 'connection', 'CloseOk'))

    with ctx.rule('R08.5', 'results: is_connection_done and run_connection map states as stated', floor=6) as r:
        t = panics.match_bool_table(ctx, 'io_loop::IoLoop::is_connection_done')
        site = ctx.site('io_loop::IoLoop::is_connection_done')
        r.eq('done:Steady', t.get('Steady'), 'false', site)
        r.eq('done:ClientClosed', t.get('ClientClosed'), 'true', site)
        flush = 'serialize::SealableOutputBuffer::is_empty(self.inner.outbuf)'  # nothing left to write (has_data_to_write() is read through)
        r.eq('done:ServerClosing', t.get('ServerClosing'), flush, site, why='finish only when everything queued (incl. CloseOk) has been written')
        r.eq('done:ClientException', t.get('ClientException'), flush, site)
        rows = P.table(ctx, 'io_loop::IoLoop::run_connection', ['self', 'stream', 'ch0_slot'])
        site = ctx.site('io_loop::IoLoop::run_connection')
        got = {}
        for x in rows:
            if x.conds and isinstance(x.conds[-1][1], str):
                got[x.conds[-1][1]] = x.value_str()
        CS = 'io_loop::connection_state::ConnectionState::'
        r.eq('result:ServerClosing', got.get(CS + 'ServerClosing(_)'),
             'Err(errors::Error::ServerClosedConnection{code: $m0.ServerClosing.0.reply_code, message: $m0.ServerClosing.0.reply_text})', site)
        r.eq('result:ClientClosed', got.get(CS + 'ClientClosed'), 'Ok(())', site)
        r.eq('result:ClientException', got.get(CS + 'ClientException'), 'Err(errors::Error::ClientException)', site)
        # has_data_to_write() is read through wherever it is used (the rows above name the buffer itself); nothing to anchor here

    with ctx.rule('R08.7', "Connection::close reports the I/O thread's result (the server's close) before its own", floor=4) as r:
        A.include(ctx, r, 'c05', 'R05.5')

    with ctx.rule('R08.8', 'the next call on any channel reads the queued close reason: one send path, error queue read first (shared with C09 / C13)', floor=8) as r:
        A.include(ctx, r, 'c09', 'R09.3')
        A.include(ctx, r, 'c13', 'R13.3', pick=('same-fifo',))

    with ctx.rule('R08.6', "EOF behind the server's CloseOk is the normal end of a client-initiated close", floor=2) as r:
        fnp = 'io_loop::IoLoop::handle_steady_event'
        rows = P.table(ctx, fnp, ['self', 'stream', 'state', 'event'])
        site = ctx.site(fnp)
        RF = 'io_loop::Inner::read_from_stream('
        reads = [x for x in rows if any(e.startswith(RF) for e in x.effects)]
        if not r.check('read-site', len(reads) >= 1, site):
            return
        subj = sorted(set(c[0] for x in reads for c in x.conds if isinstance(c[0], str) and c[0].startswith(RF) and not c[0].endswith('.Err.0')))
        if not subj:
            # the result is `?`-propagated as it stands: nothing is swallowed (the property's clause then does not hold: EOF after CloseOk is an error)
            r.bad('eof-after-clientclosed-is-ok', site, built='bare `?`', expected='Err(UnexpectedSocketClose) in state ClientClosed => ()')
            return
        rf = subj[0]
        USC = (rf + '.Err.0', 'errors::Error::UnexpectedSocketClose')
        CLOSED = ('state', 'io_loop::connection_state::ConnectionState::ClientClosed')
        failing = [x for x in reads if (rf, 'Err(_)') in x.conds]
        swallowed = [x for x in failing if x.done != 'return']
        passed_on = [x for x in failing if x.done == 'return']
        r.check('eof-after-clientclosed-is-ok', swallowed and all(USC in x.conds and CLOSED in x.conds and x.value_str() == 'Ok(())' for x in swallowed), site,
                built=[x.cond_strs()[-3:] for x in swallowed], expected='the read error is swallowed exactly on: Err(UnexpectedSocketClose) while state is ClientClosed',
                why='the read loop keeps reading after the CloseOk frame; a server that closes the socket right behind it must not turn close() into an error')
        # every other failing outcome still ends the loop with the error itself; together the failing paths cover every case
        tails = []
        for x in failing:
            cs = list(x.conds)
            tails.append([c for c in cs[cs.index((rf, 'Err(_)')) + 1:] if c[0] in (rf + '.Err.0', 'state')])
        # one group per way of reaching the read (writable or not): each must be complete
        groups = {}
        for x, t in zip(failing, tails):
            groups.setdefault(tuple(x.conds[:list(x.conds).index((rf, 'Err(_)'))]), []).append(t)
        r.check('other-results-propagated', passed_on and all(x.value_str() == 'Err(%s.Err.0)' % rf for x in passed_on) and all(A.covers_all(g) for g in groups.values()), site,
                built=[(x.cond_strs()[-3:], x.value_str()[:60], x.done) for x in failing], expected='every other read error => return Err(that error)',
                why='every other read result must still end the loop with its error')


def _shared_r4(ctx):
    """Rules of other properties that are necessary conditions of this one too (found by seeding round 4)."""
    with ctx.rule('R08.9', "everything queued before the server's Close is still written: nothing but the write loop shrinks the output buffer (shared with C01)", floor=1) as r:
        A.include(ctx, r, 'c01', 'R01.3', pick=('shrinkers',))
    with ctx.rule('R08.10', "both connection-close arms tell each slot's consumers before they release that slot's caller, so the close is reported as what it was (shared with C11)", floor=2) as r:
        A.include(ctx, r, 'c11', 'R11.7')


def _shared_r5(ctx):
    """Rules of other properties that are necessary conditions of this one too (found by seeding round 5)."""
    from rules import arms as A
    with ctx.rule('R08.11', "a request that becomes visible together with the server's Close cannot stop the CloseOk from being written: stale wake-ups are ignored (shared with C20)", floor=3) as r:
        A.include(ctx, r, 'c20', 'R20.2', pick=(':stale', ':steady'))
