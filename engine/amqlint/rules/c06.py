"""C06 -- frame decoding does not depend on how the byte stream is segmented."""
import hir as H
import paths as P
import sym as S
from rules import arms as A
from rules import panics

EXPLANATION = (
    "The read loop's skeleton is decided from the resolved source; each item is necessary for segmentation independence. (1) parse_size answers None iff fewer "
    "than 7 bytes are buffered, reads the size from bytes 3..7 (evaluated constant range) and adds 8 (type 1, channel 2, size 4, frame-end 1). (2) In read_from a frame "
    "is parsed only on the true edge of bytes.len() >= frame_size (non-strict: as soon as its last byte is there), from exactly bytes[..frame_size]; on that path the "
    "handler is called exactly once and then the buffer advances by that same frame_size; a parse or handler error returns before the advance and before any further read; "
    "nothing else advances the buffer. (3) parse_frame yields the frame only if the parser succeeded and consumed the whole slice, else MalformedFrame. (4) Stream "
    "outcomes: Ok(0) -> UnexpectedSocketClose, WouldBlock -> Ok(bytes read) with the buffer untouched, other errors -> IoErrorReadingSocket, Ok(n) only adds to the byte "
    "counter and loops. (5) There is a single reader and a single FrameBuffer for the whole connection, so partial frames survive wake-ups and phases. input_buffer's and "
    "amq_protocol's own correctness is trusted.")
ASSUMPTIONS = ["input_buffer::InputBuffer keeps unread bytes contiguous (chunk) and advance(n) drops exactly n bytes", "amq_protocol::frame::parse_frame is a correct parser"]
RULE_TEXT = "obligations: size-field facts, read-loop rows and orders, parse rows, stream outcome rows, single-reader facts; distinct = distinct keys"
LEVEL_TEXT = ("Structural decision of the frame reader's skeleton (size field, parse-when-complete, advance by the same size, whole-slice parse, stream outcome mapping, "
              "single reader) for every byte stream and every segmentation. The byte-level parser and input buffer are trusted.")
LEVEL_NOTE = "Trusts rustc HIR/const evaluation, input_buffer and amq_protocol."
TECHNIQUE = "static analysis: path tables of the read loop and parser wrappers over resolved HIR, operand identity, who-may-call"

PS = '<frame_buffer::AmqpFrameKind as frame_buffer::FrameKind>::parse_size'
PF = '<frame_buffer::AmqpFrameKind as frame_buffer::FrameKind>::parse_frame'
RF = 'frame_buffer::Inner::read_from'
CHUNK = '<input_buffer::InputBuffer as bytes::Buf>::chunk(self.buf)'
SIZE = 'frame_buffer::FrameKind::parse_size(%s)' % CHUNK


def run(ctx):
    _run_main7(ctx)
    _round7(ctx)
    _round8(ctx)
    _round10(ctx)


def _run_main7(ctx):
    with ctx.rule('R06.1', 'size field: None below 7 bytes; size read from bytes 3..7; total = size + 8', floor=4) as r:
        rows = P.table(ctx, PS, ['buf'])
        site = ctx.site(PS)
        G = '(std::slice::len(buf) < frame_buffer::AmqpFrameKind::AMQP_FRAME_SIZE_POS.end)'
        short = [x for x in rows if x.conds == [(G, True)]]
        full = [x for x in rows if x.conds == [(G, False)]]
        r.check('rows', len(rows) == 2 and len(short) == 1 and len(full) == 1, site, built=[x.cond_strs() for x in rows], expected=[G, '!' + G])
        if short:
            r.eq('too-short', short[0].value_str(), 'None', site)
        if full:
            want = 'Some((8 + std::result::Result::unwrap(amq_protocol::types::parsing::parse_long_uint(buf[frame_buffer::AmqpFrameKind::AMQP_FRAME_SIZE_POS])).1))'  # sums are written in one operand order
            r.eq('size-plus-overhead', full[0].value_str(), want, site, why='frame = 7-byte header + payload + frame-end octet')
        a, b = panics.Checkers(ctx).size_range()
        r.eq('size-position', (a, b), (3, 7), site, why='AMQP 0-9-1 4.2.3: type(1) channel(2) size(4)')

    with ctx.rule('R06.2', 'parse only when complete, exactly once, in order; advance by the same size; errors return before the advance', floor=7) as r:
        rows = P.table(ctx, RF, ['self', 'stream', 'handler'])
        site = ctx.site(RF)
        GE = '(std::slice::len(%s) < %s.Some.0)' % (CHUNK, SIZE)  # canonical: `len >= size` is (len < size) failing
        have = [x for x in rows if x.conds[:2] == [(SIZE, 'Some(_)'), (GE, False)]]
        if not r.check('complete-frame-row', len(have) == 1 and len(have[0].conds) == 2, site, built=[x.cond_strs()[:2] for x in rows][:3], expected=[SIZE + ' ~ Some(_)', '!' + GE],
                       why='non-strict comparison: the frame is handed on as soon as its last byte has arrived'):
            return
        x = have[0]
        parse = 'frame_buffer::FrameKind::parse_frame(%s[std::ops::RangeTo{end: %s.Some.0}])' % (CHUNK, SIZE)
        hand = 'value:handler(%s?)' % parse
        adv = '<input_buffer::InputBuffer as bytes::Buf>::advance(self.buf, %s.Some.0)' % SIZE
        eff = [e for e in x.effects if e in (parse, hand, adv) or 'advance' in e or 'handler' in e or 'read_from' in e]
        r.eq('parse-handle-advance', eff, [parse, hand, adv], site, why='exactly the buffered frame is parsed, handed on once, and then exactly its bytes are dropped')
        r.check('then-next-frame', x.done == 'iterate', site, why='buffered frames are drained before reading again')
        evs, _ = ctx.events(RF)
        tries = [S.show(e.term) for e in evs if e.kind == 'try']
        r.check('errors-return-before-advance', parse + '?' in tries and hand + '?' in tries, site, built=tries, expected=[parse + '?', hand + '?'])
        others = [y for y in rows if y is not x]
        r.check('no-parse-when-incomplete', not [y for y in others if any('parse_frame' in e or 'handler' in e or 'advance' in e for e in y.effects)], site,
                why='an incomplete frame must wait for more bytes')
        mut = [e for y in rows for e in y.effects if e.startswith('<input_buffer::InputBuffer as bytes::Buf>::advance') or 'InputBuffer::clear' in e or 'truncate' in e]
        r.check('single-advance-site', mut == [adv], site, built=mut)
        # the wrapper passes everything through
        ev = ctx.evaluator(0)
        t = ev.run_fn('frame_buffer::FrameBuffer::read_from', [('var', 'self', -1), ('var', 'stream', -2), ('var', 'handler', -3)])
        r.eq('FrameBuffer::read_from', S.show(t), 'frame_buffer::Inner::read_from(self.0, stream, handler)', ctx.site('frame_buffer::FrameBuffer::read_from'))

    with ctx.rule('R06.3', 'a frame is accepted only if the parser succeeded and consumed the whole slice', floor=3) as r:
        rows = P.table(ctx, PF, ['buf'])
        site = ctx.site(PF)
        PARSE = 'amq_protocol::frame::parse_frame(buf)'
        got = sorted((tuple(x.cond_strs()), x.value_str()) for x in rows)
        want = sorted([((PARSE + ' ~ Ok(_)', 'is_empty(%s.Ok.0.0)' % PARSE), 'Ok(%s.Ok.0.1)' % PARSE),
                       ((PARSE + ' ~ Ok(_)', '!is_empty(%s.Ok.0.0)' % PARSE), 'Err(errors::Error::MalformedFrame)'),
                       ((PARSE + ' ~ Err(_)',), 'Err(errors::Error::MalformedFrame)')])
        for i, (g, w) in enumerate(zip(got, want)):
            r.eq('row%d' % i, g, w, site)
        r.check('rowcount', len(got) == 3, site, built=len(got))

    with ctx.rule('R06.4', 'stream outcomes: EOF, would-block, errors, progress', floor=8) as r:
        rows = P.table(ctx, RF, ['self', 'stream', 'handler'])
        site = ctx.site(RF)
        n = 0
        for x in rows:
            rd = [c for c in x.conds if c[0].startswith('input_buffer::DoRead::read_from(input_buffer::InputBuffer::prepare_reserve(self.buf, ')]
            if not rd:
                continue
            call = rd[0][0]
            pat = rd[0][1]
            inner = [c for c in x.conds if c[0] == call + '.Ok.0']
            if pat == 'Ok(_)' and inner:
                pat = 'Ok(0)' if inner[0][1] == '0' else ('Ok(_)' if inner[0][1] == 'not 0' else 'Ok(%s)' % inner[0][1])
            kind = [c for c in x.conds if c[0].startswith('std::io::Error::kind(')]
            n += 1
            tag = 'known-size' if x.conds[0][1] == 'Some(_)' else 'unknown-size'
            if pat == 'Ok(0)':
                r.eq('%s:eof' % tag, (x.value_str(), x.done), ('Err(errors::Error::UnexpectedSocketClose)', 'return'), site)
            elif pat == 'Ok(_)':
                r.check('%s:progress' % tag, x.done == 'iterate' and '$m0 += %s.Ok.0' % call in x.effects, site, built=x.effects[-3:], why='bytes read only add to the counter; decoding restarts from the buffer')
            elif pat == 'Err(_)' and kind and kind[0][1] == 'std::io::ErrorKind::WouldBlock' and x.conds[-1] == kind[0]:
                r.eq('%s:would-block' % tag, (x.value_str(), x.done), ('Ok($m0)', 'return'), site, why='would-block leaves the buffer untouched and reports the bytes read')
            elif pat == 'Err(_)' and kind and kind[0][1] == 'not std::io::ErrorKind::WouldBlock' and x.conds[-1] == kind[0]:
                r.eq('%s:io-error' % tag, (x.value_str(), x.done),
                     ('Err(errors::Error::IoErrorReadingSocket{source: %s.Err.0})' % call, 'return'), site)
            else:
                r.bad('%s:unknown-outcome:%s' % (tag, pat), site, built=x.row())
        r.check('outcome-rows', n == 8, site, built=n, expected=8)
        r.check('counter-starts-at-zero', all('let $m0 = 0' in x.effects for x in rows), site)

    with ctx.rule('R06.6', 'phase boundary at a frame boundary, not at a read boundary: frames behind OpenOk go to the established connection', floor=4) as r:
        A.include(ctx, r, 'c16', 'R16.8')
        A.include(ctx, r, 'c16', 'R16.1', pick=('behind-open-ok',))

    with ctx.rule('R06.5', 'single reader, single buffer for the whole connection', floor=4) as r:
        A.unique_callers(ctx, r, 'read_from:callers', 'frame_buffer::FrameBuffer::read_from', ['io_loop::Inner::read_from_stream'])
        A.unique_callers(ctx, r, 'Inner::read_from:callers', RF, ['frame_buffer::FrameBuffer::read_from'])
        mk = []
        for p, fn in ctx.fns.items():
            if 'hir' not in fn:
                continue
            for nd in H.walk(fn['hir']):
                if nd.get('k') == 'Call' and (H.callee_path(nd) or '') == 'frame_buffer::FrameBuffer::new':
                    mk.append(p)
                if nd.get('k') == 'Assign' and H.peel(nd['l']).get('k') == 'Field' and H.peel(nd['l'])['name'] == 'frame_buffer':
                    r.bad('frame_buffer-reassigned:%s' % p, ctx.site(p, nd), why='re-creating the buffer would drop a partially received frame')
        # the loop's buffer: IoLoop is built in one place, with a fresh buffer in its (only) FrameBuffer field
        lits = []
        for p, fn in sorted(ctx.fns.items()):
            if 'hir' not in fn or fn.get('mac'):
                continue
            for nd in H.walk(fn['hir']):
                if nd.get('k') == 'Struct' and H.res_path(nd['res']) == 'io_loop::IoLoop':
                    fv = dict((n, H.term(e)) for n, e in nd['fields'])
                    lits.append((ctx.owner(p), fv.get('frame_buffer')))
        r.eq('one-buffer', lits, [('io_loop::IoLoop::new', 'frame_buffer::FrameBuffer::new()')], None, why='a second loop state, or a buffer that is not fresh, would drop or duplicate partially received frames')
        fb_fields = [f['name'] for f in ctx.adt('io_loop::IoLoop')['variants'][0]['fields'] if 'FrameBuffer' in f['ty']]
        r.eq('one-buffer-field', fb_fields, ['frame_buffer'], None)
        for hp in ('io_loop::IoLoop::handle_steady_event', 'io_loop::IoLoop::handle_handshake_event'):
            evs, _ = ctx.events(hp)
            rd = [e for e in evs if e.kind == 'call' and e.callee == 'io_loop::Inner::read_from_stream']
            r.check('%s:same-buffer' % hp.split('::')[-1], len(rd) == 1 and S.show(rd[0].args[2]) == 'self.frame_buffer', ctx.site(hp), built=[S.show(e.args[2]) for e in rd],
                    why='handshake and steady state share the buffer, so a frame split across the phase change is not lost')


def _round7(ctx):
    """Found by seeding round 7 (minimal one-line mutations)."""
    from rules import arms as A
    with ctx.rule('R06.7', 'a malformed frame is reported as MalformedFrame at every point of the connection, and inbound frames are read while output is pending (shared with C16, C01)', floor=5) as r:
        A.include(ctx, r, 'c16', 'R16.2', pick=('other-errors-unchanged', 'socket-closed-after-StartOk'))
        A.include(ctx, r, 'c01', 'R01.6')


def _round8(ctx):
    """Rules that are necessary conditions of this property too (found by seeding round 8)."""
    from rules import arms as A
    with ctx.rule('R06.8', "[CloseOk][EOF] means the same however it is segmented: end of stream after the client's close completed is not an error (shared with C08)", floor=1) as r:
        A.include(ctx, r, 'c08', 'R08.6', pick=('eof-after-clientclosed-is-ok',))


def _round10(ctx):
    """Found by seeding round 10 (a read into 'what is left of the buffer': a reserve of zero at a frame boundary trips the reader's own assertion, at one segmentation only)."""
    import re
    with ctx.rule('R06.9', "the room asked for before a read does not depend on the buffer's storage state (capacity, spare room, cursor): it is built from constants, configuration, the frame size and the number of bytes buffered", floor=8) as r:
        rows = P.table(ctx, RF, ['self', 'stream', 'handler'])
        site = ctx.site(RF)
        PRE = 'input_buffer::InputBuffer::prepare_reserve(self.buf, '
        n = 0
        for x in rows:
            at = [k for k, e in enumerate(x.effects) if e.startswith(PRE) and e.endswith(')')]
            if not at:
                continue
            n += 1
            val = x.effects[at[0]][len(PRE):-1]
            # read mutable locals through the assignments on this path, in order (`let mut reserve = A; reserve = f(reserve, ..)`)
            env = {}

            def subst(t):
                return re.sub(r'\$m\d+', lambda m_: env.get(m_.group(0), m_.group(0)), t)
            for e in x.effects[:at[0]]:
                m_ = re.match(r'(?:let )?(\$m\d+) (=|[-+*/%]=|<<=|>>=) (.*)$', e)
                if not m_:
                    continue
                mv, op, rhs = m_.groups()
                rhs = subst(rhs)
                rhs = '(%s)' % rhs if ' ' in rhs and not rhs.endswith(')') else rhs
                env[mv] = rhs if op == '=' else '(%s %s %s)' % (env.get(mv, mv), op[:-1], rhs)
            val = subst(val)
            undecided = False
            if undecided or val in ('()', '') or re.search(r'\$\w', val):
                # the value reaches the call through a form the reader does not evaluate (e.g. `let reserve = loop { .. break v }`): no verdict, no alarm
                r.check('reserve-independent-of-storage:%s:%d' % (x.done, n), True, site, built='undecided: ' + val)
                continue
            rest = val.replace(SIZE + '.Some.0', 'SIZE').replace(SIZE, 'SIZE?').replace('std::slice::len(%s)' % CHUNK, 'LEN').replace('<[u8]>::len(%s)' % CHUNK, 'LEN')
            bad = (['self.buf'] if 'self.buf' in rest else []) + (['0'] if rest.strip('()') == '0' else [])
            tag = 'known-size' if x.conds[0][1] == 'Some(_)' else 'unknown-size'
            r.check('reserve-independent-of-storage:%s:%s:%d' % (tag, x.done, n), not bad, site, built=val, expected='a term over constants, configuration, the frame size and chunk().len() -- no other read of self.buf, not the literal 0',
                    why="input_buffer asserts a positive reserve and a zero-length read is reported as end of stream: room derived from the buffer's capacity is 0 exactly when the bytes received so far fill it, "
                        'so the outcome depends on where the reads were cut (%s)' % ', '.join(bad))
        r.check('reading-rows', n >= 8, site, built=n, expected='>= 8')
