"""C19 -- an AMQP URL means the same connection parameters for every URL."""
import dispatch as D
import hir as H
import paths as P
import sym as S
from rules import arms as A

EXPLANATION = (
    "URL decoding is decided as tables, parametric in the URL's components. populate_host_and_port: host defaults to localhost when absent or empty; scheme amqp -> port "
    "default 5672, amqps -> 5671 (an explicit port wins), anything else -> InvalidUrlScheme. decode, read as an ordered effect script over the default options: the first path "
    "segment, percent-decoded, becomes the virtual host unless empty; a second segment -> ExtraUrlPathSegments; credentials: Auth::Plain iff the user is non-empty or a "
    "password is present, each defaulting to guest, both percent-decoded; then -- after the credentials on every path, so auth_mechanism=external overrides them -- the query "
    "pairs: heartbeat (u16), channel_max (u16), connection_timeout (u64 milliseconds), auth_mechanism (external -> Auth::External, else UrlInvalidAuthMechanism), anything "
    "else -> UrlUnsupportedParameter, each parse failure with its own UrlParse* error and each value flowing to the like-named option. Scheme gate: the plain-TCP path is "
    "reached only on the allow_insecure edge, else InsecureUrl; Connection::open/open_tuned pass false, insecure_open* pass true. The decoded options are passed unchanged to "
    "the stream-opening functions. The url and percent-encoding crates' own parsing is trusted.")
ASSUMPTIONS = ["the url crate's component accessors (host, port, username, password, path_segments, query_pairs) and percent_encoding::percent_decode are correct"]
RULE_TEXT = "obligations: table rows of host/port defaults, decode script steps, scheme-gate rows, pass-through facts, default option fields; distinct = distinct keys"
LEVEL_TEXT = ("Structural, component-parametric decision of URL decoding (defaults, percent-decoding, query parameters and their errors, precedence of auth_mechanism over "
              "credentials), of the secure-only scheme gate and of the options' unchanged flow into the connection. URL tokenisation by the url crate is trusted.")
LEVEL_NOTE = "Trusts rustc HIR resolution, the url and percent-encoding crates."
TECHNIQUE = "static analysis: path tables and ordered effect scripts with structural guards over resolved HIR, compared with hand-written tables"

U = 'connection::amqp_url::'
OPT = 'connection_options::ConnectionOptions::'
QP = 'url::Url::query_pairs(url)'
K = 'iter_item(%s).0' % QP
V = 'iter_item(%s).1' % QP
SEG = "<std::str::Split<'a, P> as std::iter::Iterator>::next(url::Url::path_segments(url).Some.0)"
WC = '<std::result::Result<T, E> as snafu::ResultExt<T, E>>::with_context'


def parse_to(ty, err):
    return 'std::result::Result::map_err(std::str::parse::<%s>(%s), |$c0| errors::Error::%s{source: $c0, url: url})?' % (ty, V, err)


DECODE_SCRIPT = [
    'case(url::Url::path_segments(url) ~ Some(_)) > unless(is_empty(std::option::Option::unwrap(%s))) > $m0 = %svirtual_host($m0, %sdecode::percent_decode(std::option::Option::unwrap(%s)))' % (SEG, OPT, U, SEG),
    'case(url::Url::path_segments(url) ~ Some(_)) > case(%s ~ Some(_)) > return Err(errors::Error::ExtraUrlPathSegments{url: url})' % SEG,
    'if((!is_empty(url::Url::username(url)) || (url::Url::password(url) ~ Some(_)))) > $m0 = %sauth($m0, auth::Auth::Plain{password: %sdecode::percent_decode(std::option::Option::unwrap_or(url::Url::password(url), "guest")), '
    'username: %sdecode::percent_decode(if is_empty(url::Url::username(url)) {"guest"} else {url::Url::username(url)})})' % (OPT, U, U),
    'for(%s) > case(%s ~ "heartbeat") > $m0 = %sheartbeat($m0, %s)' % (QP, K, OPT, parse_to('u16', 'UrlParseHeartbeat')),
    'for(%s) > case(%s ~ "channel_max") > $m0 = %schannel_max($m0, %s)' % (QP, K, OPT, parse_to('u16', 'UrlParseChannelMax')),
    'for(%s) > case(%s ~ "connection_timeout") > $m0 = %sconnection_timeout($m0, Some(std::time::Duration::from_millis(%s)))' % (QP, K, OPT, parse_to('u64', 'UrlParseConnectionTimeout')),
    'for(%s) > case(%s ~ "auth_mechanism") > if(("external" == %s)) > $m0 = %sauth($m0, auth::Auth::External)' % (QP, K, V, OPT),
    'for(%s) > case(%s ~ "auth_mechanism") > unless(("external" == %s)) > return Err(errors::Error::UrlInvalidAuthMechanism{mechanism: %s, url: url})' % (QP, K, V, V),
    'for(%s) > case(%s ~ not "heartbeat" | "channel_max" | "connection_timeout" | "auth_mechanism") > return Err(errors::Error::UrlUnsupportedParameter{parameter: %s, url: url})' % (QP, K, K),
]


def run(ctx):
    _run_main6(ctx)
    _round6(ctx)
    _round7(ctx)
    _round10(ctx)


def _run_main6(ctx):
    _run_main(ctx)
    _shared_r4(ctx)


def _run_main(ctx):
    with ctx.rule('R19.1', 'decoding table: host/port defaults, vhost, credentials, query parameters and their errors', floor=20) as r:
        fnp = U + 'populate_host_and_port'
        rows = P.table(ctx, fnp, ['url'])
        site = ctx.site(fnp)
        # host missing: no host at all, or a host that is the empty string (the two ways `!has_host || host == ""` holds)
        HAS, EMPTY = 'url::Url::has_host(url)', '(Some("") == url::Url::host_str(url))'
        r.check('rows', len(rows) == 9, site, built=len(rows), expected='{no host, empty host, host present} x {amqp, amqps, other}')
        for x in rows:
            miss = x.conds[0] == (HAS, False) or x.conds[:2] == [(HAS, True), (EMPTY, True)]
            present = x.conds[:2] == [(HAS, True), (EMPTY, False)]
            schs = [c[1] for c in x.conds if c[0] == 'url::Url::scheme(url)']
            if not r.check('row:%s' % '&'.join(x.cond_strs()), (miss or present) and len(schs) == 1 and isinstance(schs[0], str), site, built=x.cond_strs(), expected='{host missing or empty | host present} x scheme'):
                continue
            sch = schs[0]
            key = '%s:%s' % ('nohost' if miss else 'host', sch.strip('"') if not sch.startswith('not ') else 'other')
            sets = [e for e in x.effects if e.startswith('url::Url::set_host(')]
            r.check(key + ':host-default', (sets == ['url::Url::set_host(url, Some("localhost"))']) if miss else (sets == []), site, built=sets,
                    why='localhost exactly when the host is absent or empty')
            ports = [e for e in x.effects if e.startswith('url::Url::set_port(')]
            if sch == '"amqp"':
                r.check(key + ':port', ports == ['url::Url::set_port(url, Some(std::option::Option::unwrap_or(url::Url::port(url), 5672)))'] and x.value_str() == 'Ok(%sScheme::Amqp)' % U, site, built=(ports, x.value_str()))
            elif sch == '"amqps"':
                r.check(key + ':port', ports == ['url::Url::set_port(url, Some(std::option::Option::unwrap_or(url::Url::port(url), 5671)))'] and x.value_str() == 'Ok(%sScheme::Amqps)' % U, site, built=(ports, x.value_str()))
            else:
                r.check(key + ':invalid-scheme', sch == 'not "amqp" | "amqps"' and x.value_str() == 'Err(errors::Error::InvalidUrlScheme{url: url})' and not ports, site, built=(sch, x.value_str()))
        r.check('host-condition', len([x for x in rows if x.conds[0] == (HAS, False)]) == 3 and len([x for x in rows if x.conds[:2] == [(HAS, True), (EMPTY, True)]]) == 3, site,
                built=[x.cond_strs()[:2] for x in rows], expected='!has_host(url) || host_str(url) == Some("")')
        # decode: ordered script
        scr, evs, ret = A.fn_script(ctx, U + 'decode')
        site = ctx.site(U + 'decode')
        # the first path segment always exists (`split` yields at least one item): `.unwrap()` and `.unwrap_or("")` name the same value
        SEG = "<std::str::Split<'a, P> as std::iter::Iterator>::next(url::Url::path_segments(url).Some.0)"
        scr = [l.replace('std::option::Option::unwrap_or(%s, "")' % SEG, 'std::option::Option::unwrap(%s)' % SEG) for l in scr]
        # every step carries its whole guard context and sets its own field, so the steps are compared as a set:
        # which branch of an if/else is written first is not behaviour
        for i, want in enumerate(DECODE_SCRIPT):
            r.check('decode:step%d' % i, want in scr, site, built=[l for l in scr if l not in DECODE_SCRIPT][:3], expected=want)
        r.eq('decode:step-count', len(scr), len(DECODE_SCRIPT), site, why='no other effect on the options')
        r.eq('decode:result', S.show(ret), 'Ok($m0)', site)
        snaps = [S.show(e.term) for e in evs if e.kind == 'snapshot' and S.show(e.lhs) == '$m0']
        r.eq('decode:starts-from-defaults', snaps[:1], ['<connection_options::ConnectionOptions<Auth> as std::default::Default>::default()'], site)
        ev = ctx.evaluator(0)
        t = ev.run_fn(U + 'decode::percent_decode', [('var', 's', -1)])
        r.eq('percent_decode', S.show(t), "percent_encoding::PercentDecode::decode_utf8_lossy(percent_encoding::percent_decode(std::str::as_bytes(s)))", ctx.site(U + 'decode::percent_decode'))
        # setters store into the like-named field
        for nm in ('virtual_host', 'heartbeat', 'channel_max', 'connection_timeout', 'auth', 'frame_max', 'locale'):
            ev = ctx.evaluator(0)
            t = ev.run_fn(OPT + nm, [('var', 'self', -1), ('var', 'value', -2)])
            ok = t[0] == 'struct' and dict(t[2]).get(nm) == ('var', 'value', -2) and len(t[2]) == 1 and t[3] == ('var', 'self', -1)
            r.check('setter:%s' % nm, ok, ctx.site(OPT + nm), built=S.show(t), expected='ConnectionOptions{%s: value, ..self}' % nm)
        # defaults
        ev = ctx.evaluator(0)
        t = ev.run_fn('<connection_options::ConnectionOptions<Auth> as std::default::Default>::default', [])
        f = {n: S.show(v) for n, v in t[2]} if t[0] == 'struct' else {}
        want = {'auth': 'std::default::Default::default()', 'virtual_host': '"/"', 'locale': '"en_US"', 'channel_max': '0', 'frame_max': '0', 'heartbeat': '60', 'connection_timeout': 'None', 'information': 'None'}
        known = ctx.vocab_fields('connection_options::ConnectionOptions')
        neutral = ('None', 'false', '0', '""', 'std::default::Default::default()', 'std::collections::BTreeMap::new()')
        newf = {k: v for k, v in f.items() if k not in want}
        r.check('defaults', {k: v for k, v in f.items() if k in want} == want and all(k not in known and v in neutral for k, v in newf.items()),
                ctx.site('<connection_options::ConnectionOptions<Auth> as std::default::Default>::default'), built=f, expected=want,
                why='the documented defaults; an option that did not exist on the pinned tree may only default to "off"')
        ev = ctx.evaluator(0)
        t = ev.run_fn('<auth::Auth as std::default::Default>::default', [])
        r.eq('default-auth', S.show(t), 'auth::Auth::Plain{password: "guest", username: "guest"}', ctx.site('<auth::Auth as std::default::Default>::default'))

    with ctx.rule('R19.2', 'precedence: the query loop follows the credential block on every path', floor=2) as r:
        evs, _ = ctx.events(U + 'decode')
        site = ctx.site(U + 'decode')
        cred = [e for e in evs if e.kind == 'assign' and 'auth::Auth::Plain' in S.show(e.term)]
        loop = [e for e in evs if e.kind == 'for' and S.show(e.term) == QP]
        ext = [e for e in evs if e.kind == 'assign' and S.show(e.term).endswith('auth::Auth::External)')]
        r.check('credentials-then-query', len(cred) == 1 and len(loop) == 1 and cred[0].idx < loop[0].idx and not loop[0].guards, site, built=(len(cred), len(loop)),
                why='auth_mechanism=external must override credentials regardless of their presence')
        r.check('external-inside-loop', len(ext) == 1 and ext[0].idx > loop[0].idx if loop else False, site)

    with ctx.rule('R19.3', 'scheme gate: plain TCP only when insecure connections are allowed', floor=6, floor_notls=5) as r:
        rows = P.table(ctx, U + 'open', ['url', 'tuning', 'allow_insecure'])
        site = ctx.site(U + 'open')
        SC = U + 'populate_host_and_port($m0)?'
        DEC = U + 'decode($m0)?'
        got = {}
        for x in rows:
            got[tuple(x.cond_strs())] = x.value_str()
        want = {(SC + ' ~ %sScheme::Amqp' % U, 'allow_insecure'): U + 'open_amqp($m0, %s, tuning)' % DEC,
                (SC + ' ~ %sScheme::Amqp' % U, '!allow_insecure'): 'Err(errors::Error::InsecureUrl{url: $m0})',
                (SC + ' ~ %sScheme::Amqps' % U,): U + 'open_amqps($m0, %s, tuning)' % DEC}
        r.eq('gate', got, want, site, why='every amqp:// URL is rejected with InsecureUrl by the secure-only entry points')
        r.check('url-parsed-first', all(x.effects[:1] == ['url::Url::parse(url)'] for x in rows), site)
        for fnp, val in (('connection::Connection::open_tuned', 'false'), ('connection::Connection::insecure_open_tuned', 'true')):
            if not ctx.has_fn(fnp):
                continue
            ev = ctx.evaluator(0)
            t = ev.run_fn(fnp, [('var', 'url', -1), ('var', 'tuning', -2)])
            r.eq('%s:allow_insecure' % fnp.split('::')[-1], S.show(t), U + 'open(url, tuning, %s)' % val, ctx.site(fnp))
        for fnp, inner in (('connection::Connection::open', 'open_tuned'), ('connection::Connection::insecure_open', 'insecure_open_tuned')):
            if not ctx.has_fn(fnp):
                continue
            ev = ctx.evaluator(0)
            t = ev.run_fn(fnp, [('var', 'url', -1)])
            r.eq('%s:delegates' % fnp.split('::')[-1], S.show(t), 'connection::Connection::%s(url, <connection::ConnectionTuning as std::default::Default>::default())' % inner, ctx.site(fnp))
        A.unique_callers(ctx, r, 'open_amqp:callers', U + 'open_amqp', [U + 'open'])

    with ctx.rule('R19.4', 'the decoded options are the ones used', floor=2) as r:
        for fnp, sink in ((U + 'open_amqp', 'connection::Connection::insecure_open_stream'), (U + 'open_amqps', 'connection::Connection::open_tls_stream')):
            if not ctx.has_fn(fnp) or not ctx.has_fn(sink):
                continue
            evs, _ = ctx.events(fnp)
            calls = [e for e in evs if e.kind == 'call' and e.callee == sink]
            args = [S.show(a) for a in calls[0].args] if calls else []
            r.check('%s:options-unchanged' % fnp.split('::')[-1], len(calls) == 1 and 'options' in args and 'tuning' in args, ctx.site(fnp), built=args,
                    expected='%s(.., options.clone(), tuning.clone())' % sink.split('::')[-1])
            conn = [e for e in evs if e.kind == 'call' and e.callee == 'mio::net::TcpStream::connect']
            addrs = [e for e in evs if e.kind == 'call' and e.callee == 'url::Url::socket_addrs']
            r.check('%s:connects-to-url-address' % fnp.split('::')[-1], len(conn) == 1 and len(addrs) == 1 and S.show(addrs[0].args[0]) == 'url' and 'iter_item(' in S.show(conn[0].args[0]), ctx.site(fnp),
                    built=[S.show(e.term)[:200] for e in conn + addrs])


def _shared_r4(ctx):
    """Rules of other properties that are necessary conditions of this one too (found by seeding round 4)."""
    with ctx.rule('R19.5', "the heartbeat the URL spells out is the one negotiated with: plain minimum with the server's, 0 staying 0 (shared with C15)", floor=1) as r:
        A.include(ctx, r, 'c15', 'R15.1', pick=('heartbeat', 'ok-row'))


def _round6(ctx):
    """Rules that are necessary conditions of this property too (found by seeding round 6)."""
    from rules import arms as A
    with ctx.rule('R19.6', "the URL's connection_timeout is armed before the transport is touched: start / start_tls install it from the options (shared with C16)", floor=6, floor_notls=5) as r:
        A.include(ctx, r, 'c16', 'R16.5', pick=('timeout-from-options', 'timeout-writers', 'timeout-guards', 'timeout-return', 'poll-uses-timeout'))


def _round7(ctx):
    """Found by seeding round 7 (minimal one-line mutations)."""
    from rules import arms as A
    with ctx.rule('R19.7', "user and password reach the PLAIN response in that order (shared with C16)", floor=1) as r:
        A.include(ctx, r, 'c16', 'R16.3', pick=('Auth::response',))


def _round10(ctx):
    """Rules of other properties that are necessary conditions of this one too (found by seeding round 10: two cooperating sites, indirection)."""
    from rules import arms as A
    with ctx.rule('R19.8', "the URL's tuning parameters are the ones negotiated: the Tune step builds TuneOk and Open from the same, untouched options (shared with C16)", floor=2) as r:
        A.include(ctx, r, 'c16', 'R16.1', pick=('Tune',))
