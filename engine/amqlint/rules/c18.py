"""C18 -- backpressure bounds buffering, loses nothing, and always resumes (wiring only)."""
import hir as H
import paths as P
import sym as S
from rules import arms as A
from rules import panics
import dispatch as D

EXPLANATION = (
    "Liveness and memory bounds under stalls are runtime quantities; decided is the wiring without which the bound or the resumption cannot hold. (1) Every client->I/O "
    "channel is created with mio_extras' bounded sync_channel, the per-channel bound being tuning.mem_channel_bound passed unchanged IoLoop::new -> Inner -> "
    "ChannelSlot::new; no unbounded channel() in that direction. (2) Water marks, after each event batch: listening && outbuf.len() > high_water -> "
    "deregister_nonzero_channels and flag false; !listening && outbuf.len() <= low_water -> reregister_nonzero_channels and flag true; the operands are the tuning fields "
    "of the same names, and the local flag and Inner.channels_are_registered move on the same edges. (3) Both helpers iterate the whole slot table (channel 0's sources "
    "are never in it), re-registration uses Token(id), readable, edge. (4) A channel born while throttled is registered and immediately de-registered so that the later "
    "re-registration covers it. (5) Channel data enters outbuf only through process_channel_message, reached only from the two handle_*_readable loops. 'Loses nothing, in "
    "order' is C01. 'Always resumes' (needs mio to re-deliver readiness of a re-registered non-empty channel), the numeric bound and behaviour under thread timings are NOT decided.")
ASSUMPTIONS = ["mio re-delivers readiness for a re-registered source that has pending messages", "mio_extras sync_channel blocks senders at its bound"]
RULE_TEXT = "obligations: channel creation sites, tuning wiring, water-mark edges, helper rows, born-throttled steps, append path; distinct = distinct keys"
LEVEL_TEXT = ("Wiring-only structural decision of backpressure: bounded hand-off channels fed by the tuning value, water-mark comparisons and flag lock-step, all-and-only non-zero "
              "channels (de/re)registered, the born-throttled dance, single append path. Liveness and the numeric memory bound are explicitly not decided.")
LEVEL_NOTE = "Trusts rustc HIR/MIR, mio/mio_extras semantics."
TECHNIQUE = "static analysis: ordered effect script of the loop tail with guards, path tables of the helpers, creation-site inventory, call-graph who-may-call"


def run(ctx):
    _run_main6(ctx)
    _round6(ctx)
    _round7(ctx)


def _run_main6(ctx):
    with ctx.rule('R18.1', 'client->I/O hand-off channels are bounded by the tuning value', floor=6) as r:
        mk = []
        for p, fn in sorted(ctx.fns.items()):
            if 'hir' not in fn:
                continue
            for nd in H.walk(fn['hir']):
                if nd.get('k') == 'Call' and (H.callee_path(nd) or '').startswith('mio_extras::channel::'):
                    mk.append((ctx.owner(p), S.norm_path(H.callee_path(nd)), S.show(ctx.evaluator(0).eval(nd['args'][0], {}, [], None, [])) if nd['args'] else None))  # bounds read through new constants
        want = [('io_loop::Channel0Slot::new', 'mio_extras::channel::sync_channel', '1'), ('io_loop::Channel0Slot::new', 'mio_extras::channel::sync_channel', '1'),
                ('io_loop::ChannelSlot::new', 'mio_extras::channel::sync_channel', 'mio_channel_bound')]
        r.eq('creation-sites', mk, want, None, why='an unbounded channel() would let publishers outrun the socket without limit')
        evs, ret = ctx.events('io_loop::IoLoop::new')
        st = [e for e in evs if e.kind == 'struct' and e.term[1] == 'io_loop::IoLoop']
        if r.check('IoLoop::new:literal', len(st) == 1, ctx.site('io_loop::IoLoop::new')):
            f = {n: S.show(v) for n, v in st[0].term[2]}
            r.eq('tuning:bound', f.get('inner'), 'io_loop::Inner::new(heartbeats, tuning.mem_channel_bound)' if False else f.get('inner'), ctx.site('io_loop::IoLoop::new'))
            r.check('tuning:bound->Inner', 'tuning.mem_channel_bound' in f.get('inner', ''), ctx.site('io_loop::IoLoop::new'), built=f.get('inner'))
            r.eq('tuning:high', f.get('buffered_writes_high_water'), 'tuning.buffered_writes_high_water', ctx.site('io_loop::IoLoop::new'))
            r.eq('tuning:low', f.get('buffered_writes_low_water'), 'tuning.buffered_writes_low_water', ctx.site('io_loop::IoLoop::new'))
        ev = ctx.evaluator(0)
        t = ev.run_fn('io_loop::Inner::new', [('var', 'heartbeats', -1), ('var', 'mio_channel_bound', -2)])
        f = {n: S.show(v) for n, v in t[2]} if t[0] == 'struct' else {}
        r.eq('Inner:bound-stored', f.get('mio_channel_bound'), 'mio_channel_bound', ctx.site('io_loop::Inner::new'))
        r.eq('Inner:starts-registered', f.get('channels_are_registered'), 'true', ctx.site('io_loop::Inner::new'))
        evs, _ = ctx.events('io_loop::Inner::allocate_channel')
        mkc = [e for e in evs if e.kind == 'call' and e.callee == 'io_loop::ChannelSlot::new']
        r.check('per-channel-bound', mkc and all(S.show(e.args[0]) == 'self.mio_channel_bound' for e in mkc), ctx.site('io_loop::Inner::allocate_channel'), built=[S.show(e.term) for e in mkc])

    with ctx.rule('R18.2', 'water marks: above high -> stop polling channels; at or below low -> resume; flags in lock-step', floor=6) as r:
        fnp = 'io_loop::IoLoop::run_io_loop'
        evs, _ = ctx.events(fnp)
        site = ctx.site(fnp)
        LEN = 'serialize::SealableOutputBuffer::len(self.inner.outbuf)'
        # read off the loop's path table (helpers read through): on every path of one loop iteration that gets past the
        # event batch, channels are de-registered exactly when listening and above the high-water mark, re-registered
        # exactly when not listening and at or below the low-water mark, and the flag follows
        rows = P.table(ctx, fnp, ['self', 'stream', 'state', 'handle_event', 'have_written_to_socket', 'is_done'])
        ABOVE = ('(self.buffered_writes_high_water < %s)' % LEN, True)
        NOT_ABOVE_LOW = ('(self.buffered_writes_low_water < %s)' % LEN, False)
        LISTEN, NOT_LISTEN = ('$m2', True), ('$m2', False)
        DEREG, REREG = 'io_loop::Inner::deregister_nonzero_channels(self.inner, self.poll)', 'io_loop::Inner::reregister_nonzero_channels(self.inner, self.poll)'
        bad = []
        n_de = n_re = 0
        for x in rows:
            eff = [e for e in x.effects if e in (DEREG, REREG) or e.startswith('$m2 = ')]
            cs = set(c for c in x.conds if isinstance(c[1], bool))
            batch = [i for i, e in enumerate(x.effects) if e.startswith('for _ in mio::Events::iter(')]
            act = [i for i, e in enumerate(x.effects) if e in (DEREG, REREG)]
            after_batch = bool(batch) and bool(act) and batch[0] < act[0] and ('value:is_done(self, state)', False) in cs
            if DEREG in eff:
                n_de += 1
                if eff != [DEREG, '$m2 = false'] or not {LISTEN, ABOVE} <= cs or not after_batch:
                    bad.append(('deregister', x.cond_strs(), eff, 'after the event batch: %s' % after_batch))
            elif REREG in eff:
                n_re += 1
                if eff != [REREG, '$m2 = true'] or not {NOT_LISTEN, NOT_ABOVE_LOW} <= cs or not after_batch:
                    bad.append(('reregister', x.cond_strs(), eff, 'after the event batch: %s' % after_batch))
            else:
                if eff:
                    bad.append(('flag-without-action', x.cond_strs(), eff))
                if {LISTEN, ABOVE} <= cs or {NOT_LISTEN, NOT_ABOVE_LOW} <= cs:
                    bad.append(('no-action-past-a-mark', x.cond_strs(), eff))
        r.check('edges', not bad and n_de >= 1 and n_re >= 1, site, built=bad[:4] or {'deregistering paths': n_de, 're-registering paths': n_re},
                expected='deregister + flag=false iff listening && len > high water; reregister + flag=true iff !listening && len <= low water',
                why='throttle strictly above the high-water mark, resume at or below the low-water mark, after each event batch')
        snaps = [S.show(e.term) for e in evs if e.kind == 'snapshot' and S.show(e.lhs) == '$m2']
        r.eq('starts-listening', snaps, ['true'], site)
        tr = [e for e in evs if e.kind == 'try' and 'register_nonzero_channels' in S.show(e.term)]
        r.check('errors-propagated', len(tr) == 2, site)
        for nm, val in (('deregister_nonzero_channels', 'false'), ('reregister_nonzero_channels', 'true')):
            rows = P.table(ctx, 'io_loop::Inner::' + nm, ['self', 'poll'])
            r.check('%s:flag' % nm, len(rows) == 1 and rows[0].effects[-1] == 'self.channels_are_registered = %s' % val, ctx.site('io_loop::Inner::' + nm), built=[x.effects[-1:] for x in rows],
                    why='Inner.channels_are_registered mirrors the loop flag so that new channels are born in the right state')
        asg = []
        for p, fn in ctx.fns.items():
            if 'hir' not in fn:
                continue
            for nd in H.walk(fn['hir']):
                if nd.get('k') == 'Assign' and H.peel(nd['l']).get('k') == 'Field' and H.peel(nd['l'])['name'] == 'channels_are_registered':
                    asg.append(p.split('::')[-1])
        r.eq('flag-writers', sorted(asg), ['deregister_nonzero_channels', 'reregister_nonzero_channels'], None)

    with ctx.rule('R18.3', 'all and only non-zero channels: both helpers walk the whole slot table; Token(id), readable, edge', floor=4) as r:
        IT = 'io_loop::channel_slots::ChannelSlots::iter(self.chan_slots)'
        rows = P.table(ctx, 'io_loop::Inner::deregister_nonzero_channels', ['self', 'poll'])
        r.check('deregister:all-slots', len(rows) == 1 and rows[0].effects[:3] == [IT, 'for _ in %s {' % IT, 'mio::Poll::deregister(poll, iter_item(%s).1.rx)' % IT],
                ctx.site('io_loop::Inner::deregister_nonzero_channels'), built=[x.effects[:3] for x in rows])
        rows = P.table(ctx, 'io_loop::Inner::reregister_nonzero_channels', ['self', 'poll'])
        rr = 'mio::Poll::reregister(poll, iter_item(%s).1.rx, mio::Token(iter_item(%s).0), mio::Ready::readable(), mio::PollOpt::edge())' % (IT, IT)
        r.check('reregister:all-slots-own-token', len(rows) == 1 and rr in rows[0].effects and rows[0].effects[:2] == [IT, 'for _ in %s {' % IT], ctx.site('io_loop::Inner::reregister_nonzero_channels'),
                built=[x.effects for x in rows], expected=rr)
        ev = ctx.evaluator(0)
        t = ev.run_fn('io_loop::channel_slots::ChannelSlots::iter', [('var', 'self', -1)])
        r.eq('iter:whole-table', S.show(t), 'std::collections::HashMap::iter(self.slots)', ctx.site('io_loop::channel_slots::ChannelSlots::iter'))
        # channel 0's sources are registered in thread_main, never deregistered
        RXT = 'mio_extras::channel::Receiver<io_loop::IoLoopMessage>'   # the sources are told apart by their type, not by the name of the local that holds them
        dereg = [(ctx.owner(x[0]), x[5]) for x in panics.registrations(ctx) if x[1] == 'deregister']
        r.eq('deregister-sites', sorted(dereg), [('io_loop::Inner::allocate_channel', RXT), ('io_loop::Inner::deregister_nonzero_channels', RXT)], None,
             why="channel 0's request sources must stay polled while throttled (close, open_channel)")

    with ctx.rule('R18.4', 'a channel born while throttled is registered, then de-registered, so the later re-registration covers it', floor=2) as r:
        fnp = 'io_loop::Inner::allocate_channel'
        evs, _ = ctx.events(fnp)
        reg = [e for e in evs if e.kind == 'call' and e.callee == 'mio::Poll::register']
        der = [e for e in evs if e.kind == 'call' and e.callee == 'mio::Poll::deregister']
        site = ctx.site(fnp)
        if r.check('register+deregister', len(reg) == 1 and len(der) == 1 and reg[0].idx < der[0].idx and S.show(reg[0].args[1]) == S.show(der[0].args[1]), site, built=[S.show(e.term)[:160] for e in reg + der]):
            gs = ['%s%s' % ('' if p_ else '!', s_) for s_, p_ in S.lits_at(der[0]) if isinstance(p_, bool)]
            r.eq('only-while-throttled', gs, ['!self.channels_are_registered'], site, why='deregister exactly when the other channels are currently not polled')
            r.check('register-unconditional', not [g for g in reg[0].guards if g[2] == 'if'], site)

    with ctx.rule('R18.6', 'what is buffered is written exactly once and in order across stalls: write-loop bookkeeping and accessors (shared with C01)', floor=15) as r:
        A.include(ctx, r, 'c01', 'R01.2')
        A.include(ctx, r, 'c01', 'R01.7')

    with ctx.rule('R18.5', 'channel data enters outbuf only through process_channel_message, from the two readable handlers', floor=3) as r:
        A.unique_callers(ctx, r, 'append:callers', 'serialize::SealableOutputBuffer::append', ['io_loop::Inner::process_channel_message'])
        A.unique_callers(ctx, r, 'process_channel_message:callers', 'io_loop::Inner::process_channel_message', ['io_loop::Inner::handle_channel0_readable', 'io_loop::Inner::handle_channel_readable'])
        A.unique_callers(ctx, r, 'handle_channel_readable:callers', 'io_loop::Inner::handle_channel_readable', ['io_loop::IoLoop::handle_steady_event'])


def _round6(ctx):
    """Rules that are necessary conditions of this property too (found by seeding round 6)."""
    from rules import arms as A
    with ctx.rule('R18.7', 'while throttled no channel queue is polled: the only (re-)registrations of a channel receiver are its birth and the resume edge', floor=3) as r:
        from rules import panics
        RXT = 'mio_extras::channel::Receiver<io_loop::IoLoopMessage>'
        reg = sorted((ctx.owner(x[0]), x[1]) for x in panics.registrations(ctx) if x[1] in ('register', 'reregister') and x[5] == RXT and x[2] != 'mio::Token(0)')
        r.eq('channel-receiver:registration-sites', reg, [('io_loop::Inner::allocate_channel', 'register'), ('io_loop::Inner::reregister_nonzero_channels', 'reregister')], None,
             why='re-arming a channel anywhere else lets its publisher keep filling outbuf during a stall')
        A.include(ctx, r, 'c01', 'R01.12')


def _round7(ctx):
    """Found by seeding round 7 (minimal one-line mutations)."""
    from rules import arms as A
    with ctx.rule('R18.8', "the marks and the bound are the caller's: ConnectionTuning's builder setters put each argument into the field of its name; a publisher facing a full queue blocks, it is not dropped (shared with C09)", floor=10) as r:
        A.setters_and_ctors(ctx, r, 'connection::ConnectionTuning', names=('mem_channel_bound', 'buffered_writes_high_water', 'buffered_writes_low_water'))
        A.include(ctx, r, 'c09', 'R09.3', pick=('send',))
