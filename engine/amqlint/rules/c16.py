"""C16 -- only a complete handshake yields a connection; failures name their cause."""
import hir as H
import paths as P
import sym as S
from rules import arms as A
from rules import panics

EXPLANATION = (
    "The handshake is decided as a table. HandshakeState::process is enumerated path by path from the resolved HIR and compared with the AMQP handshake "
    "automaton: Start -> (StartOk) Secure -> Tune -> (TuneOk, Open) Open -> Done, each step type-checking the incoming frame on channel 0 and propagating "
    "its specific error; Secure challenge -> SaslSecureNotSupported; Close while waiting for OpenOk -> CloseOk, seal, ServerClosing; frames after the end -> "
    "FrameUnexpected. The result mapping after the loop is a second table (Done -> values, ServerClosing -> ServerClosedConnection{code,text}, socket closed "
    "in state Secure -> InvalidCredentials, every other error unchanged). StartOk / Open contents are read symbolically (mechanism, response, locale, client "
    "properties with both capabilities, optional information; virtual host). A connection object can only be built from the message sent after the handshake "
    "returned Ok; the timeout rule and its clearing are checked; no panic-capable site in the handshake functions is undischarged. Liveness ('never hangs') "
    "and TLS internals are not decided.")
ASSUMPTIONS = ["amq_protocol decodes frames; TryFromAmqpFrame type-checks as read here", "mio delivers readiness (liveness not decided)"]
RULE_TEXT = "obligations: one per transition row, result row, StartOk/Open field and property, ordering fact, panic site; distinct = distinct keys"
LEVEL_TEXT = ("Structural decision of the handshake state machine, its error mapping, the content of StartOk/Open and of 'a connection exists only after Done', for every "
              "server behaviour in the handshake alphabet. Not decided: liveness, TLS handshake internals.")
LEVEL_NOTE = "Trusts rustc HIR/MIR resolution and amq_protocol decoding; expected tables hand-written in the rule module."
TECHNIQUE = "static analysis: path tables of the handshake state machine and its result mapping vs hand-written tables; symbolic read of StartOk/Open; MIR panic inventory"

HS = 'io_loop::handshake_state::HandshakeState::'
PROC = HS + 'process'
CONN = 'amq_protocol::protocol::connection::'
FU = 'Err(errors::Error::FrameUnexpected)'


def tf(ty):
    return '<%s%s as serialize::TryFromAmqpFrame>::try_from(0, frame)' % (CONN, ty)


def notable(effects):
    out = []
    for e in effects:
        if e.startswith('let '):
            continue
        if e.startswith(('io_loop::', 'connection_options::', '<amq_protocol', 'errors::', 'self = ')):
            out.append(e)
    return out


def run(ctx):
    _run_main(ctx)
    _shared_r5(ctx)


def _run_main(ctx):
    with ctx.rule('R16.1', 'handshake state machine equals the AMQP handshake automaton', floor=10) as r:
        rows = P.table(ctx, PROC, ['self', 'inner', 'frame'])
        site = ctx.site(PROC)
        HB = ('frame', 'amq_protocol::frame::AMQPFrame::Heartbeat(0)')
        NHB = ('frame', 'not amq_protocol::frame::AMQPFrame::Heartbeat(0)')

        def find(state, extra=None):
            out = []
            for x in rows:
                if len(x.conds) >= 2 and x.conds[0] == NHB and x.conds[1] == ('self', state):
                    if extra is None and len(x.conds) == 2:
                        out.append(x)
                    elif extra is not None and len(x.conds) == 3 and x.conds[2] == extra:
                        out.append(x)
            return out
        hb = [x for x in rows if x.conds == [('frame', 'amq_protocol::frame::AMQPFrame::Heartbeat(_)'), ('frame.Heartbeat.0', '0')]]  # Heartbeat(0): the variant, then its channel
        r.check('heartbeat-ignored', len(hb) == 1 and hb[0].value_str() == 'Ok(())' and not notable(hb[0].effects), site, built=[x.row() for x in hb])
        r.check('row-count', len(rows) == 9, site, built=len(rows), expected=9)
        # Start
        x = find(HS + 'Start(_)')
        mso = 'connection_options::ConnectionOptions::make_start_ok(self.Start.0, %s?)' % tf('Start')
        want = [tf('Start'), mso, 'io_loop::Inner::push_method(inner, 0, %sAMQPMethod::StartOk(%s?.0))' % (CONN, mso), 'self = %sSecure(self.Start.0, %s?.1)' % (HS, mso)]
        r.check('Start', len(x) == 1 and notable(x[0].effects) == want and x[0].value_str() == 'Ok(())', site, built=[notable(y.effects) for y in x], expected=want)
        # Secure
        x = find(HS + 'Secure(_, _)', (tf('Secure'), 'Ok(_)'))
        r.check('Secure:challenge', len(x) == 1 and x[0].value_str() == 'Err(errors::Error::SaslSecureNotSupported)' and x[0].done == 'return'
                and not [e for e in notable(x[0].effects) if e.startswith(('self =', 'io_loop::Inner::push'))], site, built=[y.row() for y in x],
                expected='Secure frame -> SaslSecureNotSupported, nothing sent')
        x = find(HS + 'Secure(_, _)', (tf('Secure'), 'Err(_)'))
        want = [tf('Secure'), 'self = %sTune(self.Secure.0, self.Secure.1)' % HS, PROC + '(self, inner, frame)']
        r.check('Secure:otherwise-tune', len(x) == 1 and notable(x[0].effects) == want and x[0].value_str() == PROC + '(self, inner, frame)', site,
                built=[notable(y.effects) for y in x], expected=want)
        # Tune
        x = find(HS + 'Tune(_, _)')
        mto = 'connection_options::ConnectionOptions::make_tune_ok(self.Tune.0, %s?)' % tf('Tune')
        want = [tf('Tune'), mto, 'io_loop::Inner::start_heartbeats(inner, %s?.heartbeat)' % mto, 'io_loop::Inner::push_method(inner, 0, %sAMQPMethod::TuneOk(%s?))' % (CONN, mto),
                'connection_options::ConnectionOptions::make_open(self.Tune.0)', 'io_loop::Inner::push_method(inner, 0, %sAMQPMethod::Open(connection_options::ConnectionOptions::make_open(self.Tune.0)))' % CONN,
                'self = %sOpen(%s?, self.Tune.1)' % (HS, mto)]
        r.check('Tune', len(x) == 1 and notable(x[0].effects) == want and x[0].value_str() == 'Ok(())', site, built=[notable(y.effects) for y in x], expected=want,
                why='TuneOk then Open, only after make_tune_ok succeeded; the same TuneOk value feeds the timers, the wire and the state')
        # Open
        x = find(HS + 'Open(_, _)', (tf('Close'), 'Ok(_)'))
        want = [tf('Close'), 'io_loop::Inner::push_method(inner, 0, %sAMQPMethod::CloseOk(%sCloseOk{}))' % (CONN, CONN), 'io_loop::Inner::seal_writes(inner)',
                'self = %sServerClosing(%s.Ok.0)' % (HS, tf('Close'))]
        r.check('Open:close', len(x) == 1 and notable(x[0].effects) == want and x[0].value_str() == 'Ok(())', site, built=[notable(y.effects) for y in x], expected=want)
        x = find(HS + 'Open(_, _)', (tf('Close'), 'Err(_)'))
        want = [tf('Close'), tf('OpenOk'), 'self = %sDone(self.Open.0, self.Open.1, std::vec::Vec::new())' % HS]
        r.check('Open:open-ok', len(x) == 1 and notable(x[0].effects) == want and x[0].value_str() == 'Ok(())', site, built=[notable(y.effects) for y in x], expected=want)
        tries = [e for e in ctx.events(PROC)[0] if e.kind == 'try']
        r.check('Open:open-ok-typechecked', any(S.show(e.term) == tf('OpenOk') + '?' for e in tries) and any(S.show(e.term) == tf('Tune') + '?' for e in tries)
                and any(S.show(e.term) == tf('Start') + '?' for e in tries), site, built=[S.show(e.term) for e in tries], why='a frame of the wrong type must propagate FrameUnexpected')
        x = find(HS + 'ServerClosing(_)')
        r.check('after-server-close', len(x) == 1 and x[0].value_str() == FU, site, built=[y.row() for y in x], why='nothing may follow the server Close')
        x = find(HS + 'Done(_, _, _)')
        r.check('behind-open-ok:kept-in-order', len(x) == 1 and [e for e in x[0].effects if not e.startswith('let ')] == ['std::vec::Vec::push(self.Done.2, frame)'] and x[0].value_str() == 'Ok(())', site,
                built=[y.row() for y in x], expected='Done(.., pending): pending.push(frame); Ok(())',
                why='a frame that shares a read with OpenOk must not be rejected (nor lost): whether it shares a read is an accident of segmentation')
        # the frame type check itself
        rows2 = P.table(ctx, '<T as serialize::TryFromAmqpFrame>::try_from', ['expected_id', 'frame'])
        got = [(x.cond_strs(), x.value_str()) for x in rows2]
        want2 = [(['frame ~ amq_protocol::frame::AMQPFrame::Method(_, _)', '(expected_id == frame.Method.0)'], 'serialize::TryFromAmqpClass::try_from(frame.Method.1)'),
                 (['frame ~ amq_protocol::frame::AMQPFrame::Method(_, _)', '!(expected_id == frame.Method.0)'], FU), (['frame ~ not amq_protocol::frame::AMQPFrame::Method(_, _)'], FU)]
        r.eq('TryFromAmqpFrame', sorted(got), sorted(want2), ctx.site('<T as serialize::TryFromAmqpFrame>::try_from'), why='method frames on another channel and non-method frames are out of order')
        for ty in ('Start', 'Secure', 'Tune', 'OpenOk', 'Close'):
            fnp = '<%s%s as serialize::TryFromAmqpClass>::try_from' % (CONN, ty)
            rows3 = P.table(ctx, fnp, ['class'])
            got = [(x.cond_strs(), x.value_str()) for x in rows3]
            want3 = [(['class ~ amq_protocol::protocol::AMQPClass::Connection(_)', 'class.Connection.0 ~ %sAMQPMethod::%s(_)' % (CONN, ty)], 'Ok(class.Connection.0.%s.0)' % ty), (['class ~ not amq_protocol::protocol::AMQPClass::Connection(%sAMQPMethod::%s(_))' % (CONN, ty)], FU)]
            r.eq('TryFromAmqpClass:%s' % ty, sorted(got), sorted(want3), ctx.site(fnp))

    with ctx.rule('R16.2', 'result mapping after the handshake loop', floor=5) as r:
        fnp = 'io_loop::IoLoop::run_amqp_handshake'
        rows = P.table(ctx, fnp, ['self', 'stream', 'options', 'have_written_to_socket'])
        site = ctx.site(fnp)
        loop = 'io_loop::IoLoop::run_io_loop(self, stream, $m0, io_loop::IoLoop::handle_handshake_event, have_written_to_socket, io_loop::IoLoop::is_handshake_done)'
        okr = [x for x in rows if x.conds and x.conds[0] == (loop, 'Ok(_)')]
        err = [x for x in rows if x.conds and x.conds[0] == (loop, 'Err(_)')]
        r.check('starts-in-Start', all('let $m0 = %sStart(options)' % HS in x.effects for x in rows), site, built=[x.effects[:1] for x in rows][:1], expected='state initialised to Start(options)')
        r.check('loop-call', len(okr) == 3 and len(err) >= 2, site, built=[x.cond_strs()[:1] for x in rows], expected='run_io_loop(.., handle_handshake_event, .., is_handshake_done) starting in state Start(options)')
        got = {x.conds[-1][1]: (x.value_str(), x.done) for x in okr}
        r.eq('Done', got.get(HS + 'Done(_, _, _)'), ('Ok(($m0.Done.0, $m0.Done.1, $m0.Done.2))', None), site)
        r.eq('ServerClosing', got.get(HS + 'ServerClosing(_)'),
             ('Err(errors::Error::ServerClosedConnection{code: $m0.ServerClosing.0.reply_code, message: $m0.ServerClosing.0.reply_text})', None), site)
        # (state, error) is decided level by level: the state, then -- only in Secure -- the error
        ERRV = loop + '.Err.0'
        e1 = [x for x in err if x.conds[1:] == [('$m0', HS + 'Secure(_, _)'), (ERRV, 'errors::Error::UnexpectedSocketClose')]]
        e2 = [x for x in err if x not in e1]
        r.check('socket-closed-after-StartOk', len(e1) == 1 and e1[0].value_str() == 'Err(errors::Error::InvalidCredentials)', site, built=[x.row() for x in err],
                expected='(Secure, UnexpectedSocketClose) => InvalidCredentials', why='InvalidCredentials only when the connection is dropped after StartOk without a reply')
        covered = A.covers_all([list(x.conds[1:]) for x in err])
        r.check('other-errors-unchanged', e2 and covered and all(x.value_str() == 'Err(%s)' % ERRV for x in e2), site, built=[x.row() for x in e2],
                expected='every other (state, error) => Err(err) unchanged', why='SaslSecureNotSupported, ConnectionTimeout, MalformedFrame ... must keep their identity')
        r.check('timeout-cleared-on-success', all('self.connection_timeout = None' in x.effects for x in okr), site, built=[x.effects for x in okr])

    with ctx.rule('R16.3', 'StartOk and Open carry what the options say; capabilities announced', floor=13, floor_notls=12) as r:
        fnp = 'connection_options::ConnectionOptions::make_start_ok'
        rows = P.table(ctx, fnp, ['self', 'start'])
        site = ctx.site(fnp)
        SUP = fnp + '::server_supports'
        mech = 'auth::Sasl::mechanism(self.auth)'
        bad_mech = [x for x in rows if x.conds == [('%s(start.mechanisms, %s)' % (SUP, mech), False)]]
        r.check('unsupported-mechanism', len(bad_mech) == 1 and bad_mech[0].value_str() == 'Err(errors::Error::UnsupportedAuthMechanism{available: start.mechanisms, requested: %s})' % mech,
                site, built=[x.row() for x in rows][:1])
        bad_loc = [x for x in rows if len(x.conds) == 2 and x.conds[1] == ('%s(start.locales, self.locale)' % SUP, False)]
        r.check('unsupported-locale', len(bad_loc) == 1 and bad_loc[0].value_str() == 'Err(errors::Error::UnsupportedLocale{available: start.locales, requested: self.locale})', site,
                built=[x.row() for x in bad_loc])
        okr = [x for x in rows if x.value_str().startswith('Ok((')]
        want = 'Ok((%sStartOk{client_properties: client_properties, locale: self.locale, mechanism: %s, response: auth::Sasl::response(self.auth)}, start.server_properties))' % (CONN, mech)
        import json as _json
        import re as _re
        okv = [x.value_str() for x in okr]
        m = _re.match(r'^Ok\(\(%sStartOk\{client_properties: ([\w$]+), locale: self\.locale, mechanism: %s, response: auth::Sasl::response\(self\.auth\)\}, start\.server_properties\)\)$' % (_re.escape(CONN), _re.escape(mech)), okv[0]) if okv else None
        r.check('StartOk:fields', len(okr) >= 1 and m is not None and all(v == okv[0] for v in okv), site, built=sorted(set(okv)), expected=want)
        PROPS = m.group(1) if m else 'client_properties'
        # effective inserts into the property tables: direct ones, and the body of a local closure once per call of it
        evs, _ = ctx.events(fnp)
        eff = []
        for e in evs:
            if e.kind == 'call' and e.callee == 'std::collections::BTreeMap::insert' and not any(g[2] == 'closure' for g in e.guards):
                eff.append(([S.show(a) for a in e.args], e))
            if e.kind == 'callclosure':
                f = e.extra
                for d in evs:
                    if d.kind == 'call' and d.callee == 'std::collections::BTreeMap::insert' and any(g[2] == 'closure' and g[3] == f[1] for g in d.guards):
                        args = []
                        for a in d.args:
                            for (nm, pid), v in zip(f[2], e.args):
                                a = S.replace(a, ('var', nm, pid), v)
                            args.append(S.show(a))
                        eff.append((args, e))
        st_ok = [e for e in evs if e.kind == 'struct' and e.term[1].endswith('connection::StartOk')]
        base = [x for g in st_ok[0].guards for x in S.guard_strs(g)] if st_ok else []  # what every successful StartOk is under anyway
        flat = []
        for args, e in eff:
            mm = _re.match(r'^iter_item\((?:std::slice::iter\()?\((.*?)\)\)?\)$', args[1])
            keys = [k.strip() for k in mm.group(1).split(', ')] if mm else [args[1]]
            gs = [x for g in e.guards for x in S.guard_strs(g) if x not in base]
            for k in keys:
                flat.append((args[0], k, args[2], gs))
        caps_ins = [x for x in flat if x[0] == PROPS and x[1] == '"capabilities"']
        mc = _re.match(r'^amq_protocol::types::AMQPValue::FieldTable\(([\w$]+)\)$', caps_ins[0][2]) if len(caps_ins) == 1 else None
        CAPS = mc.group(1) if mc else None
        r.check('capabilities-attached', CAPS is not None and caps_ins[0][3] == [], site, built=[x[:3] for x in caps_ins], expected='client_properties["capabilities"] = FieldTable(<the capability table>), unconditionally')
        props = [(k, v, g) for t, k, v, g in flat if t == PROPS and k != '"capabilities"']
        LS = 'amq_protocol::types::AMQPValue::LongString(%s)'
        want_props = [('"product"', LS % 'built_info::PKG_NAME', []), ('"version"', LS % 'built_info::PKG_VERSION', []),
                      ('"platform"', LS % 'format!("{} / {}", built_info::CFG_OS, built_info::RUSTC_VERSION)', []),
                      ('"information"', LS % 'self.information.Some.0', ['case(self.information ~ Some(_))'])]
        known_opts = ctx.vocab_fields('connection_options::ConnectionOptions')
        extra = [p_ for p_ in props if p_ not in want_props]
        # a property added for a *new* option may appear only when that option is set
        extra_bad = [p_ for p_ in extra if not any(_re.match(r'^case\(self\.(\w+) ~ Some\(_\)\)$', g) and _re.match(r'^case\(self\.(\w+) ~', g).group(1) not in known_opts for g in p_[2])]
        r.check('client-properties', all(w in props for w in want_props) and not extra_bad, site, built=props, expected=want_props,
                why='product, version, platform always; information exactly when configured; nothing else unless a new option asks for it')
        r.check('information-iff-configured', [g for k, v, g in props if k == '"information"'] == [['case(self.information ~ Some(_))']], site, built=[p_ for p_ in props if p_[0] == '"information"'])
        caps = sorted((k, v, tuple(g)) for t, k, v, g in flat if t == CAPS)
        r.eq('capabilities', caps, sorted([('"connection.blocked"', 'amq_protocol::types::AMQPValue::Boolean(true)', ()), ('"consumer_cancel_notify"', 'amq_protocol::types::AMQPValue::Boolean(true)', ())]), site,
             why='the server only sends consumer cancel and blocked notices to clients that announce these capabilities')
        ev = ctx.evaluator(0)
        t = ev.run_fn(SUP, [('var', 'server', -1), ('var', 'client', -2)])
        r.eq('server_supports', S.show(t), 'std::iter::Iterator::any(std::str::split(server, \' \'), |$c0| ($c0 == client))', ctx.site(SUP), why='membership in the space-separated list')
        rows = P.table(ctx, '<auth::Auth as auth::Sasl>::mechanism', ['self'])
        r.eq('Auth::mechanism', sorted((x.cond_strs()[0], x.value_str()) for x in rows), [('self ~ auth::Auth::External', '"EXTERNAL"'), ('self ~ auth::Auth::Plain{..}', '"PLAIN"')], ctx.site('<auth::Auth as auth::Sasl>::mechanism'))
        rows = P.table(ctx, '<auth::Auth as auth::Sasl>::response', ['self'])
        r.eq('Auth::response', sorted((x.cond_strs()[0], x.value_str()) for x in rows),
             [('self ~ auth::Auth::External', '""'), ('self ~ auth::Auth::Plain{..}', 'format!("\\0{}\\0{}", self.username, self.password)')],
             ctx.site('<auth::Auth as auth::Sasl>::response'), why='SASL PLAIN: NUL user NUL password')
        ev = ctx.evaluator(0)
        t = ev.run_fn('connection_options::ConnectionOptions::make_open', [('var', 'self', -1)])
        r.eq('Open', S.show(t), '%sOpen{capabilities: "", insist: false, virtual_host: self.virtual_host}' % CONN, ctx.site('connection_options::ConnectionOptions::make_open'))
        # the server's properties are what the connection exposes
        for fnp2 in ('connection::Connection::insecure_open_stream', 'connection::Connection::open_tls_stream'):
            if not ctx.has_fn(fnp2):
                continue
            evs2, ret = ctx.events(fnp2)
            st = [e for e in evs2 if e.kind == 'struct' and e.term[1] == 'connection::Connection']
            ok = len(st) == 1 and S.show(dict(st[0].term[2])['server_properties']).endswith('?.1') and S.show(dict(st[0].term[2])['channel0']).endswith('?.2')
            r.check('%s:exposes-server-properties' % fnp2.split('::')[-1], ok, ctx.site(fnp2), built=[S.show(e.term)[:300] for e in st])

    with ctx.rule('R16.8', 'frames received behind OpenOk are processed, in order, by the established connection before it polls again', floor=3) as r:
        rows = P.table(ctx, 'io_loop::IoLoop::thread_main', ['self', 'stream', 'options', 'handshake_done_tx', 'ch0_slot', 'have_written_to_socket'])
        HSK = 'io_loop::IoLoop::run_amqp_handshake(self, stream, options, have_written_to_socket)?'
        okr = [x for x in rows if x.conds and x.conds[-1][1] == 'Ok(_)']
        r.check('handed-over', len(okr) == 1 and okr[0].value_str() == 'io_loop::IoLoop::run_connection(self, stream, ch0_slot, %s.2)' % HSK, ctx.site('io_loop::IoLoop::thread_main'), built=[x.value_str() for x in okr])
        scr, evs, _ = A.fn_script(ctx, 'io_loop::IoLoop::run_connection')
        proc = [e for e in evs if e.kind == 'call' and e.callee == 'io_loop::connection_state::ConnectionState::process']
        loop = [e for e in evs if e.kind == 'call' and e.callee == 'io_loop::IoLoop::run_io_loop']
        fe = [e for e in evs if e.kind == 'for']
        ok = len(proc) == 1 and len(loop) == 1 and len(fe) == 1 and S.show(fe[0].term) == 'pending_frames' and proc[0].idx < loop[0].idx and \
            [S.show(a) for a in proc[0].args] == ['$m0', 'self.inner', 'iter_item(pending_frames)'] and any(g[2] == 'loop' and g[1] == 'for' for g in proc[0].guards)
        r.check('processed-in-order-before-polling', ok, ctx.site('io_loop::IoLoop::run_connection'), built=[S.show(e.term)[:160] for e in fe + proc + loop],
                expected='for frame in pending_frames { state.process(&mut self.inner, frame)? } ; then run_io_loop')
        tr = [e for e in evs if e.kind == 'try' and proc and e.term[1] == proc[0].term]
        r.check('errors-propagated', len(tr) == 1, ctx.site('io_loop::IoLoop::run_connection'))

    with ctx.rule('R16.7', 'FrameMaxTooSmall is decided on the negotiated frame_max, before any TuneOk (shared with C15)', floor=4) as r:
        A.include(ctx, r, 'c15', 'R15.2')

    with ctx.rule('R16.4', 'a connection exists only after Done', floor=5) as r:
        ck = panics.Checkers(ctx)
        ok, why = ck.run('handshake_done_signalled_after_handshake')
        r.check('signalled-after-handshake', ok, ctx.site('io_loop::IoLoop::thread_main'), built=why)
        ok, why = ck.run('handshake_tokens_only_stream_heartbeat')
        r.check('handle-parked-until-result', ok, ctx.site('io_loop::IoLoop::wait_for_amqp_handshake'), built=why)
        t = panics.match_bool_table(ctx, 'io_loop::IoLoop::is_handshake_done')
        site = ctx.site('io_loop::IoLoop::is_handshake_done')
        r.eq('done-table', t, {'Start': 'false', 'Secure': 'false', 'Tune': 'false', 'Open': 'false', 'Done': 'true', 'ServerClosing': 'serialize::SealableOutputBuffer::is_empty(self.inner.outbuf)'}, site)
        ok, why = ck.run('io_loop_returns_ok_only_when_done')
        r.check('loop-ok-only-when-done', ok, ctx.site('io_loop::IoLoop::run_io_loop'), built=why)
        rows = P.table(ctx, 'io_loop::IoLoop::wait_for_amqp_handshake', ['ch0_handle', 'join_handle', 'handshake_done_rx'])
        okr = [x for x in rows if x.value_str().startswith('Ok(')]
        r.check('connection-only-from-result', len(okr) == 1 and okr[0].conds == [('crossbeam_channel::Receiver::recv(handshake_done_rx)', 'Ok(_)')] and
                okr[0].value_str() == 'Ok((join_handle, crossbeam_channel::Receiver::recv(handshake_done_rx).Ok.0.1, io_loop::channel_handle::Channel0Handle::new(ch0_handle, crossbeam_channel::Receiver::recv(handshake_done_rx).Ok.0.0)))',
                ctx.site('io_loop::IoLoop::wait_for_amqp_handshake'), built=[x.row() for x in okr])
        errs = [x for x in rows if not x.value_str().startswith('Ok(') and x.done != 'panic']
        r.check('failure-yields-io-thread-error', len(errs) == 2 and sorted(x.value_str() for x in errs) == sorted(['Err(std::thread::JoinHandle::join(join_handle).Ok.0.Err.0)', 'Err(errors::Error::IoThreadPanic)']),
                ctx.site('io_loop::IoLoop::wait_for_amqp_handshake'), built=[x.row() for x in errs])

    with ctx.rule('R16.9', 'every connection option set survives the builder chain: each setter changes its own field only (shared with C19)', floor=7) as r:
        A.include(ctx, r, 'c19', 'R19.1', pick=('setter:', 'defaults'))

    with ctx.rule('R16.5', 'connection timeout: empty poll after the timeout -> ConnectionTimeout', floor=2) as r:
        fnp = 'io_loop::IoLoop::run_io_loop'
        evs, _ = ctx.events(fnp)
        rets = [e for e in evs if e.kind == 'ret' and 'ConnectionTimeout' in S.show(e.term)]
        if r.check('timeout-return', len(rets) == 1, ctx.site(fnp), built=[S.show(e.term) for e in rets]):
            gs = [x for g in rets[0].guards if g[2] in ('if', 'match', 'armguard') for x in S.guard_strs(g)]
            want = ['if(mio::Events::is_empty($m1))', 'case(self.connection_timeout ~ Some(_))',
                    'if((self.connection_timeout.Some.0 < std::time::Instant::elapsed(std::time::Instant::now())))']
            r.eq('timeout-guards', gs, want, ctx.site(fnp, rets[0].node), why='only an empty poll that lasted longer than the configured timeout')
        polls = [e for e in evs if e.kind == 'call' and e.callee == 'mio::Poll::poll']
        r.check('poll-uses-timeout', len(polls) == 1 and S.show(polls[0].args[2]) == 'self.connection_timeout', ctx.site(fnp), built=[S.show(e.term) for e in polls])
        for st in ('io_loop::IoLoop::start', 'io_loop::IoLoop::start_tls'):
            if ctx.has_fn(st):
                evs2, _ = ctx.events(st)
                asg = [e for e in evs2 if e.kind == 'assign' and S.show(e.lhs) == 'self.connection_timeout']
                r.check('%s:timeout-from-options' % st.split('::')[-1], len(asg) == 1 and S.show(asg[0].term) == 'std::option::Option::take(options.connection_timeout)', ctx.site(st), built=[S.show(e.term) for e in asg])

        # the timeout stays armed for the whole handshake: only start/start_tls install it and only the successful end of the handshake clears it
        with_ = set()
        for p_, fn_ in ctx.fns.items():
            if 'hir' not in fn_ or fn_.get('cfg_test'):
                continue
            for nd in H.walk(fn_['hir']):
                tgt = None
                if nd.get('k') in ('Assign', 'AssignOp'):
                    tgt = H.peel(nd['l'])
                elif nd.get('k') == 'MethodCall' and (nd.get('recv_ty') or '').startswith('&mut'):
                    tgt = H.peel(nd['recv'])
                elif nd.get('k') == 'AddrOf' and nd.get('mut'):
                    tgt = H.peel(nd['e'])
                if tgt is not None and tgt.get('k') == 'Field' and tgt.get('name') == 'connection_timeout' and 'io_loop::IoLoop' in (tgt['e'].get('ty') or ''):
                    with_.add(ctx.owner(p_))
        want_w = set(x for x in ('io_loop::IoLoop::start', 'io_loop::IoLoop::start_tls', 'io_loop::IoLoop::run_amqp_handshake') if ctx.has_fn(x))
        r.eq('timeout-writers', sorted(with_), sorted(want_w), ctx.site(fnp), why='clearing the timeout anywhere else lets a server that goes silent mid-handshake hang the caller forever')

    def scope(p):
        return p.startswith(('io_loop::handshake_state::', 'connection_options::', '<auth::', 'io_loop::IoLoop::run_amqp_handshake', 'io_loop::IoLoop::handle_handshake_event',
                             'io_loop::IoLoop::is_handshake_done', 'io_loop::IoLoop::wait_for_amqp_handshake', '<T as serialize::TryFromAmqpFrame>'))
    panics.inventory(ctx, 'R16.6', 'no undischarged panic-capable site in the handshake functions', roots=['io_loop::IoLoop::run_amqp_handshake', 'io_loop::IoLoop::handle_handshake_event', 'io_loop::IoLoop::is_handshake_done'],
                     scope=scope, floor_sites=3)


def _shared_r5(ctx):
    """Rules of other properties that are necessary conditions of this one too (found by seeding round 5)."""
    from rules import arms as A
    with ctx.rule('R16.10', 'the credentials a URL spells out are the ones StartOk answers with (shared with C19)', floor=2) as r:
        A.include(ctx, r, 'c19', 'R19.1', pick=('decode:',))
