"""C20 -- simultaneous closes and requests never panic; they resolve as some serial order."""
import hir as H
import paths as P
import sym as S
from rules import arms as A
from rules import panics

EXPLANATION = (
    "Decided: panic-freedom of the event dispatch under any batch order, and per-event sequential semantics. (1) Every panic-capable MIR site reachable from "
    "handle_steady_event is discharged (same inventory machinery as C07, rooted at the dispatch). (2) Stale wake-ups are tolerated uniformly: every token arm whose source may "
    "have been dropped earlier in the same batch -- SET_BLOCKED_TX, ALLOC_CHANNEL, Token(0) when the state is no longer Steady, Token(n) when slot n is gone -- evaluates to Ok(()) "
    "with no effect. (3) Events of a batch are handled one after another against the current state: a single `for` over the batch calling the handler with `?`, with is_done "
    "evaluated only after it. (4) Token domain: every token ever registered has an arm before the final unreachable. Which serial order results and the exact error a racing "
    "caller sees depend on cross-thread timing and are NOT decided (the caller's error is whatever the dropped slot's queue yields: C05/C09).")
ASSUMPTIONS = ["mio delivers only tokens that were registered", "discharge table reasons (spec/panic_discharge.py)"]
RULE_TEXT = "obligations: panic sites reachable from the dispatch, stale-wake-up rows, batch-loop facts, token-domain; distinct = distinct keys"
LEVEL_TEXT = ("Structural decision of panic-freedom of the I/O thread's event dispatch for every order of events inside a batch, uniform tolerance of stale wake-ups and "
              "sequential handling. Not decided: which serial order a race resolves to, nor the racing caller's exact error.")
LEVEL_NOTE = "Trusts rustc MIR/HIR and the reasoned panic discharges."
TECHNIQUE = "static analysis: MIR panic inventory rooted at the event dispatch, path table of the dispatch for stale-wake-up rows, structural loop facts"

HSE = 'io_loop::IoLoop::handle_steady_event'
CS = 'io_loop::connection_state::ConnectionState::'
NOT_STEADY = '%sServerClosing(_) | %sClientException | %sClientClosed' % (CS, CS, CS)


def run(ctx):
    _run_main(ctx)
    _shared_r5(ctx)
    _round6(ctx)
    _round7(ctx)
    _round8(ctx)


def _run_main(ctx):
    panics.inventory(ctx, 'R20.1', 'no undischarged panic-capable site reachable from the event dispatch', roots=['io_loop::IoLoop::run_connection'], scope=None, floor_sites=20)

    with ctx.rule('R20.2', 'stale wake-ups for dropped channel-0 sources and removed slots evaluate to Ok(()) with no effect', floor=7) as r:
        rows = P.table(ctx, HSE, ['self', 'stream', 'state', 'event'])
        site = ctx.site(HSE)
        TOK = 'mio::event::Event::token(event)'
        for tok, handler in (('io_loop::SET_BLOCKED_TX', 'io_loop::IoLoop::handle_set_blocked_tx(self, state.Steady.0)'),
                             ('io_loop::ALLOC_CHANNEL', 'io_loop::Inner::allocate_channel(self.inner, state.Steady.0, self.poll)'),
                             ('mio::Token(0)', 'io_loop::Inner::handle_channel0_readable(self.inner, state.Steady.0)')):
            live = [x for x in rows if x.conds == [(TOK, tok), ('state', CS + 'Steady(_)')]]
            stale = [x for x in rows if x.conds == [(TOK, tok), ('state', NOT_STEADY)]]
            nm = tok.split('::')[-1]
            r.check('%s:steady' % nm, len(live) == 1 and [e for e in live[0].effects if e != TOK] == [handler], site, built=[x.row() for x in live], expected=handler)
            r.check('%s:stale' % nm, len(stale) == 1 and [e for e in stale[0].effects if e != TOK] == [] and stale[0].done is None and stale[0].value_str() == 'Ok(())', site, built=[x.row() for x in stale],
                    expected='after the state left Steady (slot dropped earlier in this batch): nothing, Ok(())',
                    why='the close and the request can be in one poll batch, socket first; this arm must not panic')
        gen = [x for x in rows if len(x.conds) == 2 and x.conds[0] == (TOK, 'mio::Token(_)') and x.conds[1][1] is False and x.conds[1][0].endswith(' < %s.Token.0)' % TOK) and
               panics.token_bound_is_u16_max(ctx, x.conds[1][0][1:-len(' < %s.Token.0)' % TOK)])]  # Token(n) if n <= u16::MAX
        r.check('Token(n)', len(gen) == 1 and gen[0].effects[-1] == 'io_loop::Inner::handle_channel_readable(self.inner, (%s.Token.0 as u16))' % TOK, site, built=[x.row() for x in gen])
        rows2 = P.table(ctx, 'io_loop::Inner::handle_channel_readable', ['self', 'channel_id'])
        none = [x for x in rows2 if x.conds and x.conds[0] == ('io_loop::channel_slots::ChannelSlots::get(self.chan_slots, channel_id)', 'None')]
        r.check('Token(n):stale', len(none) == 1 and none[0].value_str() == 'Ok(())' and none[0].done == 'return', ctx.site('io_loop::Inner::handle_channel_readable'), built=[x.row() for x in none])

    with ctx.rule('R20.3', 'events of a batch are handled one after another against the current state; is_done only after the batch', floor=3) as r:
        evs, _ = ctx.events('io_loop::IoLoop::run_io_loop')
        site = ctx.site('io_loop::IoLoop::run_io_loop')
        fors = [e for e in evs if e.kind == 'for']
        hs = [e for e in evs if e.kind == 'callvalue' and e.callee == 'handle_event']
        done = [e for e in evs if e.kind == 'callvalue' and e.callee == 'is_done']
        r.check('single-batch-loop', len(fors) == 1 and S.show(fors[0].term) == 'mio::Events::iter($m1)', site, built=[S.show(e.term) for e in fors])
        ok = len(hs) == 1 and [S.show(a) for a in hs[0].args] == ['self', 'stream', 'state', 'iter_item(mio::Events::iter($m1))'] and any(g[2] == 'loop' and g[1] == 'for' for g in hs[0].guards)
        r.check('handler-per-event', ok, site, built=[S.show(e.term) for e in hs], expected='handle_event(self, stream, state, event)? for each event of the batch, in order')
        tr = [e for e in evs if e.kind == 'try' and hs and e.term[1] == hs[0].term]
        r.check('handler-errors-end-the-loop', len(tr) == 1, site)
        r.check('is_done-after-batch', len(done) == 1 and fors and done[0].idx > hs[0].idx and not any(g[2] == 'loop' and g[1] == 'for' for g in done[0].guards), site,
                built=[[g[1] for g in e.guards] for e in done])

    with ctx.rule('R20.5', 'crossing channel closes resolve serially: the late CloseOk for a removed slot is tolerated', floor=2) as r:
        import dispatch as D
        m, arms, _ = D.read(ctx)
        A.check_script(ctx, r, arms, ('Method', 'n', 'channel', 'CloseOk'))
        A.check_script(ctx, r, arms, ('Method', 'n', 'channel', 'Close'))

    with ctx.rule('R20.6', "the close's error reaches the requests that lose the race: Connection::close reports the I/O thread's result, a failed send reads the queued error (shared with C05/C09)", floor=9) as r:
        A.include(ctx, r, 'c05', 'R05.5')
        A.include(ctx, r, 'c09', 'R09.3')

    with ctx.rule('R20.7', "requests that lose the race fail with the close's own error: notification tables of both close directions (shared with C08)", floor=2) as r:
        A.include(ctx, r, 'c08', 'R08.4')

    with ctx.rule('R20.4', 'token domain: every registered token has an arm', floor=1) as r:
        ok, why = panics.token_domain(ctx)
        r.check('token-domain', ok, ctx.site(HSE), built=why)


def _shared_r5(ctx):
    """Rules of other properties that are necessary conditions of this one too (found by seeding round 5)."""
    from rules import arms as A
    with ctx.rule('R20.8', 'a close that shares a read with the reply to the call in flight does not overflow the reply queue: two places per slot (shared with C05)', floor=1) as r:
        A.include(ctx, r, 'c05', 'R05.3', pick=('slot/handle-pairing', 'creation-sites'))


def _round6(ctx):
    """Found by seeding round 6."""
    from rules import arms as A
    with ctx.rule('R20.9', "a close handled together with queued output stays a close: the seal set by the close paths is never undone, so is_connection_done's assertion holds (shared with C08)", floor=5) as r:
        A.include(ctx, r, 'c08', 'R08.2', pick=('sealed-assignment', 'constructed-unsealed', 'new:callers', 'never-replaced'))


def _round7(ctx):
    """Found by seeding round 7 (minimal one-line mutations)."""
    from rules import arms as A
    with ctx.rule('R20.10', "Connection::close racing a server close still closes: the client's Close is appended and the buffer sealed in one step (shared with C08)", floor=2) as r:
        A.include(ctx, r, 'c08', 'R08.1', pick=('client-close',))


def _round8(ctx):
    """Rules that are necessary conditions of this property too (found by seeding round 8)."""
    from rules import arms as A
    with ctx.rule('R20.11', 'a server close met by client requests is answered before the loop ends: a closing state is done only when the sealed buffer is flushed (shared with C08)', floor=4) as r:
        A.include(ctx, r, 'c08', 'R08.5', pick=('done:',))
