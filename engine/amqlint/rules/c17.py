"""C17 -- heartbeats: sent when idle, enforced on the server, off when 0 (wiring only)."""
import hir as H
import paths as P
import sym as S
from rules import arms as A
from rules import panics

EXPLANATION = (
    "Timing cannot be decided statically; the wiring that the timing depends on is. (1) Intervals: the tx timer is armed with the negotiated interval and the rx timer with "
    "MAX_MISSED_SERVER_HEARTBEATS (= 2, evaluated constant) times it, kinds not crossed; start_heartbeats converts the TuneOk heartbeat with Duration::from_secs and does "
    "nothing when it is 0. (2) Activity: record_rx_activity is called only after a read that returned n > 0 bytes, record_tx_activity on every Ok(n) of the transport write; "
    "each stamps `last` of its own timer. (3) Expiry actions, as a path table of process_heartbeat_timers: Rx expired -> MissedServerHeartbeats, Rx still running -> nothing, "
    "Tx expired -> push a heartbeat frame iff nothing is queued, Tx still running -> nothing. (4) Heartbeat::fire: Expired iff interval <= elapsed + fudge (fudge a few "
    "milliseconds), re-armed for the full interval, otherwise re-armed for interval - elapsed. Every quantitative clause (at least once per h, not before 2h, promptly after) "
    "depends on the scheduler, mio_extras' timer granularity and the wall clock and is NOT decided.")
ASSUMPTIONS = ["mio_extras::timer fires a timeout no earlier than requested and is polled through the HEARTBEAT token", "Instant is monotonic"]
RULE_TEXT = "obligations: interval wiring facts, activity call sites, expiry rows, fire rows; distinct = distinct keys"
LEVEL_TEXT = ("Wiring-only structural decision: intervals (h and 2h from the one TuneOk value, none when 0), activity stamps on real reads/writes, expiry actions, and the "
              "fire comparison. The behavioural (timing) statement is explicitly not decided by static analysis.")
LEVEL_NOTE = "Trusts rustc HIR/const evaluation and mio_extras' timer; timing itself is out of reach."
TECHNIQUE = "static analysis: path tables and who-may-call over resolved HIR/MIR; evaluated constants"

HT = 'io_loop::heartbeat_timers::'


def run(ctx):
    _run_main6(ctx)
    _round6(ctx)
    _round8(ctx)


def _run_main6(ctx):
    with ctx.rule('R17.1', 'intervals: tx = h, rx = 2h, from the negotiated heartbeat; nothing when 0', floor=6) as r:
        rows = P.table(ctx, HT + 'RxTxHeartbeat::new', ['timer', 'interval'])
        site = ctx.site(HT + 'RxTxHeartbeat::new')
        want = '%sRxTxHeartbeat{rx: heartbeats::Heartbeat::start(%sHeartbeatKind::Rx, (interval * %sMAX_MISSED_SERVER_HEARTBEATS), timer), tx: heartbeats::Heartbeat::start(%sHeartbeatKind::Tx, interval, timer)}' % (HT, HT, HT, HT)
        r.eq('rx-tx-intervals', rows[0].value_str() if len(rows) == 1 else None, want, site, why='rx timer = allowed missed heartbeats x interval with kind Rx; tx timer = interval with kind Tx')
        c = ctx.const(HT + 'MAX_MISSED_SERVER_HEARTBEATS')
        r.eq('max-missed', c.get('bits'), '2', None, why='silence is fatal after 2 intervals, not before')
        rows = P.table(ctx, 'io_loop::Inner::start_heartbeats', ['self', 'interval'])
        site = ctx.site('io_loop::Inner::start_heartbeats')
        # `interval > 0` and `interval != 0` are the same test of a u16
        on = [x for x in rows if x.conds in ([('(0 < interval)', True)], [('(0 == interval)', False)])]
        off = [x for x in rows if x.conds in ([('(0 < interval)', False)], [('(0 == interval)', True)])]
        r.check('enabled', len(on) == 1 and on[0].effects[-1] == HT + 'HeartbeatTimers::start(self.heartbeats, std::time::Duration::from_secs(interval))', site, built=[x.row() for x in on],
                why='the announced interval is in seconds')
        r.check('disabled-when-0', len(off) == 1 and not off[0].effects, site, built=[x.row() for x in off], why='h = 0: no timers, no heartbeats, silence never fatal')
        A.include(ctx, r, 'c15', 'R15.3', pick=('timers', 'tune-row'))
        A.unique_callers(ctx, r, 'start_heartbeats:caller', 'io_loop::Inner::start_heartbeats', ['io_loop::handshake_state::HandshakeState::process'])
        rows = P.table(ctx, HT + 'HeartbeatTimers::start', ['self', 'interval'])
        r.check('timers-armed-with-interval', len(rows) == 1 and 'self.heartbeats = Some(%sRxTxHeartbeat::new(self.timer, interval))' % HT in rows[0].effects, ctx.site(HT + 'HeartbeatTimers::start'), built=[x.effects for x in rows])
        rows = P.table(ctx, 'heartbeats::Heartbeat::start', ['val', 'interval', 'timer'])
        r.check('first-timeout', len(rows) == 1 and rows[0].value_str() == 'heartbeats::Heartbeat{interval: interval, last: std::time::Instant::now(), timeout: mio_extras::timer::Timer::set_timeout(timer, interval, val), val: val}',
                ctx.site('heartbeats::Heartbeat::start'), built=[x.value_str() for x in rows])
        # the timer is polled under the HEARTBEAT token in both phases
        regs = [x for x in panics.registrations(ctx) if x[2] == 'io_loop::HEARTBEAT']
        r.check('timer-registered', len(regs) == 1 and regs[0][5] == 'mio_extras::timer::Timer<io_loop::heartbeat_timers::HeartbeatKind>', None, built=[(x[0], x[5]) for x in regs])
        for hp in ('io_loop::IoLoop::handle_steady_event', 'io_loop::IoLoop::handle_handshake_event'):
            rows = P.table(ctx, hp)
            hb = [x for x in rows if x.conds and x.conds[0][1] == 'io_loop::HEARTBEAT']
            r.check('%s:HEARTBEAT-arm' % hp.split('::')[-1], len(hb) == 1 and 'io_loop::Inner::process_heartbeat_timers(self.inner)' in hb[0].effects, ctx.site(hp), built=[x.effects for x in hb])

    with ctx.rule('R17.2', 'activity: rx stamped after a read of n > 0 bytes, tx stamped on every successful write; each stamps its own timer', floor=6) as r:
        rows = P.table(ctx, 'io_loop::Inner::read_from_stream', ['self', 'stream', 'frame_buffer', 'handler'])
        site = ctx.site('io_loop::Inner::read_from_stream')
        RD = '(0 == frame_buffer::FrameBuffer::read_from(frame_buffer, stream, |$c0| value:handler(self, $c0))?)'  # `n > 0` on an unsigned n is `n != 0`
        pos = [x for x in rows if x.conds == [(RD, False)]]
        zero = [x for x in rows if x.conds == [(RD, True)]]
        r.check('rx:on-bytes', len(pos) == 1 and pos[0].effects[-1] == HT + 'HeartbeatTimers::record_rx_activity(self.heartbeats)', site, built=[x.row() for x in rows], why='any inbound traffic counts as liveness')
        r.check('rx:not-on-nothing', len(zero) == 1 and not [e for e in zero[0].effects if 'record_' in e], site)
        A.unique_callers(ctx, r, 'rx:only-caller', HT + 'HeartbeatTimers::record_rx_activity', ['io_loop::Inner::read_from_stream'])
        A.unique_callers(ctx, r, 'tx:only-caller', HT + 'HeartbeatTimers::record_tx_activity', ['io_loop::Inner::write_to_stream'])
        rows = P.table(ctx, 'io_loop::Inner::write_to_stream', ['self', 'stream'])
        okw = [x for x in rows if len(x.conds) == 2 and x.conds[1][1] == 'Ok(_)']
        r.check('tx:on-every-ok-write', len(okw) == 1 and HT + 'HeartbeatTimers::record_tx_activity(self.heartbeats)' in okw[0].effects and
                not [x for x in rows if x not in okw and any('record_tx' in e for e in x.effects)], ctx.site('io_loop::Inner::write_to_stream'))
        for nm, fld in (('record_rx_activity', 'rx'), ('record_tx_activity', 'tx')):
            rows = P.table(ctx, HT + 'HeartbeatTimers::' + nm, ['self'])
            some = [x for x in rows if x.conds == [('self.heartbeats', 'Some(_)')]]
            r.check('%s:own-timer' % nm, len(some) == 1 and some[0].effects == ['heartbeats::Heartbeat::record_activity(self.heartbeats.Some.0.%s)' % fld], ctx.site(HT + 'HeartbeatTimers::' + nm), built=[x.row() for x in rows])
        rows = P.table(ctx, 'heartbeats::Heartbeat::record_activity', ['self'])
        r.check('record_activity:stamps-last', len(rows) == 1 and rows[0].effects[-1] == 'self.last = std::time::Instant::now()', ctx.site('heartbeats::Heartbeat::record_activity'), built=[x.effects for x in rows])

    with ctx.rule('R17.3', 'expiry actions: Rx expired -> MissedServerHeartbeats; Tx expired -> heartbeat frame iff nothing queued', floor=6) as r:
        fnp = 'io_loop::Inner::process_heartbeat_timers'
        rows = P.table(ctx, fnp, ['self'])
        site = ctx.site(fnp)
        POLL = 'mio_extras::timer::Timer::poll(self.heartbeats.timer)'

        def find(kind, fire, state, extra=None):
            out = []
            for x in rows:
                c = x.conds
                if len(c) >= 3 and c[0] == (POLL, 'Some(_)') and c[1] == (POLL + '.Some.0', HT + 'HeartbeatKind::' + kind) and c[2] == ('%sHeartbeatTimers::%s(self.heartbeats)' % (HT, fire), 'heartbeats::HeartbeatState::' + state):
                    if extra is None and len(c) == 3:
                        out.append(x)
                    elif extra is not None and len(c) == 4 and c[3] == extra:
                        out.append(x)
            return out
        x = find('Rx', 'fire_rx', 'Expired')
        r.check('rx-expired', len(x) == 1 and (x[0].value_str(), x[0].done) == ('Err(errors::Error::MissedServerHeartbeats)', 'return'), site, built=[y.row() for y in x])
        x = find('Rx', 'fire_rx', 'StillRunning')
        r.check('rx-still-running', len(x) == 1 and x[0].done == 'iterate' and not [e for e in x[0].effects if 'push_' in e or 'fail' in e], site, built=[y.row() for y in x])
        EMPTY = 'serialize::SealableOutputBuffer::is_empty(self.outbuf)'
        x = find('Tx', 'fire_tx', 'Expired', (EMPTY, True))
        r.check('tx-expired-idle', len(x) == 1 and 'serialize::SealableOutputBuffer::push_heartbeat(self.outbuf)' in x[0].effects and x[0].done == 'iterate', site, built=[y.row() for y in x],
                why='a connection with nothing else to send emits a heartbeat frame')
        x = find('Tx', 'fire_tx', 'Expired', (EMPTY, False))
        r.check('tx-expired-busy', len(x) == 1 and not [e for e in x[0].effects if 'push_' in e], site, built=[y.row() for y in x])
        x = find('Tx', 'fire_tx', 'StillRunning')
        r.check('tx-still-running', len(x) == 1 and not [e for e in x[0].effects if 'push_' in e], site, built=[y.row() for y in x])
        r.check('row-count', len(rows) == 6, site, built=len(rows))
        for nm, fld in (('fire_rx', 'rx'), ('fire_tx', 'tx')):
            rows2 = P.table(ctx, HT + 'HeartbeatTimers::' + nm, ['self'])
            r.check('%s:own-timer' % nm, len(rows2) == 1 and rows2[0].value_str().startswith('heartbeats::Heartbeat::fire(') and rows2[0].value_str().endswith('.%s, self.timer)' % fld), ctx.site(HT + 'HeartbeatTimers::' + nm),
                    built=[x.value_str() for x in rows2])

    with ctx.rule('R17.5', 'after the handshake only heartbeats can end an idle connection: the connection timeout is cleared on success (shared with C16)', floor=2) as r:
        A.include(ctx, r, 'c16', 'R16.2', pick=('timeout-cleared-on-success', 'loop-call'))
        A.include(ctx, r, 'c16', 'R16.5')

    with ctx.rule('R17.4', 'fire: Expired iff interval <= elapsed + fudge, re-armed for interval; else re-armed for interval - elapsed', floor=3) as r:
        rows = P.table(ctx, 'heartbeats::Heartbeat::fire', ['self', 'timer'])
        site = ctx.site('heartbeats::Heartbeat::fire')
        EL = 'std::time::Instant::elapsed(self.last)'
        # canonical comparison: `interval <= elapsed + fudge` is ((elapsed + fudge) < interval) failing
        exp = [x for x in rows if len(x.conds) == 1 and x.conds[0][1] is False]
        run_ = [x for x in rows if len(x.conds) == 1 and x.conds[0][1] is True]
        if r.check('rows', len(rows) == 2 and len(exp) == 1 and len(run_) == 1, site, built=[x.cond_strs() for x in rows]):
            import re
            m = re.match(r'^\(\(std::time::Duration::from_millis\((\d+)\) \+ %s\) < self\.interval\)$' % re.escape(EL), exp[0].conds[0][0])
            r.check('comparison', bool(m) and int(m.group(1)) <= 50, site, built=exp[0].conds[0][0], expected='(self.interval <= (elapsed + Duration::from_millis(<small>)))')
            r.check('expired', exp[0].value_str() == 'heartbeats::HeartbeatState::Expired' and 'self.timeout = mio_extras::timer::Timer::set_timeout(timer, self.interval, self.val)' in exp[0].effects, site, built=exp[0].row())
            r.check('still-running', run_[0].value_str() == 'heartbeats::HeartbeatState::StillRunning' and 'self.timeout = mio_extras::timer::Timer::set_timeout(timer, (self.interval - %s), self.val)' % EL in run_[0].effects, site, built=run_[0].row(),
                    why='the remaining time since the last activity')
            r.check('old-timeout-cancelled', all(x.effects[0] == 'mio_extras::timer::Timer::cancel_timeout(timer, self.timeout)' for x in rows), site)


def _round6(ctx):
    """Rules that are necessary conditions of this property too (found by seeding round 6)."""
    from rules import arms as A
    with ctx.rule('R17.6', 'once started the timers run for the rest of the connection: nothing stops or drops them', floor=2) as r:
        A.unique_callers(ctx, r, 'cancel_timeout:callers', 'mio_extras::timer::Timer::cancel_timeout', ['heartbeats::Heartbeat::fire'],
                         why='a timeout is cancelled only to be set again in the same call (fire)')
        w = A.field_writers(ctx, 'io_loop::heartbeat_timers::HeartbeatTimers', 'heartbeats')
        HT_ = 'io_loop::heartbeat_timers::HeartbeatTimers::'
        r.eq('heartbeats:writers', sorted(w), sorted(HT_ + n for n in ('start', 'record_rx_activity', 'record_tx_activity', 'fire_rx', 'fire_tx')), None,
             why='the pair of timers is installed by start() and otherwise only ticked (record_*_activity, fire_*): taking or replacing it would end liveness checking')


def _round8(ctx):
    """Rules that are necessary conditions of this property too (found by seeding round 8)."""
    from rules import arms as A
    with ctx.rule('R17.7', 'the heartbeat queued on a tx expiry is really queued while the connection is open: push_heartbeat is gated by the seal, not by its negation (shared with C08)', floor=1) as r:
        A.include(ctx, r, 'c08', 'R08.2', pick=('push_heartbeat:gated',))
