"""C04 -- a synchronous call returns the server's reply to that very call."""
import os
import sys

import dispatch as D
import hir as H
import paths as P
import sym as S
import wire as W
from rules import arms as A
from rules import c03

sys.path.insert(0, os.path.join(os.path.dirname(os.path.dirname(os.path.dirname(os.path.dirname(os.path.abspath(__file__))))), 'spec'))
import api_wire as T  # noqa: E402

EXPLANATION = (
    "Decided structurally for all calls and all server orders: (1) every reply arm of the dispatch routes to the reply queue of the slot looked up under the frame's own "
    "channel id (operand identity; shared with C03); (2) awaited is a subset of routed: every reply type any public operation awaits (read from the resolved generic arguments of "
    "each call site, after inlining) is among the method variants the dispatch forwards to a reply queue, and each TryFromAmqpClass impl maps exactly the like-named class/method; "
    "(3) each synchronous operation awaits the reply the specification pairs with its request and returns exactly the reply's fields (table shared with C12); (4) call = send on the "
    "handle's own sender, then receive on the handle's own receiver, then type-check; at most one call per channel can be outstanding because Channel is !Sync, open_channel takes "
    "&mut Connection and handles are not Clone (compile-fail witnesses in the thorough tier); (5) from the nowait primitives no receive is reachable except on the failed-send error "
    "path. Arrival order and timing of replies, and the server's per-channel FIFO, are not decided.")
ASSUMPTIONS = ["the server answers requests on a channel in order (protocol)", "crossbeam/mio_extras FIFO", "rustc enforces !Sync / &mut exclusivity"]
RULE_TEXT = "obligations: routing sites, awaited reply types, TryFrom impl rows, request/reply/return cells, call-primitive rows, nowait reachability; distinct = distinct keys"
LEVEL_TEXT = ("Structural decision that replies are routed by the frame's own channel id to that channel's single reply queue, that every awaited reply type is one the dispatch "
              "routes there, that each operation awaits the specified reply and returns its fields, and that nowait variants cannot block on a reply. Timing/order of replies is not decided.")
LEVEL_NOTE = "Trusts rustc resolution of generic arguments, amq_protocol decoding, channel FIFO; oracle rows in spec/api_wire.py and spec/dispatch.py."
TECHNIQUE = "static analysis: arm scripts vs oracle, reply-type sets from resolved generic arguments, path tables of the call primitives, call-graph reachability for nowait"

H0 = 'io_loop::io_loop_handle::IoLoopHandle::'


def run(ctx):
    _run_main6(ctx)
    _round6(ctx)
    _round7(ctx)
    _round8(ctx)
    _round10(ctx)


def _run_main6(ctx):
    m, arms, _ = D.read(ctx)
    with ctx.rule('R04.1', "replies are routed to the reply queue of the frame's own channel", floor=5) as r:
        A.check_script(ctx, r, arms, ('Method', 'n', 'basic', 'QosOk'))
        A.check_script(ctx, r, arms, ('Method', 'n', 'basic', 'GetEmpty'))
        A.check_script(ctx, r, arms, ('Method', 'n', 'basic', 'CancelOk'))
        A.check_script(ctx, r, arms, ('Method', 'n', 'channel', 'CloseOk'))
        A.check_script(ctx, r, arms, ('Method', '0', 'connection', 'CloseOk'))
        a = A.arm_by_key(arms, ('Method', 'n', 'basic', 'ConsumeOk'))
        snd = a.calls('connection_state::send') if a else []
        want = ['io_loop::connection_state::slot_get_mut(inner, frame.Method.0)?.tx', 'Ok(io_loop::ChannelMessage::ConsumeOk(frame.Method.1.Basic.0.ConsumeOk.0.consumer_tag, crossbeam_channel::unbounded().1))']
        r.check('ConsumeOk:reply', len(snd) == 1 and [S.show(x) for x in snd[0].args] == want, ctx.site(D.PROCESS, a.node) if a else None, built=[[S.show(x) for x in c.args] for c in snd], expected=want,
                why="the consumer tag and the new queue's receiver go to the caller on the frame's own channel")

    with ctx.rule('R04.2', 'awaited is a subset of routed; TryFromAmqpClass impls map the like-named method', floor=39) as r:
        routed = set()
        for a in arms:
            if D.classify(a) == 'reply':
                for k in a.keys:
                    routed.add('amq_protocol::protocol::%s::%s' % (k[2], k[3]))
        routed.add('amq_protocol::protocol::basic::CancelOk')
        routed.add('amq_protocol::protocol::channel::CloseOk')
        routed.add('amq_protocol::protocol::connection::CloseOk')
        awaited = {}
        for row in T.ROWS:
            if row['sink'] != 'call':
                continue
            ems, ret, events = W.read_op(ctx, row['fn'], row['params'])
            for e in ems:
                if e.sink == 'call':
                    awaited.setdefault(e.reply, []).append(row['fn'])
        for ty, fns in sorted(awaited.items(), key=lambda x: str(x[0])):
            r.check('awaited:%s' % ty, ty in routed, ctx.site(fns[0]), built={'awaited_by': fns[:4]}, expected='a method variant the dispatch forwards to the reply queue: %s' % sorted(routed),
                    why='awaiting a reply the I/O thread never routes makes the call hang (or fail) forever')
        r.check('awaited-types', len(awaited) >= 15, None, built=len(awaited), expected='>= 15 distinct reply types')
        never = sorted(routed - set(awaited))
        r.info('routed-but-never-awaited', None, built=never)
        # impl_try_from_class instances
        n = 0
        for p, fn in sorted(ctx.fns.items()):
            if fn.get('impl_trait') != 'serialize::TryFromAmqpClass':
                continue
            n += 1
            ty = fn['impl_self']
            cls, meth = ty.split('::')[-2], ty.split('::')[-1]
            rows = P.table(ctx, p, ['class'])
            got = [(x.cond_strs(), x.value_str()) for x in rows]
            want = [(['class ~ amq_protocol::protocol::AMQPClass::%s(_)' % cls.capitalize(), 'class.%s.0 ~ amq_protocol::protocol::%s::AMQPMethod::%s(_)' % (cls.capitalize(), cls, meth)],
                     'Ok(class.%s.0.%s.0)' % (cls.capitalize(), meth)),
                    (['class ~ not amq_protocol::protocol::AMQPClass::%s(amq_protocol::protocol::%s::AMQPMethod::%s(_))' % (cls.capitalize(), cls, meth)], 'Err(errors::Error::FrameUnexpected)')]
            r.eq('try_from:%s::%s' % (cls, meth), sorted(got), sorted(want), ctx.site(p), why='a reply of another type must be rejected, the right one unwrapped')
        r.check('try_from-impls', n >= 22, None, built=n, expected='22 on the pinned tree; every impl is judged by its own row above')

    with ctx.rule('R04.3', 'each synchronous operation awaits the paired reply and returns exactly its fields', floor=60) as r:
        for row in T.ROWS:
            if row['sink'] not in ('call', 'get', 'consume'):
                continue
            fnp = row['fn']
            ems, ret, events = W.read_op(ctx, fnp, row['params'])
            em = [e for e in ems if e.sink == row['sink']]
            site = ctx.site(fnp)
            if not r.check('%s:emission' % fnp, len(em) == 1, site, built=[(e.sink, e.method) for e in ems]):
                continue
            if row['sink'] == 'call':
                r.eq('%s:reply' % fnp, em[0].reply, row['reply'], site, why='the reply the specification pairs with this request')
            if row['ret'] is not None:
                r.eq('%s:returns' % fnp, S.show(ret), row['ret'], site, why="exactly the values carried by the server's reply")
            r.check('%s:error-propagated' % fnp, getattr(em[0], 'propagated', False), site, why="a failed call must fail the operation")

    with ctx.rule('R04.6', 'no unsolicited replies: the nowait bit on the wire agrees with whether the call waits', floor=40) as r:
        for row in T.ROWS:
            if 'nowait' not in row['fields']:
                continue
            fnp = row['fn']
            ems, ret, events = W.read_op(ctx, fnp, row['params'])
            em = [e for e in ems if e.sink in ('call', 'nowait', 'consume')]
            if not r.check('%s:emission' % fnp, len(em) == 1 and em[0].fields is not None, ctx.site(fnp)):
                continue
            waits = em[0].sink in ('call', 'consume')
            r.eq('%s:nowait-bit' % fnp, em[0].fields.get('nowait'), 'false' if waits else 'true', ctx.site(fnp),
                 why='a request sent without waiting but with nowait=false makes the server send a reply that the next synchronous call on the channel would receive')

    with ctx.rule('R04.7', 'one slot (one reply queue) per open channel id: the allocator never hands an occupied id out twice (shared with C10)', floor=10) as r:
        A.include(ctx, r, 'c10', 'R10.1')
        A.include(ctx, r, 'c10', 'R10.2')

    with ctx.rule('R04.8', 'only replies enter a reply queue: a server-initiated Cancel answers on the wire, not into the caller queue (shared with C11)', floor=1) as r:
        A.check_script(ctx, r, arms, ('Method', 'n', 'basic', 'Cancel'), why='an unsolicited message in the reply queue is handed to the next call on that channel')
    with ctx.rule('R04.9', 'wrapper operations (Queue / Exchange / Consumer) wait exactly when the wire says so (shared with C12)', floor=30) as r:
        A.include(ctx, r, 'c12', 'R12.1', pick=(':field:nowait', ':returns', ':on'))

    with ctx.rule('R04.4', 'call = send on own sender, receive on own receiver, type-check; get / consume likewise', floor=6) as r:
        rows = P.table(ctx, H0 + 'call_message', ['self', 'message'])
        site = ctx.site(H0 + 'call_message')
        okr = [x for x in rows if x.conds == [(H0 + 'recv(self)?', 'io_loop::ChannelMessage::Method(_)')]]
        bad = [x for x in rows if x not in okr]
        r.check('call_message:ok', len(okr) == 1 and okr[0].effects[:2] == [H0 + 'send(self, message)', H0 + 'recv(self)'] and okr[0].value_str() == 'serialize::TryFromAmqpClass::try_from(%srecv(self)?.Method.0)' % H0, site,
                built=[x.row() for x in okr], why='send, then wait on the same handle, then check the reply type')
        r.check('call_message:other', len(bad) == 1 and bad[0].value_str() == 'Err(errors::Error::FrameUnexpected)', site, built=[x.row() for x in bad])
        evs, _ = ctx.events(H0 + 'call_message')
        tr = [S.show(e.term) for e in evs if e.kind == 'try']
        r.eq('call_message:send-error-propagated', tr, [H0 + 'send(self, message)?', H0 + 'recv(self)?'], site)
        ev = ctx.evaluator(0)
        t = ev.run_fn(H0 + 'call', [('var', 'self', -1), ('var', 'method', -2)])
        r.eq('call', S.show(t), '%scall_message(self, io_loop::IoLoopMessage::Send(%smake_buf(self, method)))' % (H0, H0), ctx.site(H0 + 'call'))
        for nm, var, val in (('get', 'GetOk(_)', 'Ok(%srecv(self)?.GetOk.0)' % H0), ('consume', 'ConsumeOk(_, _)', 'Ok((%srecv(self)?.ConsumeOk.0, %srecv(self)?.ConsumeOk.1))' % (H0, H0))):
            rows = P.table(ctx, H0 + nm)
            okr = [x for x in rows if x.conds == [(H0 + 'recv(self)?', 'io_loop::ChannelMessage::' + var)]]
            r.check(nm, len(rows) == 2 and len(okr) == 1 and okr[0].value_str() == val, ctx.site(H0 + nm), built=[x.row() for x in rows])
        ev = ctx.evaluator(0)
        t = ev.run_fn(H0 + 'recv', [('var', 'self', -1)])
        r.eq('recv:own-queue', S.show(t), 'std::result::Result::map_err(crossbeam_channel::Receiver::recv(self.rx), |$c0| errors::Error::EventLoopDropped)?', ctx.site(H0 + 'recv'))
        fn = ctx.fn('connection::Connection::open_channel')
        r.check('open_channel:&mut', fn['inputs'][0].startswith('&') and 'mut' in fn['inputs'][0], ctx.site('connection::Connection::open_channel'), built=fn['inputs'][0],
                why='channel allocation requests are serialised by the exclusive borrow')
        adt = ctx.adt('channel::Channel')
        inner = [f for f in adt['variants'][0]['fields'] if f['name'] == 'inner']
        r.check('Channel.inner:RefCell', len(inner) == 1 and inner[0]['ty'] == 'std::cell::RefCell<io_loop::channel_handle::ChannelHandle>', None, built=inner,
                why='RefCell makes Channel !Sync: no two threads can have a call outstanding on one channel')

    with ctx.rule('R04.5', 'nowait variants return without waiting for any reply', floor=5) as r:
        RECV = 'crossbeam_channel::Receiver::recv'
        for nm in ('call_nowait', 'send_content_header', 'send_content_body', 'set_return_handler', 'set_pub_confirm_handler'):
            root = H0 + nm
            ctx.fn(root)
            # the only wait a nowait operation may reach is the read of the queued close reason after a *failed* hand-off:
            # check_recv_for_error, called from `send` on the Err outcome of the channel send only (closure of map_err or Err arm)
            CRE = H0 + 'check_recv_for_error'
            seen = ctx.cg.reachable([root], blocked=(H0 + 'send::{closure#0}', CRE))
            paths = []
            for f in seen:
                if RECV in ctx.cg.edges.get(f, ()):
                    paths.append(ctx.cg.path_to(seen, f))
            sev, _ = ctx.events(H0 + 'send')
            cre = [e for e in sev if e.kind == 'call' and e.callee == CRE]
            snd = 'mio_extras::channel::SyncSender::send(self.tx, message)'
            on_failure = all(any(g[2] == 'closure' for g in e.guards) or (snd, 'Err(_)') in S.lits_at(e) for e in cre)
            callers_ok = ctx.callers(CRE) <= {H0 + 'send', H0 + 'allocate_channel', 'io_loop::io_loop_handle::IoLoopHandle0::set_blocked_tx', 'io_loop::io_loop_handle::IoLoopHandle0::allocate_channel'}
            ok = not paths and on_failure and callers_ok
            if not on_failure:
                paths.append(['check_recv_for_error is called outside the failed-send outcome', [S.lits_at(e) for e in cre]])
            if not callers_ok:
                paths.append(['callers of check_recv_for_error', sorted(ctx.callers(CRE))])
            r.check(nm, ok, ctx.site(root), built=paths, expected='no Receiver::recv reachable except through the failed-send closure of IoLoopHandle::send',
                    why='a nowait operation that waits for a reply the server never sends would hang')


def _round6(ctx):
    """Rules that are necessary conditions of this property too (found by seeding round 6)."""
    from rules import arms as A
    with ctx.rule('R04.10', "a Get reply's content is assembled per channel: each channel slot has its own collector and its tables are the ones C03 states (shared with C03)", floor=36) as r:
        A.include(ctx, r, 'c03', 'R03.1', pick=(':Get:', 'collect_get:', 'collect_header:idle', 'collect_body:idle', 'collect_header:rowcount', 'collect_body:rowcount'))
        A.include(ctx, r, 'c03', 'R03.5', pick=('GetOk', 'GetEmpty', ':get:', 'Header/-/-', 'Body/-/-', 'slot-addressing'))


def _round7(ctx):
    """Found by seeding round 7 (minimal one-line mutations)."""
    from rules import arms as A
    with ctx.rule('R04.11', 'a request reaches the I/O thread or the call fails: blocking hand-off send (never a dropped request with the caller left waiting); a channel opened after a back-pressure episode is polled (shared with C09, C18)', floor=4) as r:
        A.include(ctx, r, 'c09', 'R09.3', pick=('send',))
        A.include(ctx, r, 'c18', 'R18.2', pick=('flag',))


def _round8(ctx):
    """Rules that are necessary conditions of this property too (found by seeding round 8)."""
    from rules import arms as A
    with ctx.rule('R04.12', 'requests are taken from the channel queues again once the backlog is at or below the low-water mark (shared with C18)', floor=1) as r:
        A.include(ctx, r, 'c18', 'R18.2', pick=('edges',))
    with ctx.rule('R04.13', "a reply and a close error for the same channel both fit its reply queue: the I/O thread never fails a correct answer for lack of room (shared with C05)", floor=1) as r:
        A.include(ctx, r, 'c05', 'R05.3', pick=('slot/handle-pairing',))


def _round10(ctx):
    """Rules of other properties that are necessary conditions of this one too (found by seeding round 10: two cooperating sites, indirection)."""
    from rules import arms as A
    with ctx.rule('R04.14', "a request on any legal channel id is read by the I/O thread: the loop's own event tokens lie outside the channel ids and every token has its arm (shared with C10)", floor=2) as r:
        A.include(ctx, r, 'c10', 'R10.7', pick=('special-tokens-disjoint', 'token-dispatch-total'))
