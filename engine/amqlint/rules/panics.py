"""Panic inventory of the I/O thread (R07.1 / R20.1 / R10.x / R16): every panic-capable MIR
site reachable from the thread entry points must be discharged by a mechanically re-checked
rule or a reasoned table entry (spec/panic_discharge.py)."""
import os
import re
import sys

import hir as H
import mir as M
import sym as S
from core import MissingAnchor, Unrecognised

sys.path.insert(0, os.path.join(os.path.dirname(os.path.dirname(os.path.dirname(os.path.dirname(os.path.abspath(__file__))))), 'spec'))
import panic_discharge as PD  # noqa: E402

IO_ROOTS = ['io_loop::IoLoop::thread_main', 'io_loop::IoLoop::thread_main_tls']


def sp_key(sp):
    m = re.match(r'(\d+):(\d+)-(\d+):(\d+)', sp)
    return tuple(int(x) for x in m.groups()) if m else (0, 0, 0, 0)


def hir_root_of(ctx, path):
    """HIR of the function that lexically contains `path` (closures are inline in parents)."""
    fn = ctx.fns[path]
    if fn['dk'] == 'Closure':
        return ctx.fns.get(S.norm_path(fn['parent']))
    return fn


def site_list(ctx, path):
    """Panic-capable sites of one function with line-independent keys."""
    fn = ctx.fns[path]
    sites = M.panic_sites(path, fn)
    root = hir_root_of(ctx, path)
    macro_by_sp = {}
    if root and 'hir' in root:
        for n in H.walk(root['hir']):
            if n.get('k') == 'MacroCall':
                macro_by_sp.setdefault(n['sp'], n['name'])
    out = []
    for s in sites:
        if s['kind'] == 'panic':
            name = macro_by_sp.get(s['sp']) or s['detail']
            if name in ('panic_2015', 'panic_2021', 'panic_fmt', 'panic'):
                name = macro_by_sp.get(s['sp'], 'panic')
            s = dict(s, detail=name)
        elif s['kind'] == 'lib':
            s = dict(s, detail='::'.join(s['detail'].split('::')[-2:]))
        out.append(s)
    out.sort(key=lambda s: (s['kind'], s['detail'], sp_key(s['sp'])))
    cnt = {}
    for s in out:
        k = (s['kind'], s['detail'])
        s['key'] = '%s|%s|%s#%d' % (path, s['kind'], s['detail'], cnt.get(k, 0))
        cnt[k] = cnt.get(k, 0) + 1
    # debug_assert is compiled out of release builds and is on the client side; keep it visible anyway
    return out


class Checkers(object):
    """Mechanical discharge rules. Each returns (ok, text)."""

    def __init__(self, ctx):
        self.ctx = ctx
        self.cache = {}

    def run(self, name):
        if name not in self.cache:
            fn = getattr(self, 'chk_' + name, None)
            if fn is None:
                self.cache[name] = (False, 'unknown checker ' + name)
            else:
                try:
                    self.cache[name] = fn()
                except (MissingAnchor, Unrecognised, KeyError, IndexError, TypeError, AttributeError, AssertionError) as e:
                    self.cache[name] = (False, 'fail-closed: %s: %s' % (type(e).__name__, e))
        return self.cache[name]

    # ---------------------------------------------------------------- helpers
    def hir(self, path):
        return self.ctx.fn(path)['hir']

    def callers(self, target):
        return self.ctx.callers(target)

    def calls(self, root, suffix):
        return [n for n in H.walk(root) if n.get('k') in ('Call', 'MethodCall') and (S.norm_path(H.callee_path(n) or '')).endswith(suffix)]

    def if_guards(self, root, node_pred):
        res = H.ancestors(root, node_pred)
        return [(H.branch_guards(ch), n) for ch, n in res]

    # ---------------------------------------------------------------- frame_buffer
    def chk_parse_size_index_guarded(self):
        fnp = '<frame_buffer::AmqpFrameKind as frame_buffer::FrameKind>::parse_size'
        evs, _ = self.ctx.events(fnp)
        idx = [e for e in evs if e.kind == 'index']
        if len(idx) != 1:
            return False, 'expected exactly one index expression, found %d' % len(idx)
        base, rng = S.show(idx[0].term[1]), S.show(idx[0].term[2])
        need = ('(std::slice::len(%s) < %s.end)' % (base, rng), False)
        if need not in S.lits_at(idx[0]):
            return False, 'index not dominated by the false edge of `len(buf) < RANGE.end`: %s' % S.lits_at(idx[0])
        return True, 'buf[R] sits on the false edge of `buf.len() < R.end` (same buffer, same range constant)'

    def size_range(self):
        c = self.ctx.const('frame_buffer::AmqpFrameKind::AMQP_FRAME_SIZE_POS')
        t = S.Evaluator(self.ctx.fns, 0).eval(c['hir'], {}, [], None, [])
        if t[0] != 'struct' or not t[1].endswith('Range'):
            raise Unrecognised('AMQP_FRAME_SIZE_POS is not a Range literal: ' + S.show(t))
        f = dict(t[2])
        return int(S.show(f['start'])), int(S.show(f['end']))

    def chk_parse_size_unwrap_4_bytes(self):
        fnp = '<frame_buffer::AmqpFrameKind as frame_buffer::FrameKind>::parse_size'
        evs, _ = self.ctx.events(fnp)
        un = [e for e in evs if e.kind == 'call' and e.callee == 'std::result::Result::unwrap']
        if len(un) != 1:
            return False, 'expected one unwrap'
        POS = 'frame_buffer::AmqpFrameKind::AMQP_FRAME_SIZE_POS'
        if S.show(un[0].args[0]) != 'amq_protocol::types::parsing::parse_long_uint(buf[%s])' % POS:
            return False, 'unwrap is not applied to parse_long_uint(buf[AMQP_FRAME_SIZE_POS]): %s' % S.show(un[0].args[0])
        a, b = self.size_range()
        if b - a != 4:
            return False, 'range %d..%d is not 4 bytes long' % (a, b)
        return True, 'parse_long_uint on exactly %d bytes (range %d..%d) cannot fail' % (b - a, a, b)

    def chk_read_from_slice_guarded(self):
        evs, _ = self.ctx.events('frame_buffer::Inner::read_from')
        idx = [e for e in evs if e.kind == 'index']
        adv = [e for e in evs if e.kind == 'call' and e.callee.endswith('::advance')]
        if len(idx) != 1 or len(adv) != 1:
            return False, 'expected one slice and one advance (found %d, %d)' % (len(idx), len(adv))
        base, rng = idx[0].term[1], idx[0].term[2]
        if not (rng[0] == 'struct' and rng[1] == 'std::ops::RangeTo'):
            return False, 'slice is not `[..n]`'
        end = S.show(dict(rng[2])['end'])
        need = ('(std::slice::len(%s) < %s)' % (S.show(base), end), False)
        if need not in S.lits_at(idx[0]):
            return False, '`bytes[..frame_size]` is not on the true edge of `bytes.len() >= frame_size` (same terms)'
        if need not in S.lits_at(adv[0]):
            return False, 'advance() is not under the same guard'
        if S.show(adv[0].args[1]) != end:
            return False, 'advance() argument is not the guarded frame size'
        if S.show(base) != '<input_buffer::InputBuffer as bytes::Buf>::chunk(%s)' % S.show(adv[0].args[0]):
            return False, '`bytes` is not `self.buf.chunk()` of the buffer being advanced'
        return True, 'slice and advance use the frame size proven <= bytes.len() (= chunk of the advanced buffer)'

    # ---------------------------------------------------------------- heartbeats
    def chk_fire_sub_guarded(self):
        import paths as P
        rows = P.table(self.ctx, 'heartbeats::Heartbeat::fire', ['self', 'timer'])
        EL = 'std::time::Instant::elapsed(self.last)'
        n = 0
        for x in rows:
            subs = [e for e in x.effects if ' - ' in e]
            for e in subs:
                n += 1
                if '(self.interval - %s)' % EL not in e:
                    return False, 'a subtraction other than interval - elapsed: %s' % e
                ok = any(p is True and (re.match(r'^\(\(%s \+ .+\) < self\.interval\)$' % re.escape(EL), s_) or re.match(r'^\(\(.+ \+ %s\) < self\.interval\)$' % re.escape(EL), s_)) for s_, p in x.conds)
                if not ok:
                    return False, 'subtraction not on the false edge of `interval <= elapsed + _`: %s' % x.cond_strs()
        if n == 0:
            return False, 'expected a path computing interval - elapsed'
        return True, '`interval - elapsed` sits on the false edge of `interval <= elapsed + fudge`'

    def chk_heartbeat_start_interval_positive(self):
        c1 = self.callers('heartbeats::Heartbeat::start')
        c1 = set(c for c in c1)
        if c1 != {'io_loop::heartbeat_timers::RxTxHeartbeat::new'}:
            return False, 'Heartbeat::start has callers %s' % sorted(c1)
        if self.callers('io_loop::heartbeat_timers::RxTxHeartbeat::new') != {'io_loop::heartbeat_timers::HeartbeatTimers::start'}:
            return False, 'RxTxHeartbeat::new has unexpected callers'
        if self.callers('io_loop::heartbeat_timers::HeartbeatTimers::start') != {'io_loop::Inner::start_heartbeats'}:
            return False, 'HeartbeatTimers::start has unexpected callers'
        # intervals handed to Heartbeat::start: `interval` and `K * interval` with K >= 1 (read off the evaluated constructor term)
        k = int(self.ctx.const('io_loop::heartbeat_timers::MAX_MISSED_SERVER_HEARTBEATS')['bits'])
        ev = self.ctx.evaluator(0)
        ev.run_fn('io_loop::heartbeat_timers::RxTxHeartbeat::new', [('var', 'timer', -1), ('var', 'interval', -2)])
        starts = [e for e in ev.events if e.kind == 'call' and e.callee == 'heartbeats::Heartbeat::start']
        if len(starts) != 2:
            return False, 'RxTxHeartbeat::new: expected two Heartbeat::start calls'
        for e in starts:
            a = S.show(e.args[1])
            if a not in ('interval', '(io_loop::heartbeat_timers::MAX_MISSED_SERVER_HEARTBEATS * interval)', '(interval * io_loop::heartbeat_timers::MAX_MISSED_SERVER_HEARTBEATS)') or k < 1:
                return False, 'Heartbeat::start interval argument is neither `interval` nor `K * interval`: ' + a
        # start_heartbeats: start() only on the paths where interval is not 0, with from_secs of that same value
        import paths as P
        rows = P.table(self.ctx, 'io_loop::Inner::start_heartbeats', ['self', 'interval'])
        START = 'io_loop::heartbeat_timers::HeartbeatTimers::start(self.heartbeats, std::time::Duration::from_secs(interval))'
        n = 0
        for x in rows:
            st = [e for e in x.effects if e.startswith('io_loop::heartbeat_timers::HeartbeatTimers::start(')]
            if not st:
                continue
            n += 1
            if st != [START]:
                return False, 'start() argument is not Duration::from_secs(interval): %s' % st
            if not (('(0 < interval)', True) in x.conds or ('(0 == interval)', False) in x.conds):
                return False, 'start() is not on the true edge of `interval > 0`: %s' % x.cond_strs()
        if n != 1:
            return False, 'start_heartbeats: expected start() on exactly one path'
        return True, 'only caller chain start_heartbeats(interval > 0) -> from_secs(interval) -> {interval, %d*interval}' % k

    def chk_heartbeat_timers_started_once(self):
        if self.callers('io_loop::heartbeat_timers::HeartbeatTimers::start') != {'io_loop::Inner::start_heartbeats'}:
            return False, 'HeartbeatTimers::start has unexpected callers'
        cs = self.callers('io_loop::Inner::start_heartbeats')
        if cs != {'io_loop::handshake_state::HandshakeState::process'}:
            return False, 'start_heartbeats callers: %s' % sorted(cs)
        tbl = handshake_transitions(self.ctx)
        arm = tbl.get('Tune')
        if arm is None or 'io_loop::Inner::start_heartbeats' not in arm['calls']:
            return False, 'start_heartbeats is not called from the Tune arm'
        if arm['next'] != ['Open']:
            return False, 'Tune arm does not end in state Open: %s' % arm['next']
        # nothing leads back to Tune except Secure, to Secure except Start, to Start: nothing
        for st, a in tbl.items():
            for nx in a['next']:
                if nx == 'Tune' and st != 'Secure':
                    return False, 'state %s re-enters Tune' % st
                if nx == 'Secure' and st != 'Start':
                    return False, 'state %s re-enters Secure' % st
                if nx == 'Start':
                    return False, 'state %s re-enters Start' % st
        return True, 'timers are started only in the Tune arm, which moves to Open and is never re-entered'

    def chk_fire_only_after_start(self):
        for f in ('fire_rx', 'fire_tx'):
            cs = self.callers('io_loop::heartbeat_timers::HeartbeatTimers::' + f)
            if cs != {'io_loop::Inner::process_heartbeat_timers'}:
                return False, '%s callers: %s' % (f, sorted(cs))
        st = self.callers('mio_extras::timer::Timer::set_timeout')
        if not st <= {'heartbeats::Heartbeat::start', 'heartbeats::Heartbeat::fire'}:
            return False, 'timeouts are armed outside Heartbeat::{start,fire}: %s' % sorted(st)
        # the `heartbeats` field is only ever assigned Some(..) (in start); fire_* are driven by expired timeouts
        n_assign = 0
        for p, fn in self.ctx.fns.items():
            if 'hir' not in fn:
                continue
            for n in H.walk(fn['hir']):
                if n.get('k') == 'Assign' and H.peel(n['l']).get('k') == 'Field' and H.peel(n['l'])['name'] == 'heartbeats' \
                        and 'HeartbeatTimers' in (H.peel(n['l'])['e'].get('ty', '')):
                    n_assign += 1
                    if p != 'io_loop::heartbeat_timers::HeartbeatTimers::start' or not H.term(n['r']).startswith('Some('):
                        return False, 'HeartbeatTimers.heartbeats assigned in %s' % p
        if n_assign != 1:
            return False, 'expected exactly one assignment of HeartbeatTimers.heartbeats'
        # the fire_* calls happen only for a kind polled from the timer
        root = self.hir('io_loop::Inner::process_heartbeat_timers')
        evs = [n for n in H.walk(root) if n.get('k') == 'MethodCall' and n['name'] == 'poll' and 'Timer' in n.get('recv_ty', '')]
        if len(evs) != 1:
            return False, 'process_heartbeat_timers does not poll the timer exactly once per iteration'
        return True, 'fire_* only runs for a timeout polled from the timer; timeouts are armed only by Heartbeat::{start,fire}'

    # ---------------------------------------------------------------- io_loop
    def chk_handler_messages_never_on_channel0(self):
        ctx = self.ctx
        makers = {}
        for p, fn in ctx.fns.items():
            if 'hir' not in fn:
                continue
            for n in H.walk(fn['hir']):
                if n.get('k') == 'Call' and n['f'].get('k') == 'Def' and n['f'].get('dk', '').startswith('Ctor'):
                    cp = S.norm_path(n['f']['path'])
                    if cp in ('io_loop::IoLoopMessage::SetReturnHandler', 'io_loop::IoLoopMessage::SetPubConfirmHandler'):
                        makers.setdefault(cp, set()).add(ctx.owner(p))
        want = {'io_loop::IoLoopMessage::SetReturnHandler': {'io_loop::io_loop_handle::IoLoopHandle::set_return_handler'},
                'io_loop::IoLoopMessage::SetPubConfirmHandler': {'io_loop::io_loop_handle::IoLoopHandle::set_pub_confirm_handler'}}
        if makers != want:
            return False, 'handler messages are constructed in %s' % makers
        for m, ch in (('set_return_handler', 'io_loop::channel_handle::ChannelHandle::set_return_handler'),
                      ('set_pub_confirm_handler', 'io_loop::channel_handle::ChannelHandle::set_pub_confirm_handler')):
            cs = self.callers('io_loop::io_loop_handle::IoLoopHandle::' + m)
            if cs != {ch}:
                return False, '%s callers: %s' % (m, sorted(cs))
        # ChannelHandle values are built only in Channel0Handle::open_channel from an allocated (non-zero) id
        built = set()
        for p, fn in ctx.fns.items():
            if 'hir' not in fn:
                continue
            for n in H.walk(fn['hir']):
                if n.get('k') == 'Struct' and H.res_path(n['res']) == 'io_loop::channel_handle::ChannelHandle':
                    built.add(ctx.owner(p))
        if built != {'io_loop::channel_handle::Channel0Handle::open_channel'}:
            return False, 'ChannelHandle constructed in %s' % sorted(built)
        ok, why = self.run('explicit_id_zero_rejected')
        if not ok:
            return False, 'a ChannelHandle for id 0 can exist: ' + why
        return True, 'Set*Handler messages originate only from ChannelHandle (ids >= 1), never from the channel-0 handle'

    def chk_explicit_id_zero_rejected(self):
        g = insert_guards(self.ctx)
        if not g['zero']:
            return False, 'ChannelSlots::insert(Some(id)) has no `id == 0` / `id < 1` rejection before make_entry'
        return True, 'insert rejects id 0'

    def chk_process_message_slot_present(self):
        root = self.hir('io_loop::Inner::process_channel_message')
        un = H.ancestors(root, lambda n: n.get('k') == 'MethodCall' and n['name'] == 'unwrap')
        if len(un) != 2:
            return False, 'expected two unwraps'
        cid = self.ctx.fn('io_loop::Inner::process_channel_message')['params'][1]['id']
        for ch, n in un:
            recv = H.peel(n['recv'])
            if not (recv.get('k') == 'MethodCall' and recv['name'] == 'get_mut' and H.local_id(recv['args'][0]) == cid):
                return False, 'unwrap not applied to chan_slots.get_mut(channel_id)'
            # the arm's block starts with assert!(channel_id != 0)
            blk = [a for a, role in ch if a.get('k') == 'Block']
            blk = blk[-1]
            first = [s for s in blk['stmts'] if not (s['k'] in ('Semi', 'ExprStmt') and H.is_log(s['e']))][0]
            e = first.get('e', {})
            if not (e.get('k') == 'MacroCall' and e['name'] == 'assert' and e['leaves'] and H.peel(e['leaves'][0]).get('k') == 'Binary'
                    and H.peel(e['leaves'][0])['op'] == '!=' and H.local_id(H.peel(e['leaves'][0])['l']) == cid and H.term(H.peel(e['leaves'][0])['r']) == '0'):
                return False, 'arm does not start with assert!(channel_id != 0)'
        cs = self.callers('io_loop::Inner::process_channel_message')
        if cs != {'io_loop::Inner::handle_channel0_readable', 'io_loop::Inner::handle_channel_readable'}:
            return False, 'callers: %s' % sorted(cs)
        c0 = self.calls(self.hir('io_loop::Inner::handle_channel0_readable'), 'process_channel_message')
        if not all(H.term(c['args'][0]) == '0' for c in c0):
            return False, 'handle_channel0_readable passes a non-zero id'
        # handle_channel_readable: slot looked up (Some) for the same id in the same iteration
        events, _ = self.ctx.events('io_loop::Inner::handle_channel_readable')
        p = self.ctx.fn('io_loop::Inner::handle_channel_readable')['params'][1]['id']
        gets = [e for e in events if e.kind == 'call' and e.callee.endswith('ChannelSlots::get')]
        procs = [e for e in events if e.kind == 'call' and e.callee.endswith('process_channel_message')]
        if len(gets) != 1 or len(procs) != 1:
            return False, 'handle_channel_readable shape changed'
        if not (S.dominates(gets[0], procs[0]) and gets[0].args[1] == procs[0].args[1] and procs[0].args[1][0] == 'var'):
            return False, 'process_channel_message is not preceded by chan_slots.get(same id)'
        if (S.show(gets[0].term), 'Some(_)') not in S.lits_at(procs[0]):
            return False, 'process_channel_message is not under the Some(slot) outcome of the lookup'
        return True, 'non-zero ids come from handle_channel_readable after a successful lookup of the same id; channel 0 never sends Set*Handler'

    def chk_write_loop_guarded(self):
        """Read off the events of write_to_stream: `outbuf[pos..]` (and any `len - pos`) only where (pos < len) holds with
        len = outbuf.len() taken before the loop, and nothing but drain_written / clear touches the buffer."""
        fnp = 'io_loop::Inner::write_to_stream'
        evs, _ = self.ctx.events(fnp)
        idx = [e for e in evs if e.kind == 'index']
        if len(idx) != 1:
            return False, 'expected one index'
        base, rng = idx[0].term[1], idx[0].term[2]
        if not (rng[0] == 'struct' and rng[1] == 'std::ops::RangeFrom'):
            return False, 'index is not `[pos..]`'
        pos = S.show(dict(rng[2])['start'])
        LEN = 'serialize::SealableOutputBuffer::len(%s)' % S.show(base)
        need = ('(%s < %s)' % (pos, LEN), True)
        if need not in S.lits_at(idx[0]):
            return False, '`outbuf[pos..]` not on the true edge of `pos < len`'
        lens = [e for e in evs if e.kind == 'call' and S.show(e.term) == LEN]
        if not lens or any(g[2] == 'loop' for g in lens[0].guards):
            return False, '`len` is not the length of the indexed buffer taken before the loop'
        for e in evs:
            if e.kind == 'call' and e.callee.startswith('serialize::SealableOutputBuffer::') and e.callee.split('::')[-1] not in ('len', 'drain_written', 'clear', 'is_empty') \
                    and any(g[2] == 'loop' for g in e.guards):
                return False, 'outbuf.%s() inside the write loop' % e.callee.split('::')[-1]
        return True, '`outbuf[pos..]` sits on the true edge of `pos < len`, len = outbuf.len() taken before the loop, buffer not resized inside the loop'

    def chk_outbuf_index_callers_guarded(self):
        a = self.callers('<serialize::SealableOutputBuffer as std::ops::Index<std::ops::RangeFrom<usize>>>::index')
        b = self.callers('<serialize::OutputBuffer as std::ops::Index<std::ops::RangeFrom<usize>>>::index')
        if a != {'io_loop::Inner::write_to_stream'}:
            return False, 'SealableOutputBuffer index callers: %s' % sorted(a)
        if b != {'<serialize::SealableOutputBuffer as std::ops::Index<std::ops::RangeFrom<usize>>>::index'}:
            return False, 'OutputBuffer index callers: %s' % sorted(b)
        return self.run('write_loop_guarded')

    def chk_drain_written_callers_guarded(self):
        a = self.callers('serialize::OutputBuffer::drain_written')
        b = self.callers('serialize::SealableOutputBuffer::drain_written')
        if a != {'serialize::SealableOutputBuffer::drain_written'} or b != {'io_loop::Inner::write_to_stream'}:
            return False, 'drain_written callers: %s / %s' % (sorted(a), sorted(b))
        ok, why = self.run('write_loop_guarded')
        if not ok:
            return ok, why
        evs, _ = self.ctx.events('io_loop::Inner::write_to_stream')
        calls = [e for e in evs if e.kind == 'call' and e.callee == 'serialize::SealableOutputBuffer::drain_written']
        if len(calls) != 1:
            return False, 'expected one drain_written call'
        arg = S.show(calls[0].args[1])
        LEN = 'serialize::SealableOutputBuffer::len(%s)' % S.show(calls[0].args[0])
        if ('(%s < %s)' % (arg, LEN), True) not in S.lits_at(calls[0]):
            return False, 'drain_written argument is not the loop position under pos < len'
        return True, 'drain_written(pos) only from the write loop where pos < len'

    def chk_handshake_tokens_only_stream_heartbeat(self):
        fnp = 'io_loop::IoLoop::wait_for_amqp_handshake'
        fn = self.ctx.fn(fnp)
        pid = fn['params'][0]['id']
        uses = H.ancestors(fn['hir'], lambda n: n.get('k') == 'Local' and n['id'] == pid)
        if len(uses) != 1:
            return False, 'channel-0 handle used %d times while waiting for the handshake' % len(uses)
        ch, n = uses[0]
        in_new = any(a.get('k') == 'Call' and (H.callee_path(a) or '').endswith('Channel0Handle::new') for a, r in ch)
        arm_ok = False
        for a, r in ch:
            if a.get('k') == 'Match' and H.peel(a['scrut']).get('k') == 'MethodCall' and H.peel(a['scrut'])['name'] == 'recv':
                for arm in a['arms']:
                    if H.pat_term(arm['pat']).startswith('Ok(') and any(x is n for x in H.walk(arm['body'])):
                        arm_ok = True
        if not (in_new and arm_ok):
            return False, 'the channel-0 handle is touched before the handshake result arrives'
        for st in ('io_loop::IoLoop::start', 'io_loop::IoLoop::start_tls'):
            if not self.ctx.has_fn(st):
                continue
            sfn = self.ctx.fn(st)
            # ch0_handle local is only passed to wait_for_amqp_handshake
            binds = [b for b in H.walk(sfn['hir']) if b.get('k') == 'Bind' and b['name'] == 'ch0_handle']
            if len(binds) != 1:
                return False, st + ': ch0_handle binding not found'
            us = H.ancestors(sfn['hir'], lambda x: x.get('k') == 'Local' and x['id'] == binds[0]['id'])
            if len(us) != 1 or not any(a.get('k') == 'Call' and (H.callee_path(a) or '').endswith('wait_for_amqp_handshake') for a, r in us[0][0]):
                return False, st + ': ch0_handle escapes before the handshake completes'
        ok, why = self.run('handshake_done_signalled_after_handshake')
        if not ok:
            return False, why
        return True, 'the client-side channel-0 handle is parked until the handshake result arrives: only STREAM/HEARTBEAT can fire'

    def chk_handshake_done_signalled_after_handshake(self):
        events, _ = self.ctx.events('io_loop::IoLoop::thread_main')
        hs = [e for e in events if e.kind == 'call' and e.callee.endswith('run_amqp_handshake')]
        snd = [e for e in events if e.kind == 'call' and e.callee.endswith('Sender::send')]
        if len(hs) != 1 or len(snd) != 1:
            return False, 'thread_main shape changed'
        if not S.dominates(hs[0], snd[0]):
            return False, 'handshake_done is sent before the handshake ran'
        # the send sits after `run_amqp_handshake(..)?`
        tr = [e for e in events if e.kind == 'try' and e.idx > hs[0].idx and e.idx < snd[0].idx and e.term[1] == hs[0].term]
        if not tr:
            return False, 'result of run_amqp_handshake is not propagated with `?` before signalling'
        return True, 'handshake_done_tx.send is dominated by the Ok outcome of run_amqp_handshake'

    def chk_steady_token_domain(self):
        return token_domain(self.ctx)

    def chk_seal_precedes_closing_state(self):
        return seal_before_closing_states(self.ctx)

    def chk_handshake_done_states(self):
        ctx = self.ctx
        done = match_bool_table(ctx, 'io_loop::IoLoop::is_handshake_done')
        false_states = sorted(k for k, v in done.items() if v == 'false')
        arms = unreachable_arm_variants(ctx, 'io_loop::IoLoop::run_amqp_handshake', ['self', 'stream', 'options', 'have_written_to_socket'])
        if arms is None or len(arms) != 1:
            return False, 'expected one unreachable arm'
        if sorted(arms[0]) != false_states:
            return False, 'unreachable arm covers %s but is_handshake_done is false for %s' % (sorted(arms[0]), false_states)
        ok, why = self.run('io_loop_returns_ok_only_when_done')
        if not ok:
            return False, why
        return True, 'run_io_loop returns Ok only when is_handshake_done, which is constantly false for exactly %s' % false_states

    def chk_connection_done_states(self):
        ctx = self.ctx
        done = match_bool_table(ctx, 'io_loop::IoLoop::is_connection_done')
        false_states = sorted(k for k, v in done.items() if v == 'false')
        arms = unreachable_arm_variants(ctx, 'io_loop::IoLoop::run_connection', ['self', 'stream', 'ch0_slot', 'pending_frames'])
        if arms is None or len(arms) != 1 or sorted(arms[0]) != false_states:
            return False, 'unreachable arm %s vs is_connection_done false for %s' % (arms, false_states)
        ok, why = self.run('io_loop_returns_ok_only_when_done')
        if not ok:
            return False, why
        return True, 'run_io_loop returns Ok only when is_connection_done, which is constantly false for exactly %s' % false_states

    def chk_io_loop_returns_ok_only_when_done(self):
        events, _ = self.ctx.events('io_loop::IoLoop::run_io_loop')
        rets = [e for e in events if e.kind == 'ret' and S.show(e.term).startswith('Ok(')]
        fn = self.ctx.fn('io_loop::IoLoop::run_io_loop')
        is_done_id = fn['params'][5]['id']
        if not rets:
            return False, 'no Ok return found'
        for r in rets:
            ok = False
            for g in r.guards:
                if any(x.startswith('if(value:is_done(') for x in S.guard_strs(g)):
                    ok = True
            if not ok:
                return False, 'run_io_loop returns Ok without consulting is_done'
        # the loop never falls out: tail expression is the loop itself
        return True, 'every `return Ok(())` of run_io_loop is on the true edge of is_done(self, state)'

    def chk_tls_state_some_when_done(self):
        ok, why = self.run('io_loop_returns_ok_only_when_done')
        if not ok:
            return False, why
        root = self.hir('io_loop::IoLoop::run_tls_handshake')
        call = self.calls(root, 'run_io_loop')
        if len(call) != 1:
            return False, 'run_io_loop call not found'
        args = call[0]['args']
        st = H.peel(args[1])
        is_done = H.peel(args[4])
        if is_done.get('k') != 'Closure':
            return False, 'is_done is not a closure'
        body = H.peel(is_done['body'])
        sp = is_done['params'][1]
        if not (body.get('k') == 'MethodCall' and body['name'] == 'is_some' and H.local_id(body['recv']) == sp.get('id')):
            return False, 'is_done is not `state.is_some()`'
        un = self.calls(root, 'Option::unwrap')
        if len(un) != 1 or H.local_id(un[0]['recv']) != H.local_id(st):
            return False, 'unwrap is not applied to the state handed to run_io_loop'
        return True, 'run_io_loop(..)? returned Ok, hence is_done = state.is_some() held for the unwrapped state'

    def chk_channel_max_set_before_any_allocation(self):
        cs = self.callers('io_loop::channel_slots::ChannelSlots::set_channel_max')
        if cs != {'io_loop::IoLoop::thread_main'}:
            return False, 'set_channel_max callers: %s' % sorted(cs)
        events, _ = self.ctx.events('io_loop::IoLoop::thread_main')
        sets = [e for e in events if e.kind == 'call' and e.callee.endswith('set_channel_max')]
        runs = [e for e in events if e.kind == 'call' and e.callee.endswith('run_connection')]
        if len(sets) != 1 or len(runs) != 1 or not S.dominates(sets[0], runs[0]):
            return False, 'set_channel_max does not precede run_connection exactly once'
        if any(g[2] == 'loop' for g in sets[0].guards):
            return False, 'set_channel_max inside a loop'
        for f, want in (('io_loop::channel_slots::ChannelSlots::insert', {'io_loop::Inner::allocate_channel'}),
                        ('io_loop::Inner::allocate_channel', {'io_loop::IoLoop::handle_steady_event'}),
                        ('io_loop::IoLoop::handle_steady_event', {'io_loop::IoLoop::run_connection'}),
                        ('io_loop::IoLoop::run_connection', {'io_loop::IoLoop::thread_main'})):
            c = self.callers(f)
            if c != want:
                return False, '%s is reachable from %s' % (f, sorted(c))
        return True, 'channel_max is set once in thread_main before run_connection, the only path to ChannelSlots::insert'

    def chk_never_used_counter_cannot_overflow(self):
        """Read off the path table (helpers read through): `next_channel_id += 1` happens only on paths where
        `next_channel_id <= channel_max` was found to hold, and the counter's type is wider than the bound's."""
        import paths as P
        fnp = 'io_loop::channel_slots::ChannelSlots::insert_unused_channel_id'
        rows = P.table(self.ctx, fnp, ['self', 'make_entry'])
        INC, G = 'self.next_channel_id += 1', '(self.channel_max < self.next_channel_id)'
        incs = [x for x in rows if any(e.startswith('self.next_channel_id') and ('+=' in e or ' = ' in e) for e in x.effects)]
        if not incs:
            return False, 'expected exactly one `+=`'
        for x in incs:
            writes = [e for e in x.effects if e.startswith('self.next_channel_id') and ('+=' in e or ' = ' in e)]
            if writes != [INC]:
                return False, 'increment is not 1: %s' % writes
            if (G, False) not in x.conds:
                return False, '`+= 1` is not guarded by a comparison of the counter against channel_max'
        adt = self.ctx.adts.get('io_loop::channel_slots::ChannelSlots')
        tys = {f['name']: f['ty'] for f in adt['variants'][0]['fields']} if adt else {}
        widths = {'u8': 8, 'u16': 16, 'u32': 32, 'u64': 64, 'usize': 64}
        lt, rt = tys.get('next_channel_id'), tys.get('channel_max')
        if lt in widths and rt in widths and widths[rt] < widths[lt]:
            return True, '`next_channel_id += 1` only where `next_channel_id <= channel_max` (%s widened to %s): the bound is below %s::MAX' % (rt, lt, lt)
        return False, 'counter type %s is not wider than the bound type %s: `+= 1` can overflow at the bound' % (lt, rt)

    def chk_reply_text_truncation_safe(self):
        """Read off the path table of client_exception (helpers read through): truncate(text, end) only where
        N < text.len(), end starts at N <= 255, is only ever decremented while !text.is_char_boundary(end), and
        truncate runs on the exit edge is_char_boundary(end)."""
        import paths as P
        fnp = 'io_loop::connection_state::ConnectionState::client_exception'
        rows = P.table(self.ctx, fnp, ['self', 'inner', 'reply_code', 'reply_text'])
        LEN = 'std::string::String::len(reply_text)'
        trunc_rows = [x for x in rows if any(e.startswith('std::string::String::truncate(') for e in x.effects)]
        if len(trunc_rows) != 1:
            return False, 'expected truncate on exactly one path'
        x = trunc_rows[0]
        tr = [e for e in x.effects if e.startswith('std::string::String::truncate(')]
        m = re.match(r'^std::string::String::truncate\(reply_text, (\$m\d+)\)$', tr[0]) if len(tr) == 1 else None
        if not m and len(tr) == 1:
            # the same search written as an iterator: the highest char boundary in 0..=N, else 0 (which always is one)
            m2 = re.match(r'^std::string::String::truncate\(reply_text, std::option::Option::unwrap_or\(<std::iter::Rev<I> as std::iter::Iterator>::find\(std::iter::Iterator::rev\(std::ops::RangeInclusive::new\(0, (\w[\w:]*)\)\), '
                          r'\|\$c0\| std::str::is_char_boundary\(reply_text, \$c0\)\), 0\)\)$', tr[0])
            if m2:
                bound = m2.group(1)
                c = self.ctx.consts.get(bound)
                n = int(bound) if bound.isdigit() else (int(c['bits']) if c is not None and c.get('bits') is not None else None)
                if n is None or n > 255:
                    return False, 'the search starts at %s, not at a constant <= 255' % bound
                if ('(%s < %s)' % (bound, LEN), True) not in x.conds:
                    return False, 'truncate is not on the true edge of `text.len() > %s`' % bound
                short = [y for y in rows if ('(%s < %s)' % (bound, LEN), False) in y.conds]
                if len(short) != 1 or any('truncate' in e or e.startswith('reply_text') for e in short[0].effects):
                    return False, 'a text of at most %s bytes must be left alone' % bound
                return True, 'truncate(p) with p the highest char boundary in 0..=%s (< len), or 0: in range and on a boundary' % bound
        if not m:
            return False, 'truncate is not truncate(reply_text, <position local>): %s' % tr
        end = m.group(1)
        inits = [e for e in x.effects if e.startswith('let %s = ' % end)]
        if len(inits) != 1:
            return False, 'position initialisation not found'
        bound = inits[0][len('let %s = ' % end):]
        if bound.isdigit():
            n = int(bound)
        else:
            c = self.ctx.consts.get(bound)
            n = int(c['bits']) if c is not None and c.get('bits') is not None else None
        if n is None or n > 255:
            return False, 'the position starts at %s, not at a constant <= 255' % bound
        if ('(%s < %s)' % (bound, LEN), True) not in x.conds:
            return False, 'truncate is not on the true edge of `text.len() > %s`' % bound
        BND = 'std::str::is_char_boundary(reply_text, %s)' % end
        if (BND, True) not in x.conds:
            return False, 'truncate(end) is not on the exit edge is_char_boundary(end)'
        for y in rows:
            for e in y.effects:
                if e.startswith(end + ' ') and not e.startswith('let '):
                    if e != '%s -= 1' % end or (BND, False) not in y.conds or ('(%s < %s)' % (bound, LEN), True) not in y.conds:
                        return False, 'the position is changed other than by `end -= 1` while !is_char_boundary(end): %s under %s' % (e, y.cond_strs())
        short = [y for y in rows if ('(%s < %s)' % (bound, LEN), False) in y.conds]
        if len(short) != 1 or any('truncate' in e or e.startswith('reply_text') for e in short[0].effects):
            return False, 'a text of at most %s bytes must be left alone' % bound
        return True, 'end starts at %s < len, only decreases while not a char boundary (0 always is one), so truncate(end) is in range and on a boundary' % bound

    def chk_tls_inner_restored(self):
        fnp = '<stream::native_tls::TlsHandshakeStream<S> as stream::HandshakeStream>::progress_handshake'
        if not self.ctx.has_fn(fnp):
            return True, 'TLS not compiled in this configuration'
        events, _ = self.ctx.events(fnp)
        # every path that returns Ok(None) (handshake to be continued) re-assigns self.inner = Some(..)
        assigns = [e for e in events if e.kind == 'assign' and S.show(e.lhs) == 'self.inner' and S.show(e.term).startswith('Some(')]
        if len(assigns) != 1:
            return False, 'self.inner is not restored exactly once'
        ok_none = [e for e in events if e.kind == 'ctor' and S.show(e.term) == 'Ok(None)']
        if not ok_none or not all(any(S.dominates(a, o) and a.guards[:len(o.guards)] == o.guards[:len(a.guards)] for a in assigns) for o in ok_none):
            return False, 'an Ok(None) path leaves self.inner empty'
        ok, why = self.run('tls_state_some_when_done')
        if not ok:
            return False, why
        # progress_handshake is only driven while the state is still None
        evs2, _ = self.ctx.events('io_loop::IoLoop::run_tls_handshake')
        calls = [e for e in evs2 if e.kind == 'call' and e.callee.endswith('progress_handshake')]
        if len(calls) != 1 or not any(p_ == 'None' and s_.startswith('$c') for s_, p_ in S.lits_at(calls[0])):
            return False, 'progress_handshake is not guarded by state.is_none()'
        return True, 'inner is None only after the handshake finished or failed; the loop then exits before any further use'


# --------------------------------------------------------------------------- shared structural readers

def variant_of(pat_term):
    m = re.match(r'([\w:]+?)(?:\(|\{|$)', pat_term)
    return m.group(1).split('::')[-1] if m else pat_term


def variants_in_pred(pred):
    """Variant names of a canonical whole-variant predicate `E::A(_) | E::B`."""
    out = []
    for part in pred.split(' | '):
        m = re.match(r'^(?:[\w:<>, ]+::)?(\w+)(?:\(.*\)|\{.*\})?$', part.strip())
        if not m:
            return None
        out.append(m.group(1))
    return out


def match_bool_table(ctx, fnpath):
    """fn(&self, state) -> bool deciding on the state's variant (match / matches! / if-let, read as a path table):
    variant -> 'true' / 'false' / term."""
    import paths as P
    fn = ctx.fn(fnpath)
    names = ['self', 'state'][:len(fn.get('params', []))]
    rows = P.table(ctx, fnpath, names)
    out = {}
    for x in rows:
        cs = [c for c in x.conds if c[0] == 'state' and isinstance(c[1], str)]
        if len(cs) != 1:
            raise Unrecognised('%s: a path that does not decide on the variant of `state`: %s' % (fnpath, x.cond_strs()))
        vs = variants_in_pred(cs[0][1])
        if vs is None:
            raise Unrecognised('%s: pattern %s is not a set of whole variants' % (fnpath, cs[0][1]))
        rest = [c for c in x.conds if c is not cs[0]]
        v = x.value_str()
        if rest:
            raise Unrecognised('%s: extra conditions %s' % (fnpath, rest))
        for nm in vs:
            if nm in out and out[nm] != v:
                raise Unrecognised('%s: variant %s decided twice' % (fnpath, nm))
            out[nm] = v
    return out


def unreachable_arm_variants(ctx, fnpath, params, subject='$m0'):
    """Variants of the final state for which the function runs into unreachable!() (paths read through helpers)."""
    import paths as P
    rows = P.table(ctx, fnpath, params)
    out = []
    for x in rows:
        if x.done == 'panic' and 'unreachable!()' in x.effects:
            cs = [c for c in x.conds if c[0] == subject and isinstance(c[1], str)]
            if not cs:
                return None
            vs = variants_in_pred(cs[-1][1])
            if vs is None:
                return None
            out.append(vs)
    return out


def handshake_transitions(ctx):
    """HandshakeState::process, from its path table: state variant -> {'calls': callees on any path in that state,
    'next': states installed on any path, 'rows': the paths}"""
    import paths as P
    fnp = 'io_loop::handshake_state::HandshakeState::process'
    rows = P.table(ctx, fnp, ['self', 'inner', 'frame'])
    tbl = {}
    for x in rows:
        st = [pred for subj, pred in x.conds if subj == 'self' and isinstance(pred, str) and 'HandshakeState::' in pred and not pred.startswith('not ')]
        if not st:
            continue
        for alt in st[0].split(' | '):
            nme = variant_of(alt)
            t = tbl.setdefault(nme, {'calls': [], 'next': [], 'rows': []})
            t['rows'].append(x)
            for e in x.effects:
                m = re.match(r'^self = ([\w:]+)', e)
                if m:
                    if m.group(1).split('::')[-1] not in t['next']:
                        t['next'].append(m.group(1).split('::')[-1])
                elif not e.startswith('let ') and '(' in e:
                    t['calls'].append(e.split('(')[0])
    if not tbl:
        raise Unrecognised('HandshakeState::process: no path is decided by the state')
    return tbl


def insert_guards(ctx):
    """Which rejections dominate make_entry in ChannelSlots::insert(Some(id))."""
    fnp = 'io_loop::channel_slots::ChannelSlots::insert'
    events, _ = ctx.events(fnp)
    mk = [e for e in events if e.kind == 'callvalue' and e.callee == 'make_entry']
    if len(mk) != 1:
        raise Unrecognised('ChannelSlots::insert: make_entry call not found')
    idt = mk[0].args[0]
    res = {'zero': False, 'max': False, 'id': S.show(idt), 'guards': [g[3] for g in mk[0].guards]}
    # canonical literals that hold where make_entry is called (negations of the rejecting tests, in any
    # spelling: `id == 0 || id > max`, `!(1..=max).contains(&id)`, two separate ifs, a helper used with `?`)
    import canon
    ids = S.show(idt)
    lits = []
    for g in mk[0].guards:
        if g[2] == 'if' and g[4] is not None and not (len(g) > 5 and g[5] and g[5].get('let')):
            lits.extend(canon.cond(g[4], g[1] == 'then'))
    for subj, pred in lits:
        if (subj, pred) in (('(0 == %s)' % ids, False), ('(%s < 1)' % ids, False), ('(0 < %s)' % ids, True)):
            res['zero'] = True
        if (subj, pred) == ('(self.channel_max < %s)' % ids, False):
            res['max'] = True
    res['guards'] = [x for g in mk[0].guards for x in S.guard_strs(g)]
    res['error_on_reject'] = [S.show(e.term) for e in events if e.kind == 'ret' and any(g[2] == 'if' and g[1] == 'then' for g in e.guards)]
    return res


def token_domain(ctx):
    """R20.4: the tokens ever registered are all handled before the `_ => unreachable!()` arm."""
    allowed_consts = {'io_loop::STREAM', 'io_loop::HEARTBEAT', 'io_loop::ALLOC_CHANNEL', 'io_loop::SET_BLOCKED_TX'}
    regs = registrations(ctx)
    for p, kind, tok, node, _h, _ty in regs:
        if kind == 'deregister':
            continue
        if tok in allowed_consts or tok == 'mio::Token(0)':
            continue
        m = re.match(r'^mio::Token\((\((.+) as usize\)|[A-Za-z_]\w*)\)$', tok)
        if m:
            continue  # Token(id as usize) / Token(usize::from(id)): a channel id
        return False, 'registration with token %s in %s' % (tok, p)
    import paths as P
    rows = P.table(ctx, 'io_loop::IoLoop::handle_steady_event', ['self', 'stream', 'state', 'event'])
    TOK = 'mio::event::Event::token(event)'
    heads = [x.conds[0][1] for x in rows if x.conds and x.conds[0][0] == TOK]
    if len(heads) != len(rows):
        return False, 'a path of handle_steady_event does not start by deciding on event.token()'
    need = ['io_loop::STREAM', 'io_loop::HEARTBEAT', 'io_loop::SET_BLOCKED_TX', 'io_loop::ALLOC_CHANNEL', 'mio::Token(0)']
    for n in need:
        if n not in heads:
            return False, 'no arm for %s' % n
    gen = [x for x in rows if x.conds[0] == (TOK, 'mio::Token(_)')]
    live = [x for x in gen if x.done != 'panic']
    dead = [x for x in rows if x.done == 'panic']
    if len(live) != 1 or len(live[0].conds) != 2 or live[0].conds[1][1] is not False:
        return False, 'no `Token(n) if n <= u16::MAX` arm'
    m = re.match(r'^\((.+) < %s\.Token\.0\)$' % re.escape(TOK), live[0].conds[1][0])
    if not m or not token_bound_is_u16_max(ctx, m.group(1)):
        return False, 'no `Token(n) if n <= u16::MAX` arm (guard: %s)' % live[0].cond_strs()[1]
    # what is left for the catch-all is exactly: a generic token above the channel range
    for x in dead:
        if not (x.conds[0][1] in ('mio::Token(_)',) or x.conds[0][1].startswith('not ')):
            return False, 'unreachable!() on a path for %s' % x.conds[0][1]
    regs = registrations(ctx)
    ok, why, _ = token_values(ctx)
    if not ok:
        return False, why
    return True, 'registered tokens {STREAM, HEARTBEAT, ALLOC_CHANNEL, SET_BLOCKED_TX, Token(0), Token(u16 as usize)} all have arms (%d registration sites)' % len(regs)


SPECIAL_TOKENS = ('io_loop::STREAM', 'io_loop::HEARTBEAT', 'io_loop::ALLOC_CHANNEL', 'io_loop::SET_BLOCKED_TX')


def token_values(ctx):
    """The evaluated values of the I/O loop's own tokens: pairwise distinct and outside the range
    Token(0) / Token(id as usize) (id: u16) used for channel queues."""
    vals = {}
    for c in SPECIAL_TOKENS:
        k = ctx.const(c)
        if k.get('ty') != 'mio::Token' or k.get('bits') is None:
            return False, '%s is not an evaluated mio::Token constant' % c, vals
        vals[c] = int(k['bits'])
    for c, v in vals.items():
        if v <= 0xFFFF:
            return False, '%s = Token(%d) collides with the token of channel id %d' % (c, v, v), vals
    if len(set(vals.values())) != len(vals):
        return False, 'two event sources share a token: %s' % vals, vals
    return True, 'special tokens %s all > u16::MAX and pairwise distinct' % vals, vals


def token_bound_is_u16_max(ctx, s):
    if s in ('u16::MAX', '(u16::MAX as usize)', '65535', '(65535 as usize)'):
        return True
    c = ctx.consts.get(s)
    return c is not None and c.get('bits') is not None and int(c['bits']) == 0xFFFF


def registrations(ctx):
    """Every Poll::{register,reregister,deregister} site: (function, kind, token term, node)."""
    out = []
    for p, fn in sorted(ctx.fns.items()):
        if 'hir' not in fn:
            continue
        for n in H.walk(fn['hir']):
            if n.get('k') == 'MethodCall' and n.get('path', '').startswith('mio::Poll::') and n['name'] in ('register', 'reregister', 'deregister'):
                tok = H.term(n['args'][1]) if n['name'] != 'deregister' else None
                tn = H.peel(n['args'][1]) if n['name'] != 'deregister' else None
                prm = [i for i, q in enumerate(fn.get('params', [])) if tn is not None and tn.get('k') == 'Local' and q.get('k') == 'Bind' and q['id'] == tn['id']]
                hn = H.peel(n['args'][0])
                while hn.get('k') == 'AddrOf' or (hn.get('k') == 'Unary' and hn.get('op') == 'Deref'):
                    hn = H.peel(hn['e'])
                hprm = [i for i, q in enumerate(fn.get('params', [])) if hn.get('k') == 'Local' and q.get('k') == 'Bind' and q['id'] == hn['id']]
                if prm and ctx.new_helper(p):
                    # the token is a parameter of a helper the vocabulary does not know: the registrations are its call sites
                    sites = []
                    for p2, fn2 in sorted(ctx.fns.items()):
                        if 'hir' not in fn2:
                            continue
                        for c in H.walk(fn2['hir']):
                            if c.get('k') in ('Call', 'MethodCall') and H.norm_path(H.callee_path(c) or '') == p:
                                args = H.call_args(c)
                                if prm[0] < len(args):
                                    sites.append((p2, n['name'], H.term(args[prm[0]]), c, H.term(args[hprm[0]]) if hprm and hprm[0] < len(args) else None,
                                                  _handle_ty(args[hprm[0]]) if hprm and hprm[0] < len(args) else None))
                    if sites:
                        out.extend(sites)
                        continue
                out.append((p, n['name'], tok, n, H.term(n['args'][0]), _handle_ty(n['args'][0])))
    return out


def _handle_ty(node):
    """type of the registered event source, without the borrow it is passed by"""
    t = (node.get('ty') or '').strip()
    while t.startswith('&'):
        t = t[1:].strip()
        if t.startswith('mut '):
            t = t[4:].strip()
    return t


def seal_before_closing_states(ctx):
    """R08.1: on every path, a closing state is installed only after seal_writes()."""
    import paths as P
    n = 0
    for fnp, variants in (('io_loop::connection_state::ConnectionState::process', ('ServerClosing',)),
                          ('io_loop::connection_state::ConnectionState::client_exception', ('ClientException',)),
                          ('io_loop::handshake_state::HandshakeState::process', ('ServerClosing',))):
        found = 0
        for x in P.table(ctx, fnp):
            sealed = False
            for e in x.effects:
                if e.startswith('io_loop::Inner::seal_writes('):
                    sealed = True
                m = re.match(r'^self = ([\w:]+)', e)
                if m and m.group(1).split('::')[-1] in variants:
                    found += 1
                    if not sealed:
                        return False, '%s assigns %s without a preceding seal_writes() on the path %s' % (fnp, m.group(1).split('::')[-1], x.cond_strs())
        if found:
            n += 1
    # no other function assigns those states
    for p, fn in ctx.fns.items():
        if 'hir' not in fn or p.endswith('::process') or p.endswith('client_exception'):
            continue
        for nd in H.walk(fn['hir']):
            if nd.get('k') == 'Assign':
                t = H.term(nd['r'])
                if re.search(r'(ConnectionState::(ServerClosing|ClientException)|HandshakeState::ServerClosing)', t):
                    return False, '%s assigns a closing state' % p
    if n < 3:
        return False, 'only %d closing-state assignments found (expected 3)' % n
    return True, 'all %d assignments of ServerClosing/ClientException are dominated by seal_writes()' % n


# --------------------------------------------------------------------------- the inventory rule

def inventory(ctx, rid, desc, roots=None, scope=None, floor_sites=None, floor_funcs=None):
    """One rule instance per panic-capable site in the functions reachable from `roots`
    (restricted to `scope(path)` if given)."""
    callbacks = roots is None
    roots = roots or IO_ROOTS
    roots = [r for r in roots if ctx.has_fn(r)]
    if callbacks:
        # transport callbacks invoked from mio / std on the I/O thread (not visible as crate-local calls)
        for p, fn in ctx.fns.items():
            if fn.get('impl_trait') in ('mio::event::Evented', 'std::io::Read', 'std::io::Write'):
                roots.append(p)
    with ctx.rule(rid, desc, floor=floor_sites if floor_sites is not None else 1) as r:
        if not roots:
            raise MissingAnchor('no I/O thread entry point found')
        seen = ctx.cg.reachable(roots)
        for a in PD.ANCHORS:
            if callbacks and scope is None and a not in seen:
                raise MissingAnchor('anchor %s is not reachable from the I/O thread entry points' % a)
        funcs = [p for p in sorted(seen) if (scope is None or scope(p) or (ctx.new_helper(p) and any(scope(o) for o in ctx.owners(p) | {ctx.owner(p)})))]
        if floor_funcs and len(funcs) < floor_funcs:
            raise Unrecognised('I/O set has only %d functions (expected >= %d)' % (len(funcs), floor_funcs))
        chk = Checkers(ctx)
        nsites = 0
        # sites of every function first: a site inside a private helper the oracle vocabulary does not know is
        # accounted to the helper's only caller (its owner), taking that function's next unused discharge entry
        # of the same kind -- extracting code into a helper does not make its panic sites new ones
        all_sites = {p: site_list(ctx, p) for p in funcs}
        used = set(s['key'] for p in funcs for s in all_sites[p])
        for p in funcs:
            own = ctx.owner(p)
            if own == p:
                owns = sorted(ctx.owners(p))
                if len(owns) > 1 and scope is not None:
                    owns = [o for o in owns if scope(o)] or owns
                if len(owns) >= 1 and owns != [p]:
                    # a helper shared by several vocabulary functions (their common tail extracted): each of its sites stands
                    # for one site of every owner, and needs every owner's next unused discharge entry of that kind
                    for s in all_sites[p]:
                        if s['key'] in PD.DISCHARGE:
                            continue
                        ks = []
                        for o in owns:
                            i = 0
                            while True:
                                k2 = '%s|%s|%s#%d' % (o, s['kind'], s['detail'], i)
                                if k2 not in PD.DISCHARGE:
                                    break
                                if k2 not in used:
                                    ks.append(k2)
                                    break
                                i += 1
                        if len(ks) == len(owns):
                            used.update(ks)
                            s['moved_from'] = s['key']
                            s['shared'] = ks
                continue
            for s in all_sites[p]:
                if s['key'] in PD.DISCHARGE:
                    continue
                i = 0
                while True:
                    k2 = '%s|%s|%s#%d' % (own, s['kind'], s['detail'], i)
                    if k2 not in PD.DISCHARGE:
                        break
                    if k2 not in used:
                        used.add(k2)
                        s['moved_from'] = s['key']
                        s['key'] = k2
                        break
                    i += 1
        for p in funcs:
            ctx.counts['functions_analysed'].add(p)
            for s in all_sites[p]:
                if s['detail'] == 'debug_assert' and p.startswith('io_loop::io_loop_handle::'):
                    # client-side only; not on the I/O thread (reached through over-approximate edges)
                    continue
                nsites += 1
                site = ctx.site(p, s['sp'])
                if s.get('shared'):
                    for k2 in s['shared']:
                        ent = PD.DISCHARGE[k2]
                        if ent[0] == 'reason':
                            r.ok(k2, site, built='reasoned: ' + ent[1])
                        else:
                            ok, why = chk.run(ent[1])
                            if ok:
                                r.ok(k2, site, built='rule %s: %s' % (ent[1], why))
                            else:
                                r.bad(k2, site, built='%s %s' % (s['kind'], s['detail']), expected='discharge rule `%s` holds' % ent[1], why='discharge no longer holds: ' + why)
                    continue
                ent = PD.DISCHARGE.get(s['key'])
                via = ' <- '.join(reversed(ctx.cg.path_to(seen, p)[-4:]))
                if ent is None:
                    r.bad(s['key'], site, built='%s %s%s' % (s['kind'], s['detail'], (' on ' + s.get('self_ty')) if s.get('self_ty') else ''),
                          expected='a discharge (guard rule or reasoned entry) in spec/panic_discharge.py',
                          why='panic-capable site on the I/O thread with no discharge; reached via ' + via)
                elif ent[0] == 'reason':
                    r.ok(s['key'], site, built='reasoned: ' + ent[1])
                else:
                    ok, why = chk.run(ent[1])
                    if ok:
                        r.ok(s['key'], site, built='rule %s: %s' % (ent[1], why))
                    else:
                        r.bad(s['key'], site, built='%s %s' % (s['kind'], s['detail']), expected='discharge rule `%s` holds' % ent[1],
                              why='discharge no longer holds: ' + why)
        r.info('inventory', None, built={'functions_in_scope': len(funcs), 'panic_capable_sites': nsites})
    return
