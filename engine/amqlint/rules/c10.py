"""C10 -- channel ids: unique among open channels, within 1..=channel_max, reusable."""
import hir as H
import paths as P
import sym as S
from core import Unrecognised
from rules import arms as A
from rules import panics

EXPLANATION = (
    "ChannelSlots is a small state machine over the occupied map, a never-used counter and a freed-id set. Decided structurally: (1) an explicit id reaches "
    "make_entry only after having been rejected for id == 0, for id > channel_max and for an occupied slot, each with UnavailableChannelId carrying that id; "
    "(2) automatic allocation takes the counter's value before incrementing it, only while counter <= channel_max, through the map's entry API (occupied ids "
    "are skipped, never overwritten), the counter starts at 1 and is wider than channel_max so the increment cannot wrap; (3) the fallback pops freed ids "
    "until a vacant one is found and reports ExhaustedChannelIds only when the set is empty -- an occupied stale id is skipped, not a panic; (4) every removal "
    "from the map (remove, drain) returns the ids to the freed set; (5) the hand-over in allocate_channel registers the new receiver under Token(id), replies "
    "with the result and frees the slot again when the reply cannot be delivered; (6) no panic-capable site in these functions is undischarged. Full "
    "functional correctness over all operation sequences is argued from these invariants, not mechanically proved.")
ASSUMPTIONS = ["HashMap entry API / IndexSet semantics (std, indexmap)", "negotiated channel_max is installed once before any allocation (checked as a discharge rule)"]
RULE_TEXT = "obligations: guards before make_entry, allocator path rows, reuse pairing sites, hand-over script steps, panic sites; distinct = distinct keys"
LEVEL_TEXT = ("Structural decision of the allocator's guards (0, > channel_max, occupied), of invariant-preserving pairing between map removals and the freed set, of a "
              "non-wrapping counter, of a panic-free fallback, and of the hand-over protocol. Not a proof that some id is found whenever one exists for every operation "
              "sequence (argued, not mechanised).")
LEVEL_NOTE = "Trusts rustc HIR/MIR, std HashMap / indexmap semantics."
TECHNIQUE = "static analysis: path tables and structural guards over resolved HIR, MIR panic inventory restricted to the allocator"

CSL = 'io_loop::channel_slots::ChannelSlots::'
UNAVAIL = 'Err(errors::Error::UnavailableChannelId{channel_id: channel_id.Some.0})'


def reuse(ctx, r):
    rows = P.table(ctx, CSL + 'remove', ['self', 'channel_id'])
    site = ctx.site(CSL + 'remove')
    REM, INS = 'std::collections::HashMap::remove(self.slots, channel_id)', 'indexmap::IndexSet::insert(self.freed_channel_ids, channel_id)'
    pure = lambda effs: [e for e in effs if not e.startswith(('let ', 'std::option::Option::is_'))]
    # either `let e = slots.remove(id)?; freed.insert(id); Some(e)` (one path, `?` hands None on) ...
    form_a = len(rows) == 1 and pure(rows[0].effects) == [REM, INS] and rows[0].value_str() == 'Some(%s?)' % REM
    # ... or the same decision spelled out: removed something -> record the id and hand it back; nothing there -> hand None back, record nothing
    some = [x for x in rows if x.conds == [(REM, 'Some(_)')]]
    none = [x for x in rows if x.conds == [(REM, 'None')]]
    form_b = len(rows) == 2 and len(some) == 1 and len(none) == 1 and pure(some[0].effects) == [REM, INS] and some[0].value_str() in (REM, 'Some(%s.Some.0)' % REM) \
        and pure(none[0].effects) == [REM] and none[0].value_str() in (REM, 'None')
    r.check('remove:frees-id', form_a or form_b, site, built=[x.row() for x in rows],
            expected='slots.remove(id)? ; freed.insert(id) ; Some(entry)', why='an id removed from the map must become allocatable again')


def run(ctx):
    _run_main6(ctx)
    _round6(ctx)


def _run_main6(ctx):
    with ctx.rule('R10.1', 'explicit id: rejected for 0, for > channel_max and when occupied, before make_entry', floor=5) as r:
        g = panics.insert_guards(ctx)
        site = ctx.site(CSL + 'insert')
        r.check('zero-guard', g['zero'], site, built=g['guards'], expected='id == 0 rejected before make_entry', why='id 0 is the connection channel; accepting it hangs the call')
        r.check('max-guard', g['max'], site, built=g['guards'], expected='id > channel_max rejected before make_entry')
        HAS = 'std::collections::HashMap::contains_key(self.slots, channel_id.Some.0)'
        r.check('vacant-only', 'unless(%s)' % HAS in g['guards'], site, built=g['guards'], expected='make_entry only where the id is not in the table (Vacant arm of slots.entry(id) / !contains_key(id))')
        r.check('guard-error', g['error_on_reject'] and set(g['error_on_reject']) == {UNAVAIL}, site, built=g['error_on_reject'], expected=[UNAVAIL])
        rows = P.table(ctx, CSL + 'insert', ['self', 'channel_id', 'make_entry'])
        occ = [x for x in rows if x.conds and x.conds[-1] == (HAS, True)]
        r.check('occupied-error', len(occ) == 1 and occ[0].value_str() == UNAVAIL, site, built=[x.row() for x in occ])
        none = [x for x in rows if x.conds and x.conds[0] == ('channel_id', 'None')]
        r.check('none-delegates', len(none) == 1 and none[0].value_str() == CSL + 'insert_unused_channel_id(self, make_entry)', site, built=[x.row() for x in none])
        vac = [x for x in rows if x.conds and x.conds[-1] == (HAS, False)]
        r.check('vacant-inserts-that-id', len(vac) == 1 and 'value:make_entry(channel_id.Some.0)' in vac[0].effects and
                any(e.startswith('std::collections::HashMap::insert(self.slots, channel_id.Some.0, value:make_entry(channel_id.Some.0)') for e in vac[0].effects),
                site, built=[x.row() for x in vac])

    with ctx.rule('R10.2', 'automatic allocation: counter taken before increment, bounded by channel_max, entry API; fallback tolerates stale freed ids', floor=8) as r:
        fnp = CSL + 'insert_unused_channel_id'
        rows = P.table(ctx, fnp, ['self', 'make_entry'])
        site = ctx.site(fnp)
        G = '(self.channel_max < self.next_channel_id)'  # canonical: `next <= max` is (max < next) failing
        ENT = 'std::collections::HashMap::contains_key(self.slots, $s0)'  # the entry API and contains_key + insert read alike
        SNAP = 'let $s0 = (self.next_channel_id as u16)'
        cnt = [x for x in rows if x.conds and x.conds[0] == (G, False)]
        fb = [x for x in rows if x.conds and x.conds[0] == (G, True)]
        r.check('rows', len(cnt) == 2 and len(fb) == 2, site, built=[x.row() for x in rows], expected='counter loop (occupied/vacant) and fallback loop (occupied/vacant)')
        for x in cnt:
            i_snap = x.effects.index(SNAP) if SNAP in x.effects else -1
            i_inc = x.effects.index('self.next_channel_id += 1') if 'self.next_channel_id += 1' in x.effects else -1
            i_ent = x.effects.index(ENT) if ENT in x.effects else -1
            kind = 'occupied' if x.conds[-1] == (ENT, True) else 'vacant'
            r.check('counter:%s:order' % kind, 0 <= i_snap < i_inc < i_ent, site, built=x.effects, expected=[SNAP, 'self.next_channel_id += 1', ENT],
                    why='the id probed is the counter value before the increment, and the counter always advances')
        co = [x for x in cnt if x.conds[-1] == (ENT, True)]
        cv = [x for x in cnt if x.conds[-1] == (ENT, False)]
        r.check('counter:occupied-skips', len(co) == 1 and co[0].done == 'iterate' and not [e for e in co[0].effects if 'insert' in e or 'make_entry' in e], site, built=[x.row() for x in co],
                expected='an occupied id is skipped (continue), never overwritten')
        r.check('counter:vacant-inserts', len(cv) == 1 and 'value:make_entry($s0)' in cv[0].effects and cv[0].done in ('return', None) and cv[0].value_str() == 'Ok(value:make_entry($s0)?.1)'
                and any(e.startswith('std::collections::HashMap::insert(self.slots, $s0, value:make_entry($s0)?.0)') for e in cv[0].effects),
                site, built=[x.row() for x in cv])
        POP = 'std::option::Option::ok_or(indexmap::IndexSet::pop(self.freed_channel_ids), errors::Error::ExhaustedChannelIds)?'
        fo = [x for x in fb if x.conds[-1] == ('std::collections::HashMap::contains_key(self.slots, %s)' % POP, True)]
        fv = [x for x in fb if x.conds[-1] == ('std::collections::HashMap::contains_key(self.slots, %s)' % POP, False)]
        r.check('fallback:pops-freed-or-exhausted', len(fo) == 1 and len(fv) == 1, site, built=[x.conds[-1] for x in fb],
                expected='id = freed.pop().context(ExhaustedChannelIds)? ; is id in slots?', why='ExhaustedChannelIds only when the freed set is empty')
        if fo:
            r.check('fallback:stale-id-skipped', fo[0].done == 'iterate' and 'unreachable!()' not in fo[0].effects, site, built=fo[0].row(),
                    expected='an occupied (re-opened) freed id is skipped, not a panic', why='open(Some(1)), close, open(Some(1)) leaves 1 in the freed set')
        if fv:
            r.check('fallback:vacant-inserts', fv[0].done in ('return', None) and 'value:make_entry(%s)' % POP in fv[0].effects
                    and any(e.startswith('std::collections::HashMap::insert(self.slots, %s, value:make_entry(%s)?.0)' % (POP, POP)) for e in fv[0].effects), site, built=fv[0].row())
        # counter starts at 1
        rows = P.table(ctx, CSL + 'new', [])
        t = rows[0].value if rows else None
        r.check('counter-starts-at-1', t is not None and t[0] == 'struct' and S.show(dict(t[2]).get('next_channel_id')) == '1', ctx.site(CSL + 'new'), built=S.show(t) if t else None,
                why='automatic allocation must never hand out id 0')

    with ctx.rule('R10.3', 'reuse: every removal from the map returns the id(s) to the freed set', floor=2) as r:
        reuse(ctx, r)
        rows = P.table(ctx, CSL + 'drain', ['self'])
        want = ['std::collections::HashMap::iter(self.slots)', 'for _ in std::collections::HashMap::iter(self.slots) {',
                'indexmap::IndexSet::insert(self.freed_channel_ids, iter_item(std::collections::HashMap::iter(self.slots)).0)', '}', 'std::collections::HashMap::drain(self.slots)']
        # the expression that builds the iterator (iter / keys / copied ..) has no effect of its own: what counts is the loop, its body, the drain
        ITER_BUILD = ('std::collections::HashMap::iter(self.slots)', 'std::collections::HashMap::keys(self.slots)', 'std::iter::Iterator::copied(', 'std::iter::Iterator::cloned(')
        eff = [e for e in rows[0].effects if not e.startswith(ITER_BUILD)] if len(rows) == 1 else None
        r.check('drain:frees-all-ids', eff == want[1:], ctx.site(CSL + 'drain'), built=[x.row() for x in rows], expected=want)
        # nothing else removes from / inserts into the map
        muts = {}
        for p, fn in ctx.fns.items():
            if 'hir' not in fn or not p.startswith(CSL):
                continue
            for nd in H.walk(fn['hir']):
                if nd.get('k') == 'MethodCall' and nd['name'] in ('remove', 'drain', 'insert', 'clear', 'retain', 'remove_entry') and H.term(nd['recv']) == 'self.slots':
                    muts.setdefault(ctx.owner(p).split('::')[-1], []).append(nd['name'])
        # the two insert paths may store through the vacant entry or by a plain insert behind their presence test (R10.1 / R10.2 judge the test)
        shown = {k: v for k, v in muts.items() if not (k in ('insert', 'insert_unused_channel_id') and set(v) <= {'insert'})}
        r.eq('map-mutators', shown, {'remove': ['remove'], 'drain': ['drain']}, None, why='slots is mutated only by remove/drain and by the two insert paths')

    with ctx.rule('R10.4', 'the never-used counter cannot wrap or stall', floor=1) as r:
        ok, why = panics.Checkers(ctx).run('never_used_counter_cannot_overflow')
        r.check('counter-wider-than-bound', ok, ctx.site(CSL + 'insert_unused_channel_id'), built=why,
                why='with channel_max = 65535 a u16 counter overflows on the 65535th allocation (debug panic, release wraps to id 0)')

    with ctx.rule('R10.5', 'hand-over: insert(request) with a registering factory, reply with the result, free the slot when the reply is undeliverable', floor=5) as r:
        fnp = 'io_loop::Inner::allocate_channel'
        scr, events, _ = A.fn_script(ctx, fnp)
        site = ctx.site(fnp)
        REQ = 'mio_extras::channel::Receiver::try_recv(ch0_slot.alloc_chan_req_rx)'
        ins = [e for e in events if e.kind == 'call' and e.callee == CSL + 'insert']
        if r.check('insert-call', len(ins) == 1 and S.show(ins[0].args[0]) == 'self.chan_slots' and S.show(ins[0].args[1]) == REQ + '.Ok.0', site, built=[S.show(e.term)[:200] for e in ins],
                   expected='chan_slots.insert(<the requested id>, factory)'):
            snd = [e for e in events if e.kind == 'call' and e.callee == 'crossbeam_channel::Sender::send']
            r.check('reply-with-result', len(snd) == 1 and S.show(snd[0].args[0]) == 'ch0_slot.alloc_chan_rep_tx' and snd[0].args[1] == ins[0].term, site,
                    built=[S.show(e.term)[:160] for e in snd], expected='alloc_chan_rep_tx.send(result of insert)')
            rem = [e for e in events if e.kind == 'call' and e.callee == CSL + 'remove']
            r.check('undeliverable-reply-frees-slot', len(rem) == 1 and any('Err(crossbeam_channel::SendError(Ok(_)))' in g[3] for g in rem[0].guards)
                    and S.show(rem[0].args[1]).startswith('io_loop::io_loop_handle::IoLoopHandle::channel_id(') and '.Err.0.SendError.0.Ok.0' in S.show(rem[0].args[1]), site,
                    built=[S.show(e.term)[-200:] for e in rem], expected='on Err(SendError(Ok(handle))): chan_slots.remove(handle.channel_id())')
        # factory closure: ChannelSlot::new(bound, id); register(slot.rx, Token(id as usize), readable, edge)
        reg = [e for e in events if e.kind == 'call' and e.callee == 'mio::Poll::register']
        SLOT_RX = 'io_loop::ChannelSlot::new(self.mio_channel_bound, $c0).0.rx'
        r.check('factory:registers-under-token-id', len(reg) == 1 and S.show(reg[0].args[2]) == 'mio::Token($c0)' and S.show(reg[0].args[1]) == SLOT_RX, site,
                built=[[S.show(a) for a in e.args[1:3]] for e in reg], expected="register(&slot.rx, Token(new_channel_id as usize), ..) for the slot made for that id")
        mk = [e for e in events if e.kind == 'call' and e.callee == 'io_loop::ChannelSlot::new']
        r.check('factory:slot-for-that-id', mk and all(S.show(e.args[0]) == 'self.mio_channel_bound' and S.show(e.args[1]) == '$c0' for e in mk), site, built=[S.show(e.term) for e in mk])

    with ctx.rule('R10.8', 'channel_max is the negotiated value, installed once before any allocation (shared with C15)', floor=3) as r:
        A.include(ctx, r, 'c15', 'R15.3', pick=('channel-limit', 'one-TuneOk-literal'))
        A.include(ctx, r, 'c15', 'R15.4')
    with ctx.rule('R10.9', 'a channel opened after a back-pressure episode is polled: registration flags in lock-step (shared with C18)', floor=6) as r:
        A.include(ctx, r, 'c18', 'R18.2', pick=('flag', 'edges'))
        A.include(ctx, r, 'c18', 'R18.4')
        A.include(ctx, r, 'c18', 'R18.3')

    with ctx.rule('R10.7', "a channel's wake-ups are its own: the I/O loop's special tokens lie outside Token(0..=u16::MAX) and are pairwise distinct", floor=3) as r:
        ok, why, vals = panics.token_values(ctx)
        r.check('special-tokens-disjoint-from-channel-ids', ok, ctx.site('io_loop::IoLoop::handle_steady_event'), built=why, expected='STREAM, HEARTBEAT, ALLOC_CHANNEL, SET_BLOCKED_TX > 65535',
                why='a channel is registered under Token(id as usize); a special token inside 0..=65535 makes that id unusable (its wake-ups are dispatched elsewhere, open_channel hangs)')
        ok2, why2 = panics.token_domain(ctx)
        r.check('token-dispatch-total', ok2, ctx.site('io_loop::IoLoop::handle_steady_event'), built=why2)
        # ... and every event source is registered under the token whose dispatch arm reads that source
        def tok(t):
            return t if not t.startswith('mio::Token(') or t == 'mio::Token(0)' else 'mio::Token(<channel id>)'
        pairs = sorted(set((x[5], tok(x[2])) for x in panics.registrations(ctx) if x[1] in ('register', 'reregister')))
        RX = 'mio_extras::channel::Receiver<'
        want_pairs = sorted([(RX + 'std::option::Option<u16>>', 'io_loop::ALLOC_CHANNEL'), (RX + 'io_loop::IoLoopMessage>', 'mio::Token(0)'), (RX + 'io_loop::IoLoopMessage>', 'mio::Token(<channel id>)'),
                             (RX + 'crossbeam_channel::Sender<connection::ConnectionBlockedNotification>>', 'io_loop::SET_BLOCKED_TX'),
                             ('mio_extras::timer::Timer<io_loop::heartbeat_timers::HeartbeatKind>', 'io_loop::HEARTBEAT'), ('S', 'io_loop::STREAM')])
        r.eq('source-token-pairs', pairs, want_pairs, ctx.site('io_loop::IoLoop::thread_main'),
             why="a source registered under another source's token wakes the wrong handler: its own messages are never read")

    def scope(p):
        return p.startswith(CSL) or p.startswith('io_loop::Inner::allocate_channel')
    panics.inventory(ctx, 'R10.6', 'no undischarged panic-capable site in the allocator and the hand-over', roots=['io_loop::Inner::allocate_channel'], scope=scope, floor_sites=1)


def _round6(ctx):
    """Rules that are necessary conditions of this property too (found by seeding round 6)."""
    from rules import arms as A
    with ctx.rule('R10.10', 'the Channel handed out carries the id of the reply to this very request (shared with C12)', floor=3) as r:
        A.include(ctx, r, 'c12', 'R12.1', pick=('connection::Connection::open_channel:on', 'connection::Connection::open_channel:reply', 'connection::Connection::open_channel:one-emission'))
