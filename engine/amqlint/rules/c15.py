"""C15 -- tuning is negotiated as documented and then obeyed."""
import re
import hir as H
import paths as P
import sym as S
from rules import panics
from rules import arms as A

EXPLANATION = (
    "The negotiation is decided as a symbolic term, parametric in all six inputs: make_tune_ok returns TuneOk{channel_max: min(p(tune.channel_max), p(self.channel_max)), "
    "frame_max: min(p(tune.frame_max), p(self.frame_max)), heartbeat: min(tune.heartbeat, self.heartbeat)} where the two promotion helpers are read as path tables "
    "(0 -> MAX of their own width, else unchanged); no promotion on heartbeat; like-named fields only. The TuneOk construction sits on the false edge of "
    "frame_max < FRAME_MIN_SIZE (= 4096, evaluated constant), whose true edge returns FrameMaxTooSmall{min, requested}; the handshake pushes TuneOk only after "
    "make_tune_ok(..)? succeeded. Exactly one TuneOk literal exists; that one value feeds the wire, the heartbeat timers, the state, the channel table limit and "
    "(through the handshake message and Channel0Handle::new: 0 -> MAX, minus the 8-byte frame overhead) the body split size of every channel. Heartbeat timing itself "
    "is C17 and is not decided here.")
ASSUMPTIONS = ["Ord::min / integer comparison semantics (std)", "amq_protocol FRAME_MIN_SIZE constant is AMQP's frame-min-size", "8 bytes of framing per body frame (AMQP 0-9-1 4.2.3)"]
RULE_TEXT = "obligations: term fields, helper rows, floor guard rows, single-source uses; distinct = distinct keys"
LEVEL_TEXT = ("Symbolic (value-parametric) decision of the negotiation term and of the single-source wiring from that one TuneOk to every place that must obey it, for all "
              "(client, server) tuning pairs. No numeric evaluation is needed: the term is the specification. Heartbeat timing is not decided.")
LEVEL_NOTE = "Trusts rustc HIR/const evaluation, std min semantics; expectations hand-written from the property statement."
TECHNIQUE = "static analysis: symbolic term extraction and path tables over resolved HIR; def-use wiring of the single TuneOk value"

CO = 'connection_options::ConnectionOptions::'


def run(ctx):
    _run_main8(ctx)
    _round8(ctx)


def _run_main8(ctx):
    _run_main(ctx)
    _shared_r4(ctx)


def _run_main(ctx):
    fnp = CO + 'make_tune_ok'
    rows = P.table(ctx, fnp, ['self', 'tune'])
    site = ctx.site(fnp)
    FMIN = 'amq_protocol::protocol::constants::FRAME_MIN_SIZE'
    INPUTS = {'tune.channel_max': 'u16', 'self.channel_max': 'u16', 'tune.frame_max': 'u32', 'self.frame_max': 'u32'}

    def zeroes(x):
        """which inputs the path found to be 0 / not 0 (the promotion helpers are read through, whatever their shape)"""
        z = {}
        for s_, p_ in x.conds:
            m = re.match(r'^\(0 == (.+)\)$', s_) if isinstance(s_, str) else None
            if m and m.group(1) in INPUTS and isinstance(p_, bool):
                z[m.group(1)] = p_
        return z

    def promoted(x, name):
        return '%s::MAX' % INPUTS[name] if zeroes(x).get(name) else name

    def is_min(built, a, b):
        forms = ['std::cmp::Ord::min(%s, %s)', 'std::cmp::min(%s, %s)']
        return built in [f % (a, b) for f in forms] + [f % (b, a) for f in forms] or (a == b and built == a)

    def requested(x):
        """the negotiated frame_max this path compared with the minimum: (term, path says it is too small)"""
        for s_, p_ in x.conds:
            m = re.match(r'^\((.+) < %s\)$' % re.escape(FMIN), s_) if isinstance(s_, str) else None
            if m and isinstance(p_, bool):
                return m.group(1), p_
        return None, None

    with ctx.rule('R15.1', 'negotiation term: min of both sides with 0 promoted to the maximum (channel_max, frame_max); plain min for heartbeat', floor=9) as r:
        okr = [x for x in rows if x.value_str().startswith('Ok(')]
        r.check('ok-row', len(okr) >= 1 and A.covers_all([list(x.conds) for x in rows]), site, built=[x.cond_strs() for x in rows][:6],
                expected='paths that answer with a TuneOk exist and the paths together cover every combination of zero / non-zero inputs')
        lit_ok = cm_ok = fm_ok = hb_ok = bool(okr)
        bad_rows = []
        for x in okr:
            t = x.value
            st = t[2][0] if t[0] == 'call' else None
            if not (st is not None and st[0] == 'struct' and st[1] == 'amq_protocol::protocol::connection::TuneOk'):
                lit_ok = False
                continue
            f = {n: S.show(v) for n, v in st[2]}
            c = is_min(f.get('channel_max'), promoted(x, 'tune.channel_max'), promoted(x, 'self.channel_max'))
            m_ = is_min(f.get('frame_max'), promoted(x, 'tune.frame_max'), promoted(x, 'self.frame_max'))
            h = is_min(f.get('heartbeat'), 'tune.heartbeat', 'self.heartbeat') and 'tune.heartbeat' != 'self.heartbeat'
            # a path that did not look at an input must not depend on its being zero: its term must name the input itself
            cm_ok, fm_ok, hb_ok = cm_ok and c, fm_ok and m_, hb_ok and h
            if not (c and m_ and h):
                bad_rows.append((x.cond_strs(), f))
        r.check('TuneOk-literal', lit_ok, site, built=[x.value_str()[:120] for x in okr][:2])
        r.check('channel_max', cm_ok, site, built=bad_rows[:2], expected='min(P(tune.channel_max), P(self.channel_max)), P(0) = u16::MAX', why='lower of the two sides, 0 meaning no limit; two unlimited sides yield u16::MAX')
        r.check('frame_max', fm_ok, site, built=bad_rows[:2], expected='min(P(tune.frame_max), P(self.frame_max)), P(0) = u32::MAX', why='lower of the two sides, 0 meaning no limit; two unlimited sides yield u32::MAX')
        r.check('heartbeat', hb_ok, site, built=bad_rows[:2], expected='min(tune.heartbeat, self.heartbeat)', why='lower of the two values; 0 (disabled) wins, so no promotion')
        # every input is examined for 0 on every path that uses it (no path promotes without having tested, none forgets to)
        for nm in sorted(INPUTS):
            r.check('promotion:%s' % nm, all(nm in zeroes(x) for x in okr), site, built=[x.cond_strs() for x in okr if nm not in zeroes(x)][:2],
                    expected='(0 == %s) decided on every path that builds the TuneOk' % nm, why='0 is promoted to the maximum, anything else is unchanged')

    with ctx.rule('R15.2', 'frame_max floor: below 4096 -> FrameMaxTooSmall and no TuneOk', floor=4) as r:
        bad = [x for x in rows if requested(x)[1] is True]
        good = [x for x in rows if requested(x)[1] is False]
        others = [x for x in rows if requested(x)[1] is None]
        ok_req = all(is_min(requested(x)[0], promoted(x, 'tune.frame_max'), promoted(x, 'self.frame_max')) for x in bad + good)
        r.check('guard-rows', bad and good and not others and ok_req, site, built=[x.cond_strs()[-1:] for x in rows][:4],
                expected='every path compares min(P(tune.frame_max), P(self.frame_max)) with FRAME_MIN_SIZE by `<`', why='strictly below the minimum fails; exactly 4096 is accepted')
        r.check('too-small-error', bad and all((x.value_str(), x.done) == ('Err(errors::Error::FrameMaxTooSmall{min: %s, requested: %s})' % (FMIN, requested(x)[0]), 'return') or
                                                (x.value_str() == 'Err(errors::Error::FrameMaxTooSmall{min: %s, requested: %s})' % (FMIN, requested(x)[0])) for x in bad), site,
                built=[x.value_str()[:160] for x in bad][:2], expected='Err(FrameMaxTooSmall{min: FRAME_MIN_SIZE, requested: the negotiated value})')
        r.check('tuneok-only-on-false-edge', good and all(x.value_str().startswith('Ok(amq_protocol::protocol::connection::TuneOk{') for x in good)
                and not [x for x in bad if x.value_str().startswith('Ok(')], site, built=[x.value_str()[:80] for x in good][:2])
        fn = ctx.fn(fnp)
        consts = set((n['path'], n.get('bits')) for n in H.walk(fn['hir']) if n.get('k') == 'Def' and n['path'].endswith('FRAME_MIN_SIZE'))
        for hp, hf in ctx.fns.items():
            if hp.startswith(CO + 'make_tune_ok::') and 'hir' in hf:
                consts |= set((n['path'], n.get('bits')) for n in H.walk(hf['hir']) if n.get('k') == 'Def' and n['path'].endswith('FRAME_MIN_SIZE'))
        r.eq('FRAME_MIN_SIZE', sorted(consts), [('amq_protocol::protocol::constants::FRAME_MIN_SIZE', '4096')], site, why='AMQP 0-9-1 frame-min-size')

    with ctx.rule('R15.3', 'single source of truth: the one TuneOk feeds wire, timers, state, channel limit and body splitting', floor=9) as r:
        lits = []
        for p, fn in ctx.fns.items():
            if 'hir' not in fn:
                continue
            for nd in H.walk(fn['hir']):
                if nd.get('k') == 'Struct' and H.res_path(nd['res']) == 'amq_protocol::protocol::connection::TuneOk':
                    lits.append(p)
        r.eq('one-TuneOk-literal', lits, [CO + 'make_tune_ok'], None, why='a second TuneOk value could announce one thing and obey another')
        # handshake: covered by R16.1's Tune row (same make_tune_ok(..)? term in start_heartbeats / push / state); re-read the three uses here
        from rules import c16
        rows = P.table(ctx, c16.PROC, ['self', 'inner', 'frame'])
        tune = [x for x in rows if len(x.conds) == 2 and x.conds[1] == ('self', c16.HS + 'Tune(_, _)')]
        mto = CO + 'make_tune_ok(self.Tune.0, %s?)?' % c16.tf('Tune')
        if r.check('tune-row', len(tune) == 1, ctx.site(c16.PROC)):
            eff = tune[0].effects
            r.check('timers', 'io_loop::Inner::start_heartbeats(inner, %s.heartbeat)' % mto in eff, ctx.site(c16.PROC), built=[e for e in eff if 'start_heartbeats' in e])
            r.check('wire', 'io_loop::Inner::push_method(inner, 0, amq_protocol::protocol::connection::AMQPMethod::TuneOk(%s))' % mto in eff, ctx.site(c16.PROC))
            r.check('state', 'self = %sOpen(%s, self.Tune.1)' % (c16.HS, mto) in eff, ctx.site(c16.PROC))
        done = [x for x in rows if len(x.conds) >= 3 and x.conds[-1][1] == 'Err(_)' and x.conds[1] == ('self', c16.HS + 'Open(_, _)')]
        r.check('state:Open->Done', len(done) == 1 and 'self = %sDone(self.Open.0, self.Open.1, std::vec::Vec::new())' % c16.HS in done[0].effects, ctx.site(c16.PROC))
        # thread_main: channel limit and frame_max hand-over from the returned TuneOk
        rows = P.table(ctx, 'io_loop::IoLoop::thread_main', ['self', 'stream', 'options', 'handshake_done_tx', 'ch0_slot', 'have_written_to_socket'])
        HSK = 'io_loop::IoLoop::run_amqp_handshake(self, stream, options, have_written_to_socket)?'
        site = ctx.site('io_loop::IoLoop::thread_main')
        okr = [x for x in rows if x.conds and x.conds[-1][1] == 'Ok(_)']
        if r.check('thread_main:row', len(okr) == 1, site):
            eff = okr[0].effects
            r.check('channel-limit', 'io_loop::channel_slots::ChannelSlots::set_channel_max(self.inner.chan_slots, %s.0.channel_max)' % HSK in eff, site, built=[e for e in eff if 'set_channel_max' in e])
            r.check('frame_max-handover', 'crossbeam_channel::Sender::send(handshake_done_tx, (%s.0.frame_max, %s.1))' % (HSK, HSK) in eff, site, built=[e for e in eff if 'Sender::send' in e])
        # client side: Channel0Handle::new turns it into the per-frame payload limit; every ChannelHandle copies it
        rows = P.table(ctx, 'io_loop::channel_handle::Channel0Handle::new', ['handle', 'frame_max'])
        site = ctx.site('io_loop::channel_handle::Channel0Handle::new')
        z = [x for x in rows if x.conds == [('(0 == frame_max)', True)]]
        nz = [x for x in rows if x.conds == [('(0 == frame_max)', False)]]
        if r.check('payload-limit:rows', len(z) == 1 and len(nz) == 1, site, built=[x.row() for x in rows]):
            OVH = 'io_loop::channel_handle::FRAME_OVERHEAD'
            r.eq('payload-limit:zero', z[0].value_str(), 'io_loop::channel_handle::Channel0Handle{frame_max: (usize::MAX - %s), handle: handle}' % OVH, site, why='0 = no limit')
            r.eq('payload-limit:nonzero', nz[0].value_str(), 'io_loop::channel_handle::Channel0Handle{frame_max: (frame_max - %s), handle: handle}' % OVH, site,
                 why='payload per body frame = negotiated frame_max minus the framing bytes')
            r.check('payload-limit:stored', not [e for x in rows for e in x.effects if e.startswith('frame_max')], site, why='the limit is computed once, here')
        c = ctx.const('io_loop::channel_handle::FRAME_OVERHEAD')
        r.check('FRAME_OVERHEAD', c.get('bits') is not None and int(c['bits']) == 8, None, built=c.get('bits'), expected='8 (7-byte frame header + frame-end octet)',
                why='a smaller overhead makes body frames exceed the negotiated frame_max')
        rows = P.table(ctx, 'io_loop::channel_handle::Channel0Handle::open_channel', ['self', 'channel_id'])
        r.check('per-channel-copy', len(rows) == 1 and rows[0].value_str().startswith('Ok(io_loop::channel_handle::ChannelHandle{frame_max: self.frame_max, '), ctx.site('io_loop::channel_handle::Channel0Handle::open_channel'),
                built=[x.value_str()[:120] for x in rows])
        # nobody else assigns ChannelHandle.frame_max / Channel0Handle.frame_max
        for p, fn in ctx.fns.items():
            if 'hir' not in fn:
                continue
            for nd in H.walk(fn['hir']):
                if nd.get('k') in ('Assign', 'AssignOp') and H.peel(nd['l']).get('k') == 'Field' and H.peel(nd['l'])['name'] == 'frame_max':
                    r.bad('frame_max-reassigned:%s' % p, ctx.site(p, nd), built=H.term(nd), why='the negotiated limit must not change after the handshake')

    with ctx.rule('R15.5', 'heartbeat timing follows the announced interval: each activity stamps its own timer, expiry actions (shared with C17)', floor=10) as r:
        A.include(ctx, r, 'c17', 'R17.2')
        A.include(ctx, r, 'c17', 'R17.3')

    with ctx.rule('R15.4', 'no channel id above channel_max can be opened', floor=2) as r:
        g = panics.insert_guards(ctx)
        r.check('explicit-id-bounded', g['max'], ctx.site('io_loop::channel_slots::ChannelSlots::insert'), built=g['guards'])
        ok, why = panics.Checkers(ctx).run('never_used_counter_cannot_overflow')
        r.check('automatic-id-bounded', ok, ctx.site('io_loop::channel_slots::ChannelSlots::insert_unused_channel_id'), built=why)


def _shared_r4(ctx):
    """Rules of other properties that are necessary conditions of this one too (found by seeding round 4)."""
    with ctx.rule('R15.6', 'heartbeat timing follows the announced interval: rx timer at the interval, tx timer at half of it (shared with C17)', floor=1) as r:
        A.include(ctx, r, 'c17', 'R17.1', pick=('rx-tx-intervals', 'max-missed'))


def _round8(ctx):
    """Rules that are necessary conditions of this property too (found by seeding round 8)."""
    from rules import arms as A
    with ctx.rule('R15.7', 'the heartbeat queued on a tx expiry is really queued while the connection is open: push_heartbeat is gated by the seal, not by its negation (shared with C08)', floor=1) as r:
        A.include(ctx, r, 'c08', 'R08.2', pick=('push_heartbeat:gated',))
    with ctx.rule('R15.8', "the timers run at the negotiated interval and the builder's heartbeat is the option negotiated (shared with C17, C19)", floor=5) as r:
        A.include(ctx, r, 'c17', 'R17.1', pick=('enabled', 'disabled'))
        A.include(ctx, r, 'c19', 'R19.1', pick=('setter:heartbeat', 'setter:channel_max', 'setter:frame_max'))
