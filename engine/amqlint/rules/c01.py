"""C01 -- the outbound byte stream is the protocol header plus whole frames, in order."""
import hir as H
import paths as P
import sym as S
from rules import arms as A
from rules import panics

EXPLANATION = (
    "The buffer discipline that makes the statement true for every fragmentation is decided structurally. (1) Single writer: the only calls of io::Write::write* in "
    "the crate are the one in Inner::write_to_stream (plus the TLS transport's own forwarding impl). (2) Position bookkeeping in write_to_stream, read as a path table: the "
    "position starts at 0, the slice handed to the transport is outbuf[pos..], pos advances by exactly the count that write returned, the loop runs while pos < len with len "
    "taken before the loop, would-block drains exactly the written prefix (that same pos) and returns Ok, completion clears, any other error becomes IoErrorWritingSocket, and "
    "nothing inside the loop can grow the buffer. (3) Buffer mutators: OutputBuffer's vector is private to `serialize`; it grows only by the 8 constant header bytes "
    "(once, from Inner::new), by one serialized frame per push_*, or by appending another whole OutputBuffer; it shrinks only through drain_written / clear (callers: the "
    "write loop) and drain_into_new_buf (moves everything out). (4) serialize() starts at the old length, re-runs the generator after resizing to exactly the size it asked "
    "for, and returns on success without touching the buffer. (5) One frame per hand-off: every IoLoopMessage::Send / ConnectionClose wraps drain_into_new_buf taken right "
    "after exactly one push on the handle's private buffer with the handle's own channel id; the I/O thread appends the buffer whole, in receive order; handles are not "
    "Clone. (6) After an event batch with unsent data the socket is re-registered readable|writable. FIFO of the hand-off channel and the kernel socket, well-formedness of "
    "bytes produced inside amq_protocol's generators, and liveness of the re-arm are not decided.")
ASSUMPTIONS = ["mio_extras::channel is FIFO per sender; the kernel socket preserves order", "amq_protocol generators produce well-formed frames of the size they report",
               "io::Write::write returns the number of bytes taken from the front of the slice"]
RULE_TEXT = "obligations: writer sites, write-loop rows, mutator sites, serialize rows, hand-off construction sites, re-arm registration; distinct = distinct keys"
LEVEL_TEXT = ("Structural decision of the outbound buffer discipline (single writer, exact position bookkeeping under short writes and would-block, whole-frame mutators, "
              "one frame per hand-off) for every fragmentation pattern and program. Cross-thread FIFO and generator internals are trusted.")
LEVEL_NOTE = "Trusts rustc HIR/MIR resolution, channel FIFO, amq_protocol generators."
TECHNIQUE = "static analysis: who-may-call over the MIR call graph, path tables with operand identity for the write and serialize loops, ownership facts from items"

W2S = 'io_loop::Inner::write_to_stream'
OB = 'serialize::OutputBuffer::'
SOB = 'serialize::SealableOutputBuffer::'
H0 = 'io_loop::io_loop_handle::IoLoopHandle::'

GROW = {'append', 'extend', 'extend_from_slice', 'push', 'resize', 'insert', 'splice'}
SHRINK = {'clear', 'drain', 'truncate', 'remove', 'split_off', 'pop', 'swap_remove', 'retain'}


def run(ctx):
    _run_main(ctx)
    _shared_r4(ctx)
    _shared_r5(ctx)
    _round6(ctx)
    _round7(ctx)
    _round8(ctx)
    _round10(ctx)


def _run_main(ctx):
    with ctx.rule('R01.1', 'single writer: io::Write::write* is called on the transport only from write_to_stream', floor=2) as r:
        sites = {}
        for p, fn in ctx.fns.items():
            if 'hir' not in fn:
                continue
            for nd in H.walk(fn['hir']):
                if nd.get('k') in ('Call', 'MethodCall'):
                    d = S.norm_path(H.callee_decl(nd) or '')
                    if d.startswith('std::io::Write::'):
                        sites.setdefault(p, []).append(d.split('::')[-1])
        allowed = {W2S: ['write']}
        for p, ms in sorted(sites.items()):
            fn = ctx.fns[p]
            if fn.get('impl_trait') == 'std::io::Write':
                # the TLS transport forwarding to the wrapped stream is the transport itself
                r.ok('transport-impl:%s' % p, ctx.site(p), built=ms)
                continue
            r.check('writer:%s' % p, allowed.get(p) == ms, ctx.site(p), built=ms, expected='only write_to_stream calls write (once)',
                    why='a second writer, write_all or a flush-with-data would bypass the position bookkeeping')
        r.check('writer-present', W2S in sites, ctx.site(W2S))

    with ctx.rule('R01.2', 'write loop: exact position bookkeeping under short writes, would-block and errors', floor=9) as r:
        rows = P.table(ctx, W2S, ['self', 'stream'])
        site = ctx.site(W2S)
        LEN = SOB + 'len(self.outbuf)'
        G = '($m0 < %s)' % LEN
        WR = 'std::io::Write::write(stream, self.outbuf[std::ops::RangeFrom{start: $m0}])'
        r.check('row-count', len(rows) == 4, site, built=len(rows), expected=4)
        r.check('position-starts-at-0', all(x.effects[:2] == [LEN, 'let $m0 = 0'] for x in rows), site, built=[x.effects[:2] for x in rows][:1],
                expected=[LEN, 'let $m0 = 0'], why='len is taken once before the loop; pos starts at 0')
        ok = [x for x in rows if x.conds == [(G, True), (WR, 'Ok(_)')]]
        wb = [x for x in rows if x.conds[:2] == [(G, True), (WR, 'Err(_)')] and x.conds[-1] == ('std::io::Error::kind(%s.Err.0)' % WR, 'std::io::ErrorKind::WouldBlock')]
        er = [x for x in rows if x.conds[:2] == [(G, True), (WR, 'Err(_)')] and x.conds[-1] == ('std::io::Error::kind(%s.Err.0)' % WR, 'not std::io::ErrorKind::WouldBlock')]
        done = [x for x in rows if x.conds == [(G, False)]]
        if r.check('rows', len(ok) == 1 and len(wb) == 1 and len(er) == 1 and len(done) == 1, site, built=[x.cond_strs() for x in rows],
                   expected='while pos < len: match stream.write(&outbuf[pos..]) {Ok(n), Err(WouldBlock), Err(other)}; then clear'):
            inc = '$m0 += %s.Ok.0' % WR
            body = ok[0].effects[ok[0].effects.index('loop {') + 1:]
            r.check('short-write:advance-by-written', body[0] == WR and inc in body and body[-1] == '} next-iteration' and
                    not [e for e in body if e.startswith('$m0') and e != inc], site, built=body, expected=[WR, '...', inc, '} next-iteration'],
                    why='pos must advance by exactly the count the transport accepted, once per write')
            muts = [e for e in body if not e.startswith('let $s') and (e.startswith((SOB, OB)) or 'outbuf' in e.split('(')[0])]  # `let $sN = ..` is a read kept for later
            r.check('short-write:buffer-untouched', not [e for e in muts if not e.startswith(WR)], site, built=muts, why='the buffer must not change while a prefix is being written')
            wbody = wb[0].effects[wb[0].effects.index('loop {') + 1:]
            r.check('would-block:drain-written-prefix', wbody[-1] == SOB + 'drain_written(self.outbuf, $m0)' and wb[0].value_str() == 'Ok(())' and wb[0].done == 'return', site, built=wbody,
                    expected=SOB + 'drain_written(self.outbuf, $m0); return Ok(())', why='exactly the bytes written so far are dropped; the rest stays queued in order')
            r.eq('error:mapped', (er[0].value_str(), er[0].done),
                 ('Err(errors::Error::IoErrorWritingSocket{source: %s.Err.0})' % WR, 'return'), site)
            r.check('error:nothing-dropped', not [e for e in er[0].effects if 'drain' in e or 'clear' in e], site)
            r.check('complete:clear', done[0].effects[-1] == SOB + 'clear(self.outbuf)' and done[0].value_str() == 'Ok(())', site, built=done[0].effects[-2:],
                    why='after the loop everything (len bytes) has been written')
        ok2, why = panics.Checkers(ctx).run('write_loop_guarded')
        r.check('operand-identity', ok2, site, built=why)

    with ctx.rule('R01.3', 'buffer mutators: header once, whole frames in, written prefix / everything out; vector private', floor=12) as r:
        adt = ctx.adt('serialize::OutputBuffer')
        r.check('vector-private', all(f['vis'] == 'restricted(serialize)' for f in adt['variants'][0]['fields']), None, built=[f['vis'] for f in adt['variants'][0]['fields']])
        # every Vec-mutating call on `<x>.0` of an OutputBuffer, by function
        seen = {}
        for p, fn in ctx.fns.items():
            if 'hir' not in fn or not p.startswith(('serialize::', '<serialize::')):
                continue
            for nd in H.walk(fn['hir']):
                if nd.get('k') == 'MethodCall' and nd.get('recv_ty', '').replace('&mut ', '').replace('&', '') == 'std::vec::Vec<u8>' and nd['name'] in GROW | SHRINK:
                    seen.setdefault(p, []).append(nd['name'])
                if nd.get('k') == 'Call' and (H.callee_path(nd) or '') == 'serialize::serialize':
                    seen.setdefault(p, []).append('serialize')
        want = {OB + 'drain_into_new_buf': ['append'], OB + 'push_heartbeat': ['serialize'], OB + 'push_method': ['serialize'], OB + 'push_content_header': ['serialize'],
                OB + 'push_content_body': ['serialize'], OB + 'clear': ['clear'], OB + 'drain_written': ['drain'], OB + 'append': ['append'], 'serialize::serialize': ['resize']}
        r.eq('mutator-set', seen, want, None, why='any other way of changing the byte vector could insert or drop partial frames')
        for nm, gen, args in (('push_heartbeat', 'gen_heartbeat_frame', '($c0, $c1)'), ('push_method', 'gen_method_frame', '($c0, $c1), channel_id, serialize::IntoAmqpClass::into_class(method)'),
                              ('push_content_header', 'gen_content_header_frame', '($c0, $c1), channel_id, class_id, length, properties'),
                              ('push_content_body', 'gen_content_body_frame', '($c0, $c1), channel_id, content')):
            rows = P.table(ctx, OB + nm)
            want1 = 'serialize::serialize(self.0, |$c0, $c1| amq_protocol::frame::generation::%s(%s))' % (gen, args)
            r.check('%s:one-frame' % nm, len(rows) == 1 and rows[0].effects.count(want1) == 1 and len([e for e in rows[0].effects if e.startswith('serialize::serialize(')]) == 1,
                    ctx.site(OB + nm), built=[x.effects for x in rows], expected=want1, why='each push appends exactly one serialized frame')
        rows = P.table(ctx, OB + 'with_protocol_header')
        r.eq('protocol-header', rows[0].value_str() if rows else None, "serialize::OutputBuffer(std::slice::to_vec(b'AMQP\\x00\\x00\\t\\x01'))", ctx.site(OB + 'with_protocol_header'),
             why='AMQP 0-9-1 protocol header: "AMQP" 0 0 9 1')
        A.unique_callers(ctx, r, 'protocol-header:once', OB + 'with_protocol_header', ['io_loop::Inner::new'])
        ev = ctx.evaluator(0)
        t = ev.run_fn('io_loop::Inner::new', [('var', 'heartbeats', -1), ('var', 'mio_channel_bound', -2)])
        r.check('outbuf-starts-with-header', 'outbuf: serialize::SealableOutputBuffer::new(serialize::OutputBuffer::with_protocol_header())' in S.show(t), ctx.site('io_loop::Inner::new'), built=S.show(t)[:300])
        A.unique_callers(ctx, r, 'Inner::new:once', 'io_loop::Inner::new', ['io_loop::IoLoop::new'])
        rows = P.table(ctx, OB + 'drain_into_new_buf', ['self'])
        r.check('drain_into_new_buf:moves-everything', len(rows) == 1 and rows[0].effects[-1] == 'std::vec::Vec::append(serialize::OutputBuffer(std::vec::Vec::with_capacity(%slen(self))).0, self.0)' % OB,
                ctx.site(OB + 'drain_into_new_buf'), built=[x.effects for x in rows])
        rows = P.table(ctx, OB + 'drain_written', ['self', 'n'])
        r.check('drain_written:prefix', len(rows) == 1 and rows[0].effects == ['std::vec::Vec::drain(self.0, std::ops::RangeTo{end: n})'], ctx.site(OB + 'drain_written'), built=[x.effects for x in rows],
                expected='self.0.drain(0..n)')
        rows = P.table(ctx, OB + 'append', ['self', 'other'])
        r.check('append:whole-buffer', len(rows) == 1 and rows[0].effects == ['std::vec::Vec::append(self.0, other.0)'], ctx.site(OB + 'append'), built=[x.effects for x in rows])
        A.unique_callers(ctx, r, 'shrinkers:drain_written', SOB + 'drain_written', [W2S])
        A.unique_callers(ctx, r, 'shrinkers:clear', SOB + 'clear', [W2S])

    with ctx.rule('R01.4', 'serialize loop: generator called at the old length, resize to exactly what it asks for, success leaves the buffer alone', floor=4) as r:
        rows = P.table(ctx, 'serialize::serialize', ['buf', 'f'])
        site = ctx.site('serialize::serialize')
        CALL = 'value:f(buf, std::vec::Vec::len(buf))'
        ok = [x for x in rows if x.conds == [(CALL, 'Ok(_)')]]
        small = [x for x in rows if x.conds == [(CALL, 'Err(_)'), (CALL + '.Err.0', 'cookie_factory::GenError::BufferTooSmall(_)')]]
        other = [x for x in rows if x.conds == [(CALL, 'Err(_)'), (CALL + '.Err.0', 'not cookie_factory::GenError::BufferTooSmall(_)')]]
        if r.check('rows', len(ok) == 1 and len(small) == 1 and len(other) == 1, site, built=[x.cond_strs() for x in rows],
                   expected='pos = buf.len() (before the loop); loop { match f(buf, pos) {Ok, Err(BufferTooSmall(n)), Err(_)} }'):
            r.check('position-before-loop', all(x.effects[:2] == ['std::vec::Vec::len(buf)', 'loop {'] for x in rows), site, built=ok[0].effects[:2], why='every attempt writes at the old end of the buffer')
            r.check('success-returns', ok[0].done in ('return', None) and not [e for e in ok[0].effects if e == '} next-iteration'] and not [e for e in ok[0].effects if 'resize' in e or 'truncate' in e], site, built=ok[0].effects)
            r.check('too-small-resizes-exactly', small[0].effects[-2:] == ['std::vec::Vec::resize(buf, %s.Err.0.BufferTooSmall.0, 0)' % CALL, '} next-iteration'], site, built=small[0].effects[-2:],
                    expected='buf.resize(n, 0) with the n the generator asked for; retry', why='a different size leaves garbage bytes behind the frame or truncates it')
            r.check('other-errors-unreachable', other[0].done == 'panic', site)

    with ctx.rule('R01.5', 'one frame per hand-off; appended whole in receive order; handles not Clone', floor=12) as r:
        rows = P.table(ctx, H0 + 'make_buf', ['self', 'method'])
        r.check('make_buf', len(rows) == 1 and [e for e in rows[0].effects if e.startswith('serialize::') and 'is_empty' not in e] ==
                [OB + 'push_method(self.buf, self.channel_id, method)', OB + 'drain_into_new_buf(self.buf)'] and rows[0].value_str() == OB + 'drain_into_new_buf(self.buf)', ctx.site(H0 + 'make_buf'),
                built=[x.effects for x in rows], why="exactly one frame, on the handle's own channel id, leaves the private buffer empty again")
        # every construction of Send / ConnectionClose
        n = 0
        for p, fn in sorted(ctx.fns.items()):
            if 'hir' not in fn:
                continue
            evs = None
            for nd in H.walk(fn['hir']):
                if nd.get('k') == 'Call' and nd['f'].get('k') == 'Def' and nd['f'].get('dk', '').startswith('Ctor') and \
                        S.norm_path(nd['f']['path']) in ('io_loop::IoLoopMessage::Send', 'io_loop::IoLoopMessage::ConnectionClose'):
                    n += 1
                    if evs is None:
                        evs, _ = ctx.events(p)
                    ctor = [e for e in evs if e.kind == 'ctor' and e.node is nd]
                    arg = S.show(ctor[0].args[0]) if ctor else None
                    ok = arg is not None and (arg == OB + 'drain_into_new_buf(self.buf)' or arg.startswith(H0 + 'make_buf(self, '))
                    r.check('handoff:%s:%s' % (p.split('::')[-1], S.norm_path(nd['f']['path']).split('::')[-1]), ok, ctx.site(p, nd), built=arg,
                            expected='the freshly drained private buffer holding exactly one frame')
        r.check('handoff-sites', n >= 1, None, built=n, expected='every construction site of Send / ConnectionClose is checked above (7 on the pinned tree; a shared helper lowers the count)')
        for nm in ('send_content_header', 'send_content_body'):
            rows = P.table(ctx, H0 + nm)
            pushes = [e for e in rows[0].effects if e.startswith(OB + 'push_')]
            r.check('%s:one-push-own-channel' % nm, len(rows) == 1 and len(pushes) == 1 and pushes[0].startswith('%spush_%s(self.buf, self.channel_id, ' % (OB, nm[len('send_'):])), ctx.site(H0 + nm), built=pushes)
        for ty in ('io_loop::io_loop_handle::IoLoopHandle', 'io_loop::io_loop_handle::IoLoopHandle0', 'io_loop::channel_handle::ChannelHandle', 'io_loop::channel_handle::Channel0Handle',
                   'serialize::OutputBuffer', 'channel::Channel', 'connection::Connection'):
            cl = ctx.impls_of('std::clone::Clone', ty)
            r.check('not-clone:%s' % ty.split('::')[-1], not cl, None, built=[i['self'] for i in cl], why='a cloned handle would be a second sender on the same channel id')

    with ctx.rule('R01.7', "the write loop's accessors denote the byte vector itself: len/is_empty/index/clear/drain_written forward unconditionally, whatever the seal", floor=6) as r:
        IDX = '<serialize::SealableOutputBuffer as std::ops::Index<std::ops::RangeFrom<usize>>>::index'
        IDX0 = '<serialize::OutputBuffer as std::ops::Index<std::ops::RangeFrom<usize>>>::index'
        VEC = 'self.buf.0'
        table = ((SOB + 'len', ['self'], ['std::vec::Vec::len(%s)' % VEC], [], 'bytes still to write'),
                 (SOB + 'is_empty', ['self'], ['std::vec::Vec::is_empty(%s)' % VEC, '(std::vec::Vec::len(%s) == 0)' % VEC], [], 'has_data_to_write'),
                 (SOB + 'clear', ['self'], ['std::vec::Vec::clear(%s)' % VEC, '()'], ['std::vec::Vec::clear(%s)' % VEC], 'everything was written'),
                 (SOB + 'drain_written', ['self', 'n'], ['()', 'std::vec::Vec::drain(%s, std::ops::RangeTo{end: n})' % VEC], ['std::vec::Vec::drain(%s, std::ops::RangeTo{end: n})' % VEC],
                  'exactly the written prefix leaves the buffer, sealed or not'),
                 (IDX, ['self', 'index'], ['self.buf[index]', 'self.buf.0[index]'], [], 'the unsent suffix'),
                 (IDX0, ['self', 'index'], ['self.0[index]'], [], 'the unsent suffix'))
        for fnp, params, values, effects, why in table:
            ev = ctx.evaluator(3, inline_filter=lambda q: q.startswith(('serialize::', '<serialize::')))
            t = ev.run_fn(fnp, [('var', x, -i - 1) for i, x in enumerate(params)])
            leaf = [e for e in ev.events if e.kind in ('call', 'assign', 'assignop') and not (isinstance(e.extra, dict) and e.extra.get('inlined'))]
            cond = [e for e in leaf if [g for g in e.guards if g[2] != 'inline']]
            eff = [P.effect_of(e) for e in leaf if e.kind != 'call' or e.callee.split('::')[-1] in GROW | SHRINK or e.callee.startswith(('serialize::', '<serialize::'))]
            nm = fnp.split('::')[-1] if not fnp.startswith('<') else ('index' if 'Sealable' in fnp else 'index0')
            r.check('forward:%s' % nm, S.show(t) in values and not cond and eff == effects, ctx.site(fnp), built={'value': S.show(t), 'effects': eff, 'conditional': [S.show(e.term) for e in cond]},
                    expected={'value': values[0], 'effects': effects, 'conditional': []}, why=why + '; a cursor, a seal gate or an offset here desynchronises the write position from the buffer')

    with ctx.rule('R01.9', "every frame is well-formed: the client's own Connection.Close keeps its reply text within a short string (shared with C07)", floor=2) as r:
        A.include(ctx, r, 'c07', 'R07.5')
        A.include(ctx, r, 'c07', 'R07.6')

    with ctx.rule('R01.6', 'unsent data re-arms the socket for writable after each event batch', floor=2) as r:
        evs, _ = ctx.events('io_loop::IoLoop::run_io_loop')
        site = ctx.site('io_loop::IoLoop::run_io_loop')
        reg = [e for e in evs if e.kind == 'call' and e.callee == 'mio::Poll::reregister' and any(g[2] == 'loop' for g in e.guards)]
        rw = [e for e in reg if '(mio::Ready::readable() | mio::Ready::writable())' in S.show(e.term)]
        ok = len(rw) == 1 and {'unless(serialize::SealableOutputBuffer::is_empty(self.inner.outbuf))', 'if(have_written_to_socket)'} <= set(x for g in rw[0].guards for x in S.guard_strs(g)) and \
            S.show(rw[0].args[1]) == 'stream' and S.show(rw[0].args[2]) == 'io_loop::STREAM'
        r.check('rearm-writable', ok, site, built=[(S.show(e.term)[:160], [g[3] for g in e.guards if g[2] == 'if']) for e in reg],
                expected='in the loop: if has_data_to_write() && have_written_to_socket { reregister(stream, STREAM, readable|writable, edge) }')
        entry = [e for e in evs if e.kind == 'call' and e.callee == 'mio::Poll::reregister' and not any(g[2] == 'loop' for g in e.guards)]
        gs = [sorted(x for g in e.guards for x in S.guard_strs(g)) for e in entry]
        ok = len(entry) == 1 and gs[0] == sorted(['unless(serialize::SealableOutputBuffer::is_empty(self.inner.outbuf))', 'if(have_written_to_socket)']) and \
            '(mio::Ready::readable() | mio::Ready::writable())' in S.show(entry[0].term) and S.show(entry[0].args[1]) == 'stream' and S.show(entry[0].args[2]) == 'io_loop::STREAM' and \
            not [x for x in evs if x.idx < entry[0].idx and x.kind in ('ret', 'try')]
        r.check('rearm-at-entry', ok, site, built=[(S.show(e.term)[:160], g) for e, g in zip(entry, gs)],
                expected='before the loop: if has_data_to_write() && have_written_to_socket { reregister(stream, STREAM, readable|writable, edge) }',
                why='whoever queued data before this loop was entered (protocol header, replies to frames replayed behind OpenOk) relies on it to get the socket armed for writing')
        fe = [e for e in evs if e.kind == 'for']
        r.check('rearm-after-batch', fe and rw and fe[0].idx < rw[0].idx, site)


def _shared_r4(ctx):
    """Rules of other properties that are necessary conditions of this one too (found by seeding round 4)."""
    with ctx.rule('R01.10', 'the I/O loop does not end while a sealed buffer still holds bytes: a state counts as done only as C08 tables it (shared with C08)', floor=1) as r:
        A.include(ctx, r, 'c08', 'R08.5', pick=('done:',))


def _shared_r5(ctx):
    """Rules of other properties that are necessary conditions of this one too (found by seeding round 5)."""
    from rules import arms as A
    with ctx.rule('R01.11', "frames issued through any channel reach the write path: every channel id has its own event token, distinct from the I/O loop's own (shared with C10)", floor=1) as r:
        A.include(ctx, r, 'c10', 'R10.7', pick=('special-tokens-disjoint', 'token-dispatch-total'))


def _round6(ctx):
    """Found by seeding round 6 (a fairness budget on the hand-off queues strands what is left in them)."""
    from rules import arms as A
    with ctx.rule('R01.12', 'no byte is lost in the hand-off: each wake-up of a channel queue reads it until it is empty', floor=2) as r:
        A.drains_until_empty(ctx, r, 'handle_channel_readable:until-empty', 'io_loop::Inner::handle_channel_readable', ['self', 'channel_id'],
                             'mio_extras::channel::Receiver::try_recv(', other_exits=('io_loop::channel_slots::ChannelSlots::get(self.chan_slots, channel_id) ~ None', 'io_loop::channel_slots::ChannelSlots::get_mut(self.chan_slots, channel_id) ~ None'))
        A.drains_until_empty(ctx, r, 'handle_channel0_readable:until-empty', 'io_loop::Inner::handle_channel0_readable', ['self', 'ch0_slot'],
                             'mio_extras::channel::Receiver::try_recv(')


def _round7(ctx):
    """Found by seeding round 7 (minimal one-line mutations)."""
    from rules import arms as A
    with ctx.rule('R01.13', 'frames handed to a channel reach the I/O thread and its poll set: blocking hand-off send; a channel opened after a back-pressure episode is polled (shared with C09, C18)', floor=4) as r:
        A.include(ctx, r, 'c09', 'R09.3', pick=('send',))
        A.include(ctx, r, 'c18', 'R18.2', pick=('flag',))
    with ctx.rule('R01.14', 'a TLS transport is the same transport: the wrappers hand read / write / flush and the poll registration through unchanged', floor=0) as r:
        import sym as S
        TS, HS = 'stream::native_tls::TlsStream<S>', 'stream::native_tls::TlsHandshakeStream<S>'
        INNER, HINNER = 'native_tls::TlsStream::get_ref(self.0)', 'stream::native_tls::InnerHandshake::get_ref(std::option::Option::unwrap(self.inner))'
        want = {
            '<%s as std::io::Read>::read' % TS: '<native_tls::TlsStream<S> as std::io::Read>::read(self.0, buf)',
            '<%s as std::io::Write>::write' % TS: '<native_tls::TlsStream<S> as std::io::Write>::write(self.0, buf)',
            '<%s as std::io::Write>::flush' % TS: '<native_tls::TlsStream<S> as std::io::Write>::flush(self.0)',
        }
        for w, inner in ((TS, INNER), (HS, HINNER)):
            want['<%s as mio::event::Evented>::register' % w] = 'mio::event::Evented::register(%s, poll, token, interest, opts)' % inner
            want['<%s as mio::event::Evented>::reregister' % w] = 'mio::event::Evented::reregister(%s, poll, token, interest, opts)' % inner
            want['<%s as mio::event::Evented>::deregister' % w] = 'mio::event::Evented::deregister(%s, poll)' % inner
        names = {'read': ['self', 'buf'], 'write': ['self', 'buf'], 'flush': ['self'], 'register': ['self', 'poll', 'token', 'interest', 'opts'],
                 'reregister': ['self', 'poll', 'token', 'interest', 'opts'], 'deregister': ['self', 'poll']}
        present = [p_ for p_ in want if ctx.has_fn(p_)]
        for p_ in sorted(present):
            prms = names[p_.rsplit('::', 1)[-1]]
            rows = P.table(ctx, p_, prms)
            r.check('forwards:%s' % p_.replace('stream::native_tls::', ''), len(rows) == 1 and not rows[0].conds and rows[0].value_str() == want[p_], ctx.site(p_), built=[x.row() for x in rows], expected=want[p_],
                    why='interest, token, buffer and result pass through untouched: the loop above cannot tell a TLS transport from a plain one')
        # with the native-tls feature the nine wrappers exist; without it there is no TLS transport at all
        r.check('wrappers-present', len(present) in (0, 9), None, built=len(present), expected='all nine (feature native-tls) or none')


def _round8(ctx):
    """Rules that are necessary conditions of this property too (found by seeding round 8)."""
    from rules import arms as A
    with ctx.rule('R01.15', "no frame is cut off by the end of the loop: the client's Close travels as ConnectionClose (which seals), and a handshake that ends in ServerClosing is done only when the buffer is flushed (shared with C08, C16)", floor=2) as r:
        A.include(ctx, r, 'c08', 'R08.3', pick=('message-kind',))
        A.include(ctx, r, 'c16', 'R16.4', pick=('done-table',))
    with ctx.rule('R01.16', "a CloseOk answering a refusal during the handshake is queued before the buffer is sealed (shared with C08)", floor=1) as r:
        A.include(ctx, r, 'c08', 'R08.1', pick=('handshake:closeok-seal-state',))


def _round10(ctx):
    """Rules of other properties that are necessary conditions of this one too (found by seeding round 10: two cooperating sites, indirection)."""
    from rules import arms as A
    with ctx.rule('R01.17', "a frame on the wire is well-formed for this connection: a body frame's payload is cut at the negotiated frame_max minus the 8 bytes of envelope, for every negotiated value (shared with C02)", floor=4) as r:
        A.include(ctx, r, 'c02', 'R02.4', pick=('payload-limit',))
