"""Shared helpers for rules over the dispatch arms and other functions' ordered effect scripts."""
import importlib.util
import os

import core
import dispatch as D
import sym as S

_HERE = os.path.dirname(os.path.dirname(os.path.dirname(os.path.dirname(os.path.abspath(__file__)))))
_spec = importlib.util.spec_from_file_location('dispatch_oracle', os.path.join(_HERE, 'spec', 'dispatch.py'))
O = importlib.util.module_from_spec(_spec)
_spec.loader.exec_module(O)


def arm_by_key(arms, key):
    for a in arms:
        if key in a.keys:
            return a
    return None


def check_script(ctx, r, arms, key, why=None):
    """The arm handling `key` performs exactly the oracle's ordered notable effects."""
    a = arm_by_key(arms, key)
    name = '%s/%s/%s::%s' % key if key[0] == 'Method' else '%s/%s' % key[:2]
    if a is None:
        r.bad('script:%s' % name, ctx.site(D.PROCESS), why='no arm handles this frame')
        return None
    exp = O.ARM_SCRIPTS.get(key)
    got = a.script()
    site = ctx.site(D.PROCESS, a.node)
    if got == exp:
        r.ok('script:%s' % name, site, built=got)
    else:
        first = None
        for i in range(max(len(got), len(exp))):
            g = got[i] if i < len(got) else None
            e = exp[i] if i < len(exp) else None
            if g != e:
                first = {'step': i, 'as_built': g, 'expected': e}
                break
        r.bad('script:%s' % name, site, built=got, expected=exp, why=(why or 'ordered effects of the arm differ from the oracle') + '; first difference: %s' % (first,))
    return a


def fn_script(ctx, fnpath, depth=0):
    events, ret = ctx.events(fnpath, depth=depth)
    return D.script_of(events, 0), events, ret


def unique_callers(ctx, r, key, target, want, why=None):
    cs = ctx.callers(target)
    return r.check(key, cs == set(want), ctx.site(target) if ctx.has_fn(target) else None, built=sorted(cs), expected=sorted(want), why=why or 'who-may-call')


_SUB_CACHE = {}


def include(ctx, r, modname, rid, pick=None, prefix=None):
    """Re-use the instances of another property's rule `rid` (evaluated on the same facts) inside rule r."""
    import importlib
    if getattr(ctx, '_is_sub', False):
        return 0  # a property evaluated only to lend its own rules does not need the ones it borrows (and two properties may borrow from each other)
    key = (id(ctx.facts), modname)
    if key not in _SUB_CACHE:
        mod = importlib.import_module('rules.' + modname)
        sub = type(ctx)(ctx.facts, ctx.info, ctx.prop, ctx.tier, ctx.config)
        sub._is_sub = True
        core.run_rules(mod, sub)
        _SUB_CACHE[key] = sub
    sub = _SUB_CACHE[key]
    n = 0
    for rr in sub.rules:
        if rr.rid != rid:
            continue
        for i in rr.insts:
            tail = i.key.split(':', 1)[1]
            if pick is not None and not any(pk in tail for pk in pick):
                continue
            k = (prefix + '/' if prefix else rid + '/') + tail
            r.insts.append(type(i)(r.rid, r._key(k), i.ok, i.site, i.built, i.expected, i.why, info=i.info, kind=i.kind))
            n += 1
    return n
