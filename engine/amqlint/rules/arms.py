"""Shared helpers for rules over the dispatch arms and other functions' ordered effect scripts."""
import importlib.util
import os

import dispatch as D
import sym as S

_HERE = os.path.dirname(os.path.dirname(os.path.dirname(os.path.dirname(os.path.abspath(__file__)))))
_spec = importlib.util.spec_from_file_location('dispatch_oracle', os.path.join(_HERE, 'spec', 'dispatch.py'))
O = importlib.util.module_from_spec(_spec)
_spec.loader.exec_module(O)


def arm_by_key(arms, key):
    for a in arms:
        if key in a.keys:
            return a
    return None


def check_script(ctx, r, arms, key, why=None):
    """The arm handling `key` performs exactly the oracle's ordered notable effects."""
    a = arm_by_key(arms, key)
    name = '%s/%s/%s::%s' % key if key[0] == 'Method' else '%s/%s' % key[:2]
    if a is None:
        r.bad('script:%s' % name, ctx.site(D.PROCESS), why='no arm handles this frame')
        return None
    exp = O.ARM_SCRIPTS.get(key)
    got = a.script()
    site = ctx.site(D.PROCESS, a.node)
    if got == exp:
        r.ok('script:%s' % name, site, built=got)
    else:
        first = None
        for i in range(max(len(got), len(exp))):
            g = got[i] if i < len(got) else None
            e = exp[i] if i < len(exp) else None
            if g != e:
                first = {'step': i, 'as_built': g, 'expected': e}
                break
        r.bad('script:%s' % name, site, built=got, expected=exp, why=(why or 'ordered effects of the arm differ from the oracle') + '; first difference: %s' % (first,))
    return a


def fn_script(ctx, fnpath, depth=0):
    events, ret = ctx.events(fnpath, depth=depth)
    return D.script_of(events, 0), events, ret


def unique_callers(ctx, r, key, target, want, why=None):
    cs = set(ctx.cg.callers(target))
    return r.check(key, cs == set(want), ctx.site(target) if ctx.has_fn(target) else None, built=sorted(cs), expected=sorted(want), why=why or 'who-may-call')
