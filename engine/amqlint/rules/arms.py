"""Shared helpers for rules over the dispatch arms and other functions' ordered effect scripts."""
import importlib.util
import os

import core
import dispatch as D
import sym as S

_HERE = os.path.dirname(os.path.dirname(os.path.dirname(os.path.dirname(os.path.abspath(__file__)))))
_spec = importlib.util.spec_from_file_location('dispatch_oracle', os.path.join(_HERE, 'spec', 'dispatch.py'))
O = importlib.util.module_from_spec(_spec)
_spec.loader.exec_module(O)


def arm_by_key(arms, key):
    for a in arms:
        if key in a.keys:
            return a
    return None


def check_script(ctx, r, arms, key, why=None):
    """The arm handling `key` performs exactly the oracle's ordered notable effects."""
    a = arm_by_key(arms, key)
    name = '%s/%s/%s::%s' % key if key[0] == 'Method' else '%s/%s' % key[:2]
    if a is None:
        r.bad('script:%s' % name, ctx.site(D.PROCESS), why='no arm handles this frame')
        return None
    exp = O.ARM_SCRIPTS.get(key)
    got = a.script()
    site = ctx.site(D.PROCESS, a.node)
    if got == exp:
        r.ok('script:%s' % name, site, built=got)
    else:
        first = None
        for i in range(max(len(got), len(exp))):
            g = got[i] if i < len(got) else None
            e = exp[i] if i < len(exp) else None
            if g != e:
                first = {'step': i, 'as_built': g, 'expected': e}
                break
        r.bad('script:%s' % name, site, built=got, expected=exp, why=(why or 'ordered effects of the arm differ from the oracle') + '; first difference: %s' % (first,))
    return a


def fn_script(ctx, fnpath, depth=0):
    events, ret = ctx.events(fnpath, depth=depth)
    return D.script_of(events, 0), events, ret


def unique_callers(ctx, r, key, target, want, why=None):
    cs = ctx.callers(target)
    return r.check(key, cs == set(want), ctx.site(target) if ctx.has_fn(target) else None, built=sorted(cs), expected=sorted(want), why=why or 'who-may-call')


def field_writers(ctx, adt, field):
    """Functions (owners, helpers folded into the vocabulary function that uses them) in which field `field` of `adt` is assigned,
    borrowed mutably, or the receiver of a `&mut self` method -- everything that could change what it holds."""
    import hir as H
    out = set()
    for p_, fn_ in ctx.fns.items():
        if 'hir' not in fn_ or fn_.get('cfg_test') or fn_.get('mac'):
            continue
        for nd in H.walk(fn_['hir']):
            tgt = None
            if nd.get('k') in ('Assign', 'AssignOp'):
                tgt = H.peel(nd['l'])
            elif nd.get('k') == 'MethodCall' and (nd.get('recv_ty') or '').startswith('&mut'):
                tgt = H.peel(nd['recv'])
            elif nd.get('k') == 'AddrOf' and nd.get('mut'):
                tgt = H.peel(nd['e'])
            if tgt is not None and tgt.get('k') == 'Field' and tgt.get('name') == field and adt in (tgt['e'].get('ty') or ''):
                out.add(ctx.owner(p_))
    return out


def drains_until_empty(ctx, r, key, fnp, params, recv_call, other_exits=()):
    """Edge-triggered readiness is reported once: the handler of a queue must take messages until the queue says Empty. Every path
    of `fnp` that leaves its loop without an error has seen `recv_call ~ Err(Empty)` (or one of `other_exits`, conditions under
    which there is nothing to read from); a path that took a message goes round again."""
    import paths as P
    rows = P.table(ctx, fnp, params)
    bad = []
    took = 0
    for x in rows:
        cs = x.cond_strs()
        got = any(c.startswith(recv_call) and c.endswith('~ Ok(_)') for c in cs)
        empty = any(c.endswith('TryRecvError::Empty') for c in cs)
        if got:
            took += 1
            if x.done != 'iterate' and not x.value_str().startswith('Err(') and not x.value_str().endswith('?'):
                bad.append(x.row())
        elif x.done in ('return', 'break', None) and not x.value_str().startswith('Err(') and not empty and not any(c in other_exits for c in cs):
            bad.append(x.row())
    return r.check(key, rows and took >= 1 and not bad, ctx.site(fnp), built=bad[:3] or [x.cond_strs() for x in rows][:4],
                   expected='every path that stops reading has seen try_recv() ~ Err(Empty) (or an error); a path that took a message reads again',
                   why='the receivers are registered edge-triggered: what is left in the queue when the handler returns is not announced again')


def setters_and_ctors(ctx, r, adt, consts=None, names=None):
    """Builder setters and constructor helpers of a public argument struct: every function of `adt` that returns one by value
    puts each parameter named like a field into that field and into no other; a setter keeps the rest of `self`; the fields
    a constructor fills with constants are tabled in `consts` ({fn name: {field: shown value}})."""
    import sym as S
    a = ctx.adts.get(adt)
    if a is None or not a.get('variants'):
        r.check('setters:%s' % adt.split('::')[-1], False, None, built='type not found')
        return 0
    fields = [f['name'] for f in a['variants'][0]['fields']]
    n = 0
    for p_, fn_ in sorted(ctx.fns.items()):
        if 'hir' not in fn_ or fn_.get('cfg_test') or fn_.get('impl_trait') or S.norm_path(fn_.get('impl_self') or '') != adt:
            continue
        if S.norm_path(fn_.get('output') or '') != adt:
            continue
        if names is not None and p_.split('::')[-1] not in names:
            continue  # API added later is not what the property talks about
        prms = [(q.get('name') if q.get('k') == 'Bind' else None) for q in fn_.get('params', [])]
        if None in prms:
            continue
        # one constructor may be written in terms of another of the same type: read through those (and through new helpers)
        ev = ctx.evaluator(3, inline_filter=lambda q_: ctx.new_helper(q_) or (q_ in ctx.fns and S.norm_path(ctx.fns[q_].get('impl_self') or '') == adt and not ctx.fns[q_].get('impl_trait')))
        try:
            t = ev.run_fn(p_, [('var', nm, -(i + 1)) for i, nm in enumerate(prms)])
        except Exception as e:  # noqa
            t = None
        nm_ = p_.split('::')[-1]
        site = ctx.site(p_)
        if t is None or t[0] != 'struct' or t[1] != adt:
            if [x for x in prms if x in fields]:
                r.check('%s:literal' % nm_, False, site, built=S.show(t) if t is not None else None, expected='one %s literal' % adt.split('::')[-1])
            continue
        fv = {k: S.show(v) for k, v in t[2]}
        base = S.show(t[3]) if t[3] is not None else None
        for q in prms:
            if q in fields:
                n += 1
                r.check('%s:sets:%s' % (nm_, q), fv.get(q) == q, site, built={q: fv.get(q)}, expected={q: q}, why='the argument goes into the field of its name')
        crossed = {k: v for k, v in fv.items() if v in prms and v != k}
        r.check('%s:no-crossed-field' % nm_, not crossed, site, built=crossed, expected={}, why='no field takes the argument meant for another')
        if 'self' in prms:
            r.check('%s:keeps-rest' % nm_, base == 'self', site, built=base, expected='..self')
        elif consts and nm_ in consts:
            want = consts[nm_]
            r.check('%s:constants' % nm_, base is None and {k: fv.get(k) for k in want} == want, site, built={k: fv.get(k) for k in want}, expected=want)
        n += 1
    return n


_SUB_CACHE = {}


def include(ctx, r, modname, rid, pick=None, prefix=None):
    """Re-use the instances of another property's rule `rid` (evaluated on the same facts) inside rule r."""
    import importlib
    if getattr(ctx, '_is_sub', False):
        return 0  # a property evaluated only to lend its own rules does not need the ones it borrows (and two properties may borrow from each other)
    key = (id(ctx.facts), modname)
    if key not in _SUB_CACHE:
        mod = importlib.import_module('rules.' + modname)
        sub = type(ctx)(ctx.facts, ctx.info, ctx.prop, ctx.tier, ctx.config)
        sub._is_sub = True
        core.run_rules(mod, sub)
        _SUB_CACHE[key] = sub
    sub = _SUB_CACHE[key]
    n = 0
    for rr in sub.rules:
        if rr.rid != rid:
            continue
        for i in rr.insts:
            tail = i.key.split(':', 1)[1]
            if pick is not None and not any(pk in tail for pk in pick):
                continue
            k = (prefix + '/' if prefix else rid + '/') + tail
            r.insts.append(type(i)(r.rid, r._key(k), i.ok, i.site, i.built, i.expected, i.why, info=i.info, kind=i.kind))
            n += 1
    return n


def _exhaustive(preds):
    """Do the predicates tested on one subject at one decision node cover every case?"""
    import canon
    ps = set(preds)
    if True in ps and False in ps:
        return True
    strs = [p_ for p_ in ps if isinstance(p_, str)]
    if len(strs) != len(ps):
        return False
    if '_' in strs or {'Some(_)', 'None'} <= set(strs) or {'Ok(_)', 'Err(_)'} <= set(strs):
        return True
    pos = set()
    for p_ in strs:
        if not p_.startswith('not '):
            pos.update(x.strip() for x in p_.split(' | '))
    for p_ in strs:
        if p_.startswith('not ') and all(x.strip() in pos for x in p_[4:].split(' | ')):
            return True
    # a crate enum: the variants named must be all of them
    names, enum = set(), None
    for x in pos:
        head = x.split('(')[0].split('{')[0]
        if '::' not in head:
            return False
        e, v = head.rsplit('::', 1)
        if enum not in (None, e):
            return False
        enum = e
        names.add(v)
    info = canon.variants_of(enum) if enum else None
    return info is not None and names == set(x[0] for x in info[1])


def covers_all(cond_lists):
    """cond_lists: for each path reaching a point, the conditions (subject, predicate) tested on the way, in order.
    True iff together the paths cover every case, i.e. the point is reached unconditionally (decision-tree completeness)."""
    if not cond_lists:
        return False
    if any(not c for c in cond_lists):
        return True
    subj = set(c[0][0] for c in cond_lists)
    if len(subj) != 1:
        return False
    groups = {}
    for c in cond_lists:
        groups.setdefault(c[0][1], []).append(list(c[1:]))
    if not _exhaustive(list(groups)):
        return False
    return all(covers_all(g) for g in groups.values())

