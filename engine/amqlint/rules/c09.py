"""C09 -- a server-initiated channel close affects that channel only."""
import dispatch as D
import hir as H
import paths as P
import sym as S
from rules import arms as A
from rules import c10

EXPLANATION = (
    "Per-arm isolation is decided from the resolved source: the Channel.Close arm's ordered effects are exactly: remove slot n (the frame's own id), "
    "send ServerClosedChannel{n, code, text} to that slot's reply queue, the same to each of that slot's drained consumers, queue Channel.CloseOk on n; it "
    "performs no drain/iteration over the slot table, no state change and no seal. A pending wake-up for the removed slot is tolerated (Ok), the handle's "
    "failed send surfaces the queued error before EventLoopDropped, and removal returns the id to the free set. Every other arm addresses only the slot "
    "of its own frame's channel (shared with C03). The arm is reached whatever else channel n was doing (the paths into it form a complete decision tree over "
    "everything tested before the dispatch), the consumers are told before the channel's caller is released (so a consumer being dropped cannot turn the close "
    "into a connection-wide failure: D12), and a reply still unread cannot fill the slot's reply queue. Interleavings with calls on other threads are covered only through this per-arm isolation.")
ASSUMPTIONS = ["crossbeam/mio_extras channels: a dropped sender disconnects the receiver; FIFO per channel", "C03's addressing rule covers the other arms"]
RULE_TEXT = "obligations: the arm script, absence of cross-channel effects, stale wake-up row, handle error-order rows, id reuse; distinct = distinct keys"
LEVEL_TEXT = ("Structural decision that a server channel close touches slot n only, answers CloseOk on n, notifies exactly that channel's caller and consumers with the "
              "server's code/text (consumers first, then the caller), that the arm is reached unconditionally, that stale wake-ups are tolerated, error order on the handle, and that the id is freed. Cross-thread interleavings are not explored.")
LEVEL_NOTE = "Trusts rustc HIR resolution and the channel libraries' disconnect semantics; arm script oracle hand-written."
TECHNIQUE = "static analysis: ordered effect script of the dispatch arm vs oracle; path tables of the handle's error handling"


def run(ctx):
    _run_main7(ctx)
    _round7(ctx)


def _run_main7(ctx):
    _run_main(ctx)
    _shared_r4(ctx)


def _run_main(ctx):
    m, arms, _ = D.read(ctx)
    with ctx.rule('R09.1', 'Channel.Close arm: slot n removed and notified, CloseOk on n, nothing else touched', floor=4) as r:
        a = A.check_script(ctx, r, arms, ('Method', 'n', 'channel', 'Close'))
        if a is not None:
            txt = ' ; '.join(a.script())
            site = ctx.site(D.PROCESS, a.node)
            r.check('no-table-wide-effects', 'ChannelSlots::drain' not in txt and 'ChannelSlots::iter' not in txt, site, built=txt[:200], why='must not touch other channels')
            r.check('no-state-change', not [e for e in a.events if e.kind == 'assign' and S.show(e.lhs) == 'self'], site)
            r.check('no-seal', not a.calls('seal_writes'), site)
    with ctx.rule('R09.2', 'a pending wake-up for a removed slot is ignored, not an error', floor=2) as r:
        rows = P.table(ctx, 'io_loop::Inner::handle_channel_readable', ['self', 'channel_id'])
        none = [x for x in rows if x.conds and x.conds[0] == ('io_loop::channel_slots::ChannelSlots::get(self.chan_slots, channel_id)', 'None')]
        r.check('none-arm-ok', len(none) == 1 and none[0].value_str() == 'Ok(())' and none[0].done == 'return', ctx.site('io_loop::Inner::handle_channel_readable'),
                built=[x.row() for x in none], expected='None => return Ok(())')
        some = [x for x in rows if x.conds and x.conds[0][1] == 'Some(_)']
        r.check('some-arm-reads', some and all(any('try_recv' in e for e in x.effects) for x in some), ctx.site('io_loop::Inner::handle_channel_readable'))
    with ctx.rule('R09.3', 'handle side: failed send -> queued error first, else EventLoopDropped; failed recv -> EventLoopDropped', floor=4) as r:
        H0 = 'io_loop::io_loop_handle::IoLoopHandle::'
        ev = ctx.evaluator(0)
        t = ev.run_fn(H0 + 'send', [('var', 'self', -1), ('var', 'message', -2)])
        r.eq('send', S.show(t), 'std::result::Result::map_err(mio_extras::channel::SyncSender::send(self.tx, message), |$c0| %scheck_recv_for_error(self))' % H0, ctx.site(H0 + 'send'))
        ev = ctx.evaluator(0)
        t = ev.run_fn(H0 + 'recv', [('var', 'self', -1)])
        r.eq('recv', S.show(t), 'std::result::Result::map_err(crossbeam_channel::Receiver::recv(self.rx), |$c0| errors::Error::EventLoopDropped)?', ctx.site(H0 + 'recv'))
        rows = P.table(ctx, H0 + 'check_recv_for_error', ['self'])
        got = {x.conds[0][1]: x.value_str() for x in rows if x.conds}
        r.eq('check_recv_for_error', got, {'Ok(_)': 'errors::Error::FrameUnexpected', 'Err(_)': '%srecv(self).Err.0' % H0}, ctx.site(H0 + 'check_recv_for_error'),
             why='the error queued by the I/O thread (ServerClosedChannel ...) is what recv() yields; it must be returned as is')
        # same pattern on the channel-0 side
        for nm in ('allocate_channel', 'set_blocked_tx'):
            evs, ret = ctx.events('io_loop::io_loop_handle::IoLoopHandle0::' + nm)
            txt = sorted(set(S.show(t) for e in evs if e.kind in ('call', 'try') for t in ([e.term] if e.kind == 'call' else [e.term[1]])
                             if t is not None and t[0] == 'call' and t[1] == 'std::result::Result::map_err' and 'SyncSender::send' in S.show(t)) |
                         set(S.show(t) for t in S.subterms(ret) if ret is not None and t is not None and t[0] == 'call' and t[1] == 'std::result::Result::map_err' and 'SyncSender::send' in S.show(t)))
            r.check('%s:error-path' % nm, len(txt) == 1 and txt[0].endswith('|$c0| %scheck_recv_for_error(self.common))' % H0), ctx.site('io_loop::io_loop_handle::IoLoopHandle0::' + nm), built=txt)
    with ctx.rule('R09.5', 'crossing closes: a CloseOk for an already removed slot is not an error (other channels keep working)', floor=1) as r:
        A.check_script(ctx, r, arms, ('Method', 'n', 'channel', 'CloseOk'))

    with ctx.rule('R09.6', 'nothing else takes items off the reply queue or bypasses the send path (shared with C04 / C13)', floor=8) as r:
        A.include(ctx, r, 'c04', 'R04.4')
        A.include(ctx, r, 'c13', 'R13.3', pick=('same-fifo',))

    with ctx.rule('R09.4', 'the closed id becomes available again', floor=1) as r:
        c10.reuse(ctx, r)


def _shared_r4(ctx):
    """Rules of other properties that are necessary conditions of this one too (found by seeding round 4)."""
    with ctx.rule('R09.8', "a reply still unread does not turn the server's Channel.Close into an error: reply queue of two per slot (shared with C05)", floor=1) as r:
        A.include(ctx, r, 'c05', 'R05.3', pick=('slot/handle-pairing',))
    with ctx.rule('R09.9', "the Channel.Close arm is reached whatever else channel n was doing: nothing but the connection state and the frame itself decides", floor=2) as r:
        import paths as P
        fnp = 'io_loop::connection_state::ConnectionState::process'
        rows = P.table(ctx, fnp, ['self', 'inner', 'frame'])
        CLOSE = 'amq_protocol::frame::AMQPFrame::Method(_, amq_protocol::protocol::AMQPClass::Channel(amq_protocol::protocol::channel::AMQPMethod::Close(_)))'
        mine = [x for x in rows if any(pred == CLOSE for subj, pred in x.conds if isinstance(pred, str))]
        r.check('close-arm:rows', len(mine) >= 1, ctx.site(fnp), built=len(mine))
        pre = []
        ok0 = True
        for x in mine:
            cs = list(x.conds)
            k = [j for j, c in enumerate(cs) if c == ('frame', CLOSE)][0]
            ok0 = ok0 and cs[0] == ('self', 'io_loop::connection_state::ConnectionState::Steady(_)')
            # what is tested between the state gate and the dispatch; a test of the frame that Channel.Close passes anyway says nothing
            pre.append([c for c in cs[1:k] if not (c[0] == 'frame' and isinstance(c[1], str) and CLOSE.startswith(c[1].split('(')[0] + '('))])
        r.check('close-arm:precondition', ok0 and A.covers_all(pre), ctx.site(fnp), built=[x.cond_strs() for x in mine],
                expected='reached for every Channel.Close frame in state Steady: the paths into the arm cover every case of whatever else is tested before it',
                why="a half-received content, an unread reply or any other per-channel circumstance must not turn the server's Channel.Close into a connection error")
    with ctx.rule('R09.10', "the Channel.Close arm tells the consumers before it releases the channel's caller, so a consumer being dropped cannot end the whole connection (shared with C11)", floor=2) as r:
        A.include(ctx, r, 'c11', 'R11.7')


def _round7(ctx):
    """Found by seeding round 7 (minimal one-line mutations)."""
    from rules import arms as A
    with ctx.rule('R09.11', 'the id of a closed channel is handed out again: the freed-id fallback skips stale entries instead of giving up (shared with C10)', floor=3) as r:
        A.include(ctx, r, 'c10', 'R10.2', pick=('fallback',))
