"""C03 -- inbound messages are reassembled and delivered exactly once, intact, in order."""
import re

import dispatch as D
import hir as H
import paths as P
import sym as S
from core import Unrecognised
from rules import panics

EXPLANATION = (
    "Structural decision of the content pipeline: (1) the per-channel collector's transition table is read as a path table from the resolved HIR of "
    "ContentCollector::collect_* and State::collect_{header,body} and compared, kind by kind, with the method->header->body* automaton of AMQP "
    "content (out-of-sequence frames and overrun rejected, Done resets the collector, NeedMore keeps the same kind and accumulates); (2) the three "
    "content kinds and the Header/Body dispatch arms are checked to be isomorphic; (3) constructors copy every field of the method/header into the "
    "delivered value; (4) every dispatch arm addresses the slot of the frame's own channel id and the consumer of the collected tag; (5) consumer "
    "queues are unbounded and every I/O-thread send is non-blocking, the blocking calls on the I/O thread being exactly a reasoned list. These hold "
    "of the code for every history and segmentation; equality of decoded properties with what was sent is inside amq_protocol (trusted).")
ASSUMPTIONS = [
    "amq_protocol decodes frames correctly; crossbeam_channel is FIFO per sender",
    "segmentation independence of the frame reader is C06's obligation",
    "Vec::append preserves order (std)",
]
RULE_TEXT = ("obligations: one per collector transition row and kind, per constructor field, per slot-addressing call site, per blocking call site; "
             "distinct = distinct instance keys")

CC = 'io_loop::content_collector::'
KINDS = [('Delivery', 'collect_deliver'), ('Return', 'collect_return'), ('Get', 'collect_get')]

LEVEL_TEXT = ("Structural necessary conditions decided from the resolved source for every history: the collector's transition table, "
              "sibling agreement of the three content kinds, field-by-field constructors, slot/consumer addressing by the frame's own channel and tag, "
              "unbounded consumer queues and non-blocking I/O-thread sends. Not a proof of end-to-end delivery: FIFO of the queues and decoding inside "
              "amq_protocol are trusted, segmentation independence is C06.")
LEVEL_NOTE = "Trusts rustc's HIR/MIR, amq_protocol's decoding, crossbeam FIFO; oracle expectations are hand-written in the rule module."
TECHNIQUE = "static analysis: path tables and symbolic terms over rustc-resolved HIR, call-graph who-may-block check"


def run(ctx):
    _run_main(ctx)
    _shared_r4(ctx)
    _shared_r5(ctx)
    _round8(ctx)


def _run_main(ctx):
    r031(ctx, 'R03.1')
    r032(ctx)
    r034(ctx)
    r035(ctx, 'R03.5')
    r036(ctx)
    with ctx.rule('R03.7', 'segmentation independence of the frame reader (shared with C06)', floor=10) as r:
        from rules import arms as A
        A.include(ctx, r, 'c06', 'R06.1')
        A.include(ctx, r, 'c06', 'R06.2')
        A.include(ctx, r, 'c06', 'R06.3')


def find_path(rows, *frags):
    """Rows whose conditions contain every fragment. A fragment starting with '~ ' must equal a
    whole pattern (exact match of the matched pattern, so an or-pattern or a widened arm differs)."""
    out = []
    for r in rows:
        ok = True
        for f in frags:
            if f.startswith('~ '):
                if not any(isinstance(pol, str) and pol == f[2:] for c, pol in r.conds):
                    ok = False
            elif f.startswith('pat:'):
                if not any(isinstance(pol, str) and f[4:] in pol for c, pol in r.conds):
                    ok = False
            else:
                cs = ' & '.join(r.cond_strs())
                if f not in cs:
                    ok = False
        if ok:
            out.append(r)
    return out


def r031(ctx, rid):
    """Collector transition table + body accumulation (R03.1, R03.3)."""
    with ctx.rule(rid, 'collector automaton: method -> header -> body*; out-of-sequence and overrun rejected; Done resets, NeedMore keeps kind', floor=30) as r:
        FU = 'Err(errors::Error::FrameUnexpected)'
        # start of content
        for kind, fnn in KINDS:
            fnp = CC + 'ContentCollector::' + fnn
            rows = P.table(ctx, fnp, ['self', 'start'])
            site = ctx.site(fnp)
            idle = find_path(rows, '~ None')
            busy = find_path(rows, '~ Some(_)')
            r.check('%s:rows' % fnn, len(rows) == 2 and len(idle) == 1 and len(busy) == 1, site, built=[x.row() for x in rows],
                    expected='two paths: idle -> start collecting, busy -> FrameUnexpected')
            if len(idle) == 1:
                want = 'self.kind = Some(%sKind::%s(%sState::Start(start)))' % (CC, kind, CC)
                r.check('%s:idle' % fnn, want in idle[0].effects and idle[0].value_str() == 'Ok(())' and 'std::option::Option::take(self.kind)' in idle[0].cond_strs()[0],
                        site, built=idle[0].row(), expected={'do': want, 'value': 'Ok(())'})
            if len(busy) == 1:
                r.check('%s:busy' % fnn, busy[0].value_str() == FU and not [e for e in busy[0].effects if e.startswith('self.kind =')], site, built=busy[0].row(),
                        expected='a new method while content is outstanding -> FrameUnexpected')
        # header / body steps at the collector level
        for step, argname in (('collect_header', 'header'), ('collect_body', 'body')):
            fnp = CC + 'ContentCollector::' + step
            rows = P.table(ctx, fnp, ['self', argname])
            site = ctx.site(fnp)
            # the state is taken out first; no content in progress is `?`-propagated FrameUnexpected (the failing arm of the match
            # on `self.kind.take()` is its `?`, whichever way it is written), then the kind decides
            TAKEN = 'std::option::Option::ok_or(std::option::Option::take(self.kind), errors::Error::FrameUnexpected)?'
            r.check('%s:rowcount' % step, len(rows) == 6, site, built=len(rows), expected='3 kinds x (Done, NeedMore)')
            r.check('%s:idle' % step, rows and all(x.conds and x.conds[0][0] == TAKEN for x in rows), site, built=[x.cond_strs()[:1] for x in rows][:2],
                    expected='%s without content in progress -> FrameUnexpected (self.kind.take().ok_or(FrameUnexpected)? before anything else)' % argname)
            for kind, _ in KINDS:
                st = '%s.%s.0' % (TAKEN, kind)
                call = '%sState::%s(%s, self.channel_id, %s)' % (CC, step, st, argname)
                mine = [x for x in rows if len(x.conds) == 2 and x.conds[0] == (TAKEN, '%sKind::%s(_)' % (CC, kind))]
                done = [x for x in mine if x.conds[1][1].startswith(CC + 'Content::Done(')]
                more = [x for x in mine if x.conds[1][1] == CC + 'Content::NeedMore(_)']
                if not r.check('%s:%s:rows' % (step, kind), len(done) == 1 and len(more) == 1, site, built=[x.row() for x in done + more]):
                    continue
                d, m = done[0], more[0]
                payload = '%s?.Done.0' % call
                res = 'Ok(Some(%sCollectorResult::%s(%s)))' % (CC, kind, payload)  # Delivery((tag, delivery)) rebuilt from the pair reads as the pair
                # the collector is idle afterwards: the state was take()n (that leaves None) and nothing is stored back, or None is stored explicitly
                stores = [e for e in d.effects if e.startswith('self.kind = ')]
                idle_after = d.conds[0][0] == TAKEN and stores in ([], ['self.kind = None'])
                r.check('%s:%s:done' % (step, kind), idle_after and d.value_str() == res and call in d.effects, site, built=d.row(),
                        expected={'do': [call, 'self.kind = None (or left None by take())'], 'value': res})
                keep = 'self.kind = Some(%sKind::%s(%s?.NeedMore.0))' % (CC, kind, call)
                r.check('%s:%s:needmore' % (step, kind), keep in m.effects and m.value_str() == 'Ok(None)', site, built=m.row(), expected={'do': keep, 'value': 'Ok(None)'})
        # State::collect_header
        fnp = CC + 'State::collect_header'
        rows = P.table(ctx, fnp, ['self', 'channel_id', 'header'])
        site = ctx.site(fnp)
        r.check('State::collect_header:rowcount', len(rows) == 3, site, built=len(rows), expected=3)
        S0 = '~ ' + CC + 'State::Start(_)'
        z = [x for x in find_path(rows, S0) if ('(0 == header.body_size)', True) in x.conds]
        nz = [x for x in find_path(rows, S0) if ('(0 == header.body_size)', False) in x.conds]
        b = find_path(rows, '~ ' + CC + 'State::Body(_, _, _)')
        new0 = '%sContentType::new(channel_id, self.Start.0, std::vec::Vec::new(), header.properties)' % CC
        if r.check('State::collect_header:rows', len(z) == 1 and len(nz) == 1 and len(b) == 1, site, built=[x.row() for x in rows]):
            r.eq('State::collect_header:empty-body', z[0].value_str(), 'Ok(%sContent::Done(%s))' % (CC, new0), site,
                 why='body size 0: the message is complete with an empty body and the header properties')
            m = re.match(r'^Ok\(%sContent::NeedMore\(%sState::Body\(self\.Start\.0, header, (.+)\)\)\)$' % (re.escape(CC), re.escape(CC)), nz[0].value_str())
            r.check('State::collect_header:start-body', bool(m) and m.group(1) in ('std::vec::Vec::new()',), site, built=nz[0].value_str(),
                    expected='Ok(NeedMore(Body(start, header, <empty buffer not sized from the wire>)))')
            r.eq('State::collect_header:second-header', b[0].value_str(), FU, site, why='a second header -> FrameUnexpected')
        # State::collect_body
        fnp = CC + 'State::collect_body'
        rows = P.table(ctx, fnp, ['self', 'channel_id', 'body'])
        site = ctx.site(fnp)
        LEN, SIZE = 'std::vec::Vec::len(self.Body.2)', 'self.Body.1.body_size'
        cmpc = LEN  # the length is taken after the append, whatever form the three-way comparison has
        SB = '~ ' + CC + 'State::Body(_, _, _)'
        eq = [x for x in find_path(rows, SB) if x.conds[-1] == ('(%s == %s)' % tuple(sorted([LEN, SIZE])), True)]
        lt = [x for x in find_path(rows, SB) if x.conds[-1] == ('(%s < %s)' % (LEN, SIZE), True)]
        st = find_path(rows, '~ ' + CC + 'State::Start(_)')
        other = [x for x in find_path(rows, SB) if x.conds[-1] == ('(%s < %s)' % (SIZE, LEN), True)]
        if r.check('State::collect_body:rows', len(rows) == 4 and len(eq) == 1 and len(lt) == 1 and len(other) == 1 and len(st) == 1, site, built=[x.row() for x in rows]):
            for nm, x in (('equal', eq[0]), ('less', lt[0]), ('greater', other[0])):
                r.check('State::collect_body:%s:append-first' % nm, x.effects and x.effects[0] == 'std::vec::Vec::append(self.Body.2, body)' and
                        cmpc in x.effects and x.effects.index(cmpc) > 0 and len([e for e in x.effects if 'Vec::append' in e or 'extend' in e or 'push' in e]) == 1,
                        site, built=x.effects[:3], expected=['std::vec::Vec::append(self.Body.2, body)', '...', cmpc],
                        why='the accumulated buffer is extended by exactly this frame, in order, before comparing with the announced size')
            r.eq('State::collect_body:equal', eq[0].value_str(), 'Ok(%sContent::Done(%sContentType::new(channel_id, self.Body.0, self.Body.2, self.Body.1.properties)))' % (CC, CC), site)
            r.eq('State::collect_body:less', lt[0].value_str(), 'Ok(%sContent::NeedMore(%sState::Body(self.Body.0, self.Body.1, self.Body.2)))' % (CC, CC), site)
            r.eq('State::collect_body:greater', other[0].value_str(), FU, site, why='more body bytes than announced -> FrameUnexpected')
            r.eq('State::collect_body:no-header-yet', st[0].value_str(), FU, site, why='body before header -> FrameUnexpected')


def r032(ctx):
    with ctx.rule('R03.2', 'sibling agreement: Header and Body dispatch arms are isomorphic', floor=2) as r:
        m, arms, _ = D.read(ctx)
        h = [a for a in arms if a.keys == [('Header', 'n', '-', '-')]]
        b = [a for a in arms if a.keys == [('Body', 'n', '-', '-')]]
        if not r.check('arms-found', len(h) == 1 and len(b) == 1, ctx.site(D.PROCESS)):
            return
        hs = [s.replace('frame.Header.0', 'CH').replace('frame.Header.2', 'PAYLOAD').replace('collect_header', 'STEP') for s in h[0].summary()]
        bs = [s.replace('frame.Body.0', 'CH').replace('frame.Body.1', 'PAYLOAD').replace('collect_body', 'STEP') for s in b[0].summary()]
        r.eq('header~body', hs, bs, ctx.site(D.PROCESS, h[0].node), why='a message completed by its header (empty body) and by its last body frame are dispatched identically')
        r.check('three-results', len([s for s in hs if 'CollectorResult' in s or 'STEP' in s]) >= 1, ctx.site(D.PROCESS))


def r034(ctx):
    with ctx.rule('R03.4', 'constructors copy every field of the method and header into the delivered value', floor=25) as r:
        def fields_of(t):
            return {n: S.show(v) for n, v in t[2]}

        def ev(fnp, params, depth=3):
            ctx.fn(fnp)
            e = ctx.evaluator(depth)
            return e.run_fn(fnp, [('var', n, -(i + 1)) for i, n in enumerate(params)])
        dl = lambda src: {'channel_id': 'channel_id', 'delivery_tag': src + '.delivery_tag', 'redelivered': src + '.redelivered',
                          'exchange': src + '.exchange', 'routing_key': src + '.routing_key', 'body': 'body', 'properties': 'properties'}
        # Delivery::new
        t = ev('delivery::Delivery::new', ['channel_id', 'deliver', 'body', 'properties'])
        site = ctx.site('delivery::Delivery::new')
        if r.check('Delivery::new:shape', t[0] == 'tup' and len(t[1]) == 2 and t[1][1][0] == 'struct' and t[1][1][1] == 'delivery::Delivery', site, built=S.show(t)):
            r.eq('Delivery::new:tag', S.show(t[1][0]), 'deliver.consumer_tag', site, why='the routing key of the result is the consumer tag of the Deliver method')
            got = fields_of(t[1][1])
            for f, e in sorted(dl('deliver').items()):
                r.eq('Delivery::new:%s' % f, got.get(f), e, site)
            r.eq('Delivery::new:field-set', sorted(got), sorted(dl('deliver')), site)
        t = ev('delivery::Delivery::new_get_ok', ['channel_id', 'get_ok', 'body', 'properties'])
        site = ctx.site('delivery::Delivery::new_get_ok')
        if r.check('Delivery::new_get_ok:shape', t[0] == 'struct' and t[1] == 'delivery::Delivery', site, built=S.show(t)):
            got = fields_of(t)
            for f, e in sorted(dl('get_ok').items()):
                r.eq('Delivery::new_get_ok:%s' % f, got.get(f), e, site)
        t = ev('return_::Return::new', ['ret', 'content', 'properties'])
        site = ctx.site('return_::Return::new')
        want = {'reply_code': 'ret.reply_code', 'reply_text': 'ret.reply_text', 'exchange': 'ret.exchange', 'routing_key': 'ret.routing_key',
                'content': 'content', 'properties': 'properties'}
        if r.check('Return::new:shape', t[0] == 'struct' and t[1] == 'return_::Return', site, built=S.show(t)):
            got = fields_of(t)
            for f, e in sorted(want.items()):
                r.eq('Return::new:%s' % f, got.get(f), e, site)
        # ContentType impls pass (channel_id, start, buf, properties) through in order
        for ty, want in (('delivery::Delivery', 'delivery::Delivery::new(channel_id, start, buf, properties)'),
                         ('return_::Return', 'return_::Return::new(start, buf, properties)')):
            fnp = '<%s as io_loop::content_collector::ContentType>::new' % ty
            t = ev(fnp, ['channel_id', 'start', 'buf', 'properties'], depth=0)
            r.eq('%s:ContentType::new' % ty, S.show(t), want, ctx.site(fnp))
        fnp = '<get::Get as io_loop::content_collector::ContentType>::new'
        t = ev(fnp, ['channel_id', 'start', 'buf', 'properties'], depth=0)
        r.eq('Get:ContentType::new', S.show(t), 'get::Get{delivery: delivery::Delivery::new_get_ok(channel_id, start, buf, properties), message_count: start.message_count}', ctx.site(fnp))
        # generic State passes T::new(channel_id, start, accumulated buffer, header.properties): covered by R03.1 values


def slot_calls(arm):
    return [c for c in arm.calls() if c.callee.split('::')[-1] in ('slot_get', 'slot_get_mut', 'slot_remove')]


def r035(ctx, rid):
    with ctx.rule(rid, "every dispatch arm addresses the slot of the frame's own channel and the consumer of the collected tag", floor=18) as r:
        m, arms, _ = D.read(ctx)
        n = 0
        for a in arms:
            chans = set(k[1] for k in a.keys)
            sc = slot_calls(a)
            if chans == {'n'}:
                variant = a.keys[0][0]
                want = 'frame.%s.0' % variant
                if a.keys[0][0] == 'Method' and a.keys[0][2:] != ('*', '*') and 'exception' in D.classify(a):
                    continue
                site = ctx.site(D.PROCESS, a.node)
                key = '%s/%s/%s' % (a.keys[0][0], a.keys[0][2], a.keys[0][3]) if len(a.keys) == 1 else 'arm-with-%d-patterns:%s/%s' % (len(a.keys), a.keys[0][2], a.keys[0][3])
                if not r.check('%s:uses-slot' % key, len(sc) >= 1, site, built=a.summary()[:3], expected='slot_get*/slot_remove(inner, %s)' % want):
                    continue
                for c in sc:
                    n += 1
                    r.eq('%s:%s:channel' % (key, c.callee.split('::')[-1]), S.show(c.args[1]), want, ctx.site(D.PROCESS, c.node),
                         why="the slot must be looked up under the frame's own channel id")
                    r.eq('%s:%s:table' % (key, c.callee.split('::')[-1]), S.show(c.args[0]), 'inner', ctx.site(D.PROCESS, c.node))
                # direct chan_slots access is not allowed in arms
                direct = [c for c in a.calls() if 'ChannelSlots::get' in c.callee or 'ChannelSlots::remove' in c.callee]
                r.check('%s:no-direct-slot-access' % key, not direct, site, built=[S.show(c.term) for c in direct])
        # completed content: Delivery -> consumers.get(tag of the result) of that slot; Get -> that slot's reply queue; Return -> that slot's listener
        for variant, payload, step in (('Header', 'frame.Header.2', 'collect_header'), ('Body', 'frame.Body.1', 'collect_body')):
            a = [x for x in arms if x.keys == [(variant, 'n', '-', '-')]][0]
            slot = 'io_loop::connection_state::slot_get_mut(inner, frame.%s.0)?' % variant
            coll = '%sContentCollector::%s(%s.collector, %s)' % (CC, step, slot, payload)
            res = coll + '?.Some.0'
            sends = [c for c in a.calls('connection_state::send')]
            site = ctx.site(D.PROCESS, a.node)
            dl = [c for c in sends if 'ConsumerMessage::Delivery' in S.show(c.args[1])]
            gt = [c for c in sends if 'ChannelMessage::GetOk' in S.show(c.args[1])]
            rt = a.calls('try_send_return')
            if not r.check('%s:completion-sends' % variant, len(dl) == 1 and len(gt) == 1 and len(rt) == 1, site, built=a.summary()):
                continue
            exp_tx = 'std::option::Option::ok_or(std::collections::HashMap::get(%s.consumers, %s.Delivery.0.0), errors::Error::UnknownConsumerTag{channel_id: frame.%s.0, consumer_tag: %s.Delivery.0.0})?' % (slot, res, variant, res)
            r.eq('%s:delivery:consumer' % variant, S.show(dl[0].args[0]), exp_tx, ctx.site(D.PROCESS, dl[0].node),
                 why='the delivery goes to the consumer registered under the collected tag on this channel; unknown tag -> UnknownConsumerTag')
            r.eq('%s:delivery:message' % variant, S.show(dl[0].args[1]), 'consumer::ConsumerMessage::Delivery(%s.Delivery.0.1)' % res, ctx.site(D.PROCESS, dl[0].node))
            r.eq('%s:get:reply-queue' % variant, S.show(gt[0].args[0]), slot + '.tx', ctx.site(D.PROCESS, gt[0].node))
            r.eq('%s:get:message' % variant, S.show(gt[0].args[1]), 'Ok(io_loop::ChannelMessage::GetOk(Some(%s.Get.0)))' % res, ctx.site(D.PROCESS, gt[0].node))
            r.eq('%s:return:listener' % variant, [S.show(x) for x in rt[0].args], [slot, res + '.Return.0'], ctx.site(D.PROCESS, rt[0].node))
        # method arms start the collector of that slot with their own payload
        for meth, fnn in (('Deliver', 'collect_deliver'), ('Return', 'collect_return'), ('GetOk', 'collect_get')):
            a = [x for x in arms if x.keys == [('Method', 'n', 'basic', meth)]][0]
            c = a.calls(fnn)
            want = '%sContentCollector::%s(io_loop::connection_state::slot_get_mut(inner, frame.Method.0)?.collector, frame.Method.1.Basic.0.%s.0)?' % (CC, fnn, meth)
            tr = [e for e in a.events if e.kind == 'try' and S.show(e.term) == want]
            r.check('Method/basic/%s:starts-collector' % meth, len(c) == 1 and len(tr) == 1, ctx.site(D.PROCESS, a.node), built=a.summary(), expected=want)
        r.info('slot-addressing call sites', None, built=n)
        # ... and nothing else decides whether they do: the arms' whole ordered scripts equal the oracle (no extra guard, no extra effect)
        from rules import arms as A
        for key in (('Method', 'n', 'basic', 'Deliver'), ('Method', 'n', 'basic', 'Return'), ('Method', 'n', 'basic', 'GetOk'), ('Header', 'n', '-', '-'), ('Body', 'n', '-', '-')):
            A.check_script(ctx, r, arms, key, why='a content frame must reach the collector / its addressee unconditionally')


BLOCKING = {
    # callee -> {function: reason}
    'mio::Poll::poll': {'io_loop::IoLoop::run_io_loop': 'the event loop itself waits here'},
    'crossbeam_channel::Sender::send': {
        'io_loop::connection_state::ConnectionState::process': 'channel-0 reply queue (bound 2) receives at most the CloseOk reply; the slot is dropped right after',
        'io_loop::Inner::allocate_channel': 'alloc reply queue (bound 1): one reply per request, requests are serialised by &mut Connection',
        'io_loop::IoLoop::thread_main': 'one-shot handshake result (bound 1)',
    },
}
BLOCKING_CALLEES = ('crossbeam_channel::Sender::send', 'crossbeam_channel::Receiver::recv', 'crossbeam_channel::Receiver::recv_timeout',
                    'mio_extras::channel::SyncSender::send', 'mio_extras::channel::Sender::send', 'std::thread::sleep', 'std::thread::JoinHandle::join',
                    'mio::Poll::poll', 'std::sync::mpsc::Receiver::recv', 'std::sync::Mutex::lock', 'std::sync::Condvar::wait', 'std::thread::park')


def r036(ctx):
    with ctx.rule('R03.6', 'a slow consumer delays nobody: unbounded consumer queues, non-blocking sends, tabled blocking calls', floor=8) as r:
        m, arms, _ = D.read(ctx)
        a = [x for x in arms if x.keys == [('Method', 'n', 'basic', 'ConsumeOk')]][0]
        mk = [c for c in a.calls() if c.callee.startswith('crossbeam_channel::') and c.callee.split('::')[-1] in ('unbounded', 'bounded')]
        r.check('consumer-queue:unbounded', len(mk) == 1 and mk[0].callee == 'crossbeam_channel::unbounded', ctx.site(D.PROCESS, a.node),
                built=[S.show(c.term) for c in mk], expected='crossbeam_channel::unbounded()', why='a bounded consumer queue would make the I/O thread fail or stall on a slow consumer')
        ins = [c for c in a.calls('HashMap::insert')]  # through the vacant entry, or directly behind a presence test
        r.check('consumer-queue:sender-stored', len(ins) == 1 and S.show(ins[0].args[2]) == 'crossbeam_channel::unbounded().0', ctx.site(D.PROCESS, a.node),
                built=[S.show(c.term) for c in ins])
        # the send helper is non-blocking
        rows = P.table(ctx, 'io_loop::connection_state::send', ['tx', 'item'])
        r.check('send:try_send', all('crossbeam_channel::Sender::try_send(tx, item)' in x.effects for x in rows) and len(rows) == 3, ctx.site('io_loop::connection_state::send'),
                built=[x.row() for x in rows])
        for nm in ('try_send_return', 'try_send_confirm', 'try_send_blocked'):
            fnp = 'io_loop::connection_state::' + nm
            evs, _ = ctx.events(fnp)
            snd = [e for e in evs if e.kind == 'call' and e.callee.startswith('crossbeam_channel::Sender::')]
            r.check('%s:try_send' % nm, snd and all(e.callee == 'crossbeam_channel::Sender::try_send' for e in snd), ctx.site(fnp), built=[e.callee for e in snd])
        # blocking calls on the I/O thread
        seen = ctx.cg.reachable([x for x in panics.IO_ROOTS if ctx.has_fn(x)])
        found = {}
        for p in sorted(seen):
            fn = ctx.fns[p]
            body = fn.get('mir')
            if not body:
                continue
            for b in body['blocks']:
                t = b['term']
                if t['k'] == 'Call':
                    decl, res, ga, tm = __import__('mir').callee_of(t)
                    if decl in BLOCKING_CALLEES:
                        owner = S.norm_path(fn['parent']) if fn['dk'] == 'Closure' else p
                        found.setdefault((decl, owner), []).append(t['sp'])
        for (decl, owner), sps in sorted(found.items()):
            ok = owner in BLOCKING.get(decl, {})
            r.check('blocking:%s:%s' % (decl.split('::')[-2] + '::' + decl.split('::')[-1], owner), ok, ctx.site(owner, sps[0]), built='%d call(s)' % len(sps),
                    expected='only the tabled blocking calls: ' + ', '.join('%s in %s' % (d, f) for d, fs in BLOCKING.items() for f in fs),
                    why='a blocking call on the I/O thread can delay every channel')
        for decl, fs in BLOCKING.items():
            for f in fs:
                r.check('blocking-present:%s:%s' % (decl.split('::')[-1], f), (decl, f) in found, ctx.site(f), why='tabled blocking call no longer present (table out of date: fail closed)')


def _shared_r4(ctx):
    from rules import arms as A
    """Rules of other properties that are necessary conditions of this one too (found by seeding round 4)."""
    with ctx.rule('R03.8', 'every returned message reaches the listener: the listener survives a successful hand-over and is cleared only on failure (shared with C13)', floor=2) as r:
        A.include(ctx, r, 'c13', 'R13.2', pick=('try_send_return',))


def _shared_r5(ctx):
    """Rules of other properties that are necessary conditions of this one too (found by seeding round 5)."""
    from rules import arms as A
    with ctx.rule('R03.9', "a returned message reaches the channel's current listener and a delivery its own consumer: re-registering replaces the listener, a server cancel removes one consumer only (shared with C13 / C11)", floor=3) as r:
        A.include(ctx, r, 'c13', 'R13.3', pick=('io-side:',))
        A.include(ctx, r, 'c11', 'R11.2', pick=('basic::Cancel',))


def _round8(ctx):
    """Rules that are necessary conditions of this property too (found by seeding round 8)."""
    from rules import arms as A
    with ctx.rule('R03.10', "a returned message is not dropped for lack of room: the return listener's queue is unbounded and registered as created (shared with C13)", floor=2) as r:
        A.include(ctx, r, 'c13', 'R13.2', pick=('listen_for_returns',))
