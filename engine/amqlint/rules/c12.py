"""C12 -- every API call emits exactly the AMQP method its arguments describe."""
import os
import sys

import sym as S
import wire as W

sys.path.insert(0, os.path.join(os.path.dirname(os.path.dirname(os.path.dirname(os.path.dirname(os.path.abspath(__file__))))), 'spec'))
import api_wire as T  # noqa: E402

EXPLANATION = (
    "Static wiring check of the public API against a hand-written AMQP table (spec/api_wire.py). Each public operation of "
    "Connection/Channel/Queue/Exchange/Consumer/Delivery/Get is read symbolically from its resolved HIR, with crate-local wrappers "
    "inlined by argument substitution down to the IoLoopHandle sinks; the emitted method's class, name, every field source, the channel "
    "object used, the wait mode, the awaited reply type and the returned value are compared with the table. The channel-id assertion of "
    "ack/nack/reject is checked to dominate the emission on every path from every public entry. The result is parametric in argument "
    "values, so it covers every argument value and flag combination; it does not cover the byte encoding done inside amq_protocol.")
ASSUMPTIONS = [
    "rustc nightly HIR/typeck resolution (callee, ADT, field names) is correct",
    "amq_protocol encodes a method struct's fields as named (not analysed)",
    "value-preserving conversions erased by the reader: Into/From/Clone/ToString/AsRef/Deref/Borrow/Box::new",
    "spec/api_wire.py was written from the AMQP 0-9-1 method definitions and the crate's public docs",
]
RULE_TEXT = ("one obligation per (operation, table cell): sink kind, channel object, method class/name, each field, reply type, return term, "
             "assertion dominance; distinct = distinct instance keys; non-trivial = the anchor function was found and read")


# functions that act at most once per object: the only path on which they report success without sending is the one
# their own latch selects (function -> what the single condition of that path must mention)
ONCE = {
    'channel::Channel::close_impl': 'self.closed',
    'consumer::Consumer::cancel': 'self.cancelled',
    'connection::Connection::close_impl': 'std::option::Option::take(self.join_handle)',
}


def short(fn):
    return fn

LEVEL_TEXT = ("Every public operation's wire emission is read symbolically (wrappers inlined with argument substitution) and compared cell by cell with "
              "a hand-written AMQP table: channel object, wait mode, class/method, every field source, reply type, return value; the channel-id assertion "
              "must dominate ack/nack/reject from every entry; no path of an operation, or of any function between it and the I/O-loop handle, reports success without "
              "the emitting call (three at-most-once latches tabled). Parametric in argument values, hence all values and flag combinations; byte encoding is amq_protocol's.")
LEVEL_NOTE = "Trusts rustc's resolution, amq_protocol's encoding of named struct fields, the erased value-preserving conversions listed in evidence."
TECHNIQUE = "static analysis: symbolic field-wiring extraction over resolved HIR with bounded inlining, compared with an oracle table; dominance of the assertion"


def run(ctx):
    _run_main(ctx)
    _shared_r5(ctx)
    _round6(ctx)


def _run_main(ctx):
    r121(ctx)
    r122(ctx)
    r123(ctx)
    r124(ctx)
    completeness(ctx)


def r121(ctx):
    with ctx.rule('R12.1', 'API->wire table: each operation emits exactly the tabled method with tabled field sources', floor=250) as r:
        for row in T.ROWS:
            fnp = row['fn']
            try:
                ems, ret, events = W.read_op(ctx, fnp, row['params'])
            except Exception as e:  # fail closed per row
                r.bad('%s:readable' % fnp, None, why='cannot read operation: %s: %s' % (type(e).__name__, e))
                continue
            site = ctx.site(fnp)
            wire = [e for e in ems if e.sink in ('call', 'nowait', 'get', 'consume', 'close0', 'content_header', 'content_body')]
            if not r.check('%s:one-emission' % fnp, len(wire) == 1, site, built=[(e.sink, e.method) for e in wire], expected=[(row['sink'], row['method'])],
                           why='exactly one method must be put on the wire'):
                continue
            em = wire[0]
            esite = ctx.site(em.ev.fn or fnp, em.ev.node)
            r.eq('%s:sink' % fnp, em.sink, row['sink'], esite, why='wait mode (call waits for the reply, nowait does not)')
            r.eq('%s:on' % fnp, em.on, row['on'], esite, why="the method must travel on the object's own channel")
            r.eq('%s:method' % fnp, '%s%s' % (em.cls, em.method), '%s%s' % (row['cls'], row['method']), esite)
            if em.fields is None:
                r.bad('%s:fields-readable' % fnp, esite, built=em.raw_args, why='method struct literal not visible after inlining')
                continue
            r.check('%s:no-struct-base' % fnp, em.struct_base is None, esite, built=S.show(em.struct_base) if em.struct_base else None,
                    why='fields filled from a base expression cannot be attributed')
            r.eq('%s:field-set' % fnp, sorted(em.fields), sorted(row['fields']), esite)
            internal = ctx.fn(fnp).get('vis') != 'pub'
            for f, exp in sorted(row['fields'].items()):
                ctx.counts['fields'] += 1
                got_f = em.fields.get(f)
                if internal and got_f != exp and '.' in exp and got_f == exp.split('.')[0] and exp.split('.', 1)[1] == f:
                    # a crate-internal primitive now takes the field's value itself instead of the object carrying it
                    # (its public wrappers have their own rows, read through this primitive, which pin the source)
                    r.ok('%s:field:%s' % (fnp, f), esite, built=got_f)
                    continue
                r.eq('%s:field:%s' % (fnp, f), got_f, exp, esite, why='field source')
            if row['sink'] == 'call':
                r.eq('%s:reply' % fnp, em.reply, row['reply'], esite, why='awaited reply type')
            if row['ret'] is not None:
                r.eq('%s:returns' % fnp, S.show(ret), row['ret'], site, why='returned value')
            if row['ret'] is not None:
                r.check('%s:error-propagated' % fnp, getattr(em, 'propagated', False), esite, why="the emission's Result must be returned, mapped or `?`-propagated, not dropped")
            if row.get('pre'):
                macs = [S.show(e.term) for e in events if e.kind == 'macro' and S.dominates(e, em.ev)]
                for p in row['pre']:
                    r.check('%s:pre' % fnp, p in macs, site, built=macs, expected=p, why='documented panic must precede the emission')


def r122(ctx):
    """Channel-id assertion dominates every ack/nack/reject emission from every public entry."""
    with ctx.rule('R12.2', 'ack/nack/reject: assert_eq!(delivery channel id, channel id) dominates the emission', floor=15) as r:
        for row in T.ROWS:
            if not row['asserts']:
                continue
            fnp = row['fn']
            ems, ret, events = W.read_op(ctx, fnp, row['params'])
            wire = [e for e in ems if e.sink in ('call', 'nowait')]
            want_id, want_ch = row['asserts']
            for em in wire:
                ok = False
                seen = []
                for e in events:
                    if e.kind == 'macro' and e.term[1] == 'assert_eq' and S.dominates(e, em.ev):
                        leaves = e.term[2]
                        if len(leaves) >= 2:
                            a, b = S.show(leaves[0]), S.show(leaves[1])
                            seen.append((a, b))
                            # channel id of the channel object = IoLoopHandle::channel_id(<that channel>.inner...handle)
                            chan_b = None
                            if leaves[1][0] == 'call' and leaves[1][1].endswith('IoLoopHandle::channel_id'):
                                chan_b = W.canon_on(leaves[1][2][0])
                            chan_a = None
                            if leaves[0][0] == 'call' and leaves[0][1].endswith('IoLoopHandle::channel_id'):
                                chan_a = W.canon_on(leaves[0][2][0])
                            if (a == want_id and chan_b == want_ch) or (b == want_id and chan_a == want_ch):
                                ok = True
                r.check('%s:assert-dominates' % fnp, ok, ctx.site(em.ev.fn or fnp, em.ev.node), built=seen,
                        expected='assert_eq!(%s, channel_id(%s)) before the emission' % (want_id, want_ch),
                        why='acknowledging through a channel with a different id must panic instead of sending')
        # who-may-call: the crate-private primitives are only reachable through asserting callers
        for prim in ('channel::Channel::basic_ack', 'channel::Channel::basic_nack', 'channel::Channel::basic_reject'):
            callers = [c for c in ctx.cg.callers(prim)]
            for c in callers:
                r.check('%s:caller:%s' % (prim.split('::')[-1], c), c.startswith('delivery::Delivery::'), ctx.site(c), built=c,
                        expected='only delivery::Delivery::* (which assert the channel id)',
                        why='a caller outside Delivery bypasses the channel-id assertion')


def r123(ctx):
    """Option structs and ExchangeType strings."""
    with ctx.rule('R12.3', 'option structs copy like-named fields; ExchangeType names', floor=20) as r:
        cases = [
            ('queue::QueueDeclareOptions::into_declare', ['self', 'queue', 'passive', 'nowait'], 'amq_protocol::protocol::queue::Declare',
             {'ticket': '0', 'queue': 'queue', 'passive': 'passive', 'durable': 'self.durable', 'exclusive': 'self.exclusive',
              'auto_delete': 'self.auto_delete', 'nowait': 'nowait', 'arguments': 'self.arguments'}),
            ('queue::QueueDeleteOptions::into_delete', ['self', 'queue', 'nowait'], 'amq_protocol::protocol::queue::Delete',
             {'ticket': '0', 'queue': 'queue', 'if_unused': 'self.if_unused', 'if_empty': 'self.if_empty', 'nowait': 'nowait'}),
            ('exchange::ExchangeDeclareOptions::into_declare', ['self', 'type_', 'name', 'passive', 'nowait'], 'amq_protocol::protocol::exchange::Declare',
             {'ticket': '0', 'exchange': 'name', 'passive': 'passive', 'type_': 'type_', 'durable': 'self.durable',
              'auto_delete': 'self.auto_delete', 'internal': 'self.internal', 'nowait': 'nowait', 'arguments': 'self.arguments'}),
        ]
        cases_fields = {c[0]: c[3] for c in cases}
        for fnp, params, adt, fields in cases:
            nprm = len(ctx.fn(fnp).get('params', []))
            if nprm != len(params):
                # a crate-internal primitive whose parameters were regrouped: what it takes from its own fields is still judged here,
                # what it takes from parameters is pinned by the public wrappers' rows of R12.1 (read through this function)
                fields = {k: v for k, v in fields.items() if v.startswith('self.') or v in ('0', 'false', 'true')}
                params = ['self'] + ['$p%d' % i for i in range(1, nprm)]
            ev = ctx.evaluator(2)
            ret = ev.run_fn(fnp, [('var', n, -(i + 1)) for i, n in enumerate(params)])
            site = ctx.site(fnp)
            if not r.check('%s:returns-struct' % fnp, ret[0] == 'struct' and ret[1] == adt, site, built=S.show(ret), expected=adt):
                continue
            got = {n: S.show(v) for n, v in ret[2]}
            if nprm == len(params) or nprm is None:
                pass
            r.eq('%s:field-set' % fnp, sorted(got), sorted(cases_fields[fnp]), site)
            for f, exp in sorted(fields.items()):
                r.eq('%s:field:%s' % (fnp, f), got.get(f), exp, site)
        # ExchangeType::as_ref
        fnp = '<exchange::ExchangeType as std::convert::AsRef<str>>::as_ref'
        fn = ctx.fn(fnp)
        import hir as H
        ms = H.find(fn['hir'], lambda n: n.get('k') == 'Match' and n.get('src') == 'Normal')
        want = {'Direct': '"direct"', 'Fanout': '"fanout"', 'Topic': '"topic"', 'Headers': '"headers"'}
        got = {}
        custom = None
        for a in ms[0]['arms']:
            pt = H.pat_term(a['pat'], True)
            name = pt.split('::')[-1]
            if name.startswith('Custom'):
                # the arm hands back exactly what Custom carries (whatever the binding is called)
                b = H.pat_bindings(a['pat'])
                body = H.peel(a['body'])
                custom = (pt, len(b) == 1 and body.get('k') == 'Local' and body['id'] == b[0]['id'])
            else:
                got[name] = H.term(a['body'])
        r.eq('ExchangeType::as_ref:names', got, want, ctx.site(fnp))
        r.check('ExchangeType::as_ref:custom', custom is not None and custom[1] is True and custom[0].endswith('Custom(_)'), ctx.site(fnp), built=custom,
                expected='Custom(s) => s')


def r124(ctx):
    """No path of an operation (or of a function between it and the I/O loop handle) reports success without having sent."""
    import paths as P
    with ctx.rule('R12.4', 'every successful path of an operation sends: from the public entry down to the IoLoopHandle sinks no path returns Ok without the call that emits', floor=60) as r:
        wire = set(W.SINK_PREFIX + n for n, kind in W.SINKS.items() if kind in ('call', 'nowait', 'get', 'consume', 'close0', 'content_header', 'content_body'))
        rev = {}
        for a, es in ctx.cg.edges.items():
            for b in es:
                rev.setdefault(b, set()).add(a)
        reach, st = set(), list(wire)
        while st:
            f = st.pop()
            if f in reach:
                continue
            reach.add(f)
            st.extend(rev.get(f, ()))
        ops = [x['fn'] for x in T.ROWS] + list(T.PUBLISH)
        fwd = ctx.cg.reachable([o for o in ops if ctx.has_fn(o)])
        chain = sorted(f for f in fwd if f in reach and f not in wire and '{closure' not in f and ctx.has_fn(f) and 'hir' in ctx.fn(f))
        for f in chain:
            site = ctx.site(f)
            try:
                rows = P.table(ctx, f)
            except Exception as e:  # fail closed per function
                r.bad('%s:readable' % f, site, why='cannot enumerate the paths: %s: %s' % (type(e).__name__, e))
                continue
            silent = []
            for x in rows:
                v = x.value_str()
                if x.done == 'panic' or v.startswith('Err('):
                    continue
                if any(e.split('(')[0].split(' = ')[-1] in reach for e in x.effects if '(' in e):
                    continue
                silent.append(x)
            latch = ONCE.get(f)
            if latch is not None:
                ok = len(silent) == 1 and len(silent[0].conds) == 1 and latch in str(silent[0].conds[0][0]) and silent[0].value_str() == 'Ok(())'
                r.check('%s:once' % f, ok, site, built=[x.row() for x in silent], expected='exactly one silent path: the one selected by %s, returning Ok(())' % latch,
                        why='an at-most-once operation may skip sending only when its own latch says it already did')
            else:
                r.check('%s:always-sends' % f, not silent, site, built=[x.row() for x in silent][:3], expected='every path that does not fail or panic contains the emitting call',
                        why='an operation that sometimes reports success without sending does not do what its arguments say')


def completeness(ctx):
    """Every pub fn of the API types has a row (informational when missing, never a violation)."""
    with ctx.rule('R12.0', 'completeness of the table over the public API surface', floor=1) as r:
        tabled = set(x['fn'] for x in T.ROWS) | set(T.PUBLISH) | set(T.NO_WIRE)
        types = ('channel::Channel::', 'queue::Queue::', 'exchange::Exchange::', 'consumer::Consumer::', 'delivery::Delivery::',
                 'get::Get::', 'connection::Connection::')
        n = 0
        for p, fn in sorted(ctx.fns.items()):
            if fn.get('vis') != 'pub' or fn['dk'] != 'AssocFn' or fn.get('impl_trait'):
                continue
            if not p.startswith(types) or '{closure' in p:
                continue
            n += 1
            if p not in tabled:
                r.info('untabled:%s' % p, ctx.site(p), why='public operation without an oracle row: not checked')
        r.check('surface', n >= 60, None, built=n, expected='>= 60 public operations found')


def _shared_r5(ctx):
    """Rules of other properties that are necessary conditions of this one too (found by seeding round 5)."""
    from rules import arms as A
    with ctx.rule('R12.5', 'the flags of a publish and the identity of a received message are what the arguments say: Basic.Publish fields, and a delivery / get result is the collected one unmodified (shared with C02 / C03)', floor=4) as r:
        A.include(ctx, r, 'c02', 'R02.1', pick=(':field:',))
        A.include(ctx, r, 'c03', 'R03.1', pick=(':done',))
        A.include(ctx, r, 'c03', 'R03.4', pick=('',))


def _round6(ctx):
    """Rules that are necessary conditions of this property too (found by seeding round 6)."""
    from rules import arms as A
    with ctx.rule('R12.6', 'the emitting chain has no refusing step: the method is serialized into the handle buffer unconditionally and handed over as one Send (shared with C01, C04)', floor=7) as r:
        A.include(ctx, r, 'c01', 'R01.5', pick=('make_buf', 'one-push-own-channel'))
        A.include(ctx, r, 'c04', 'R04.4', pick=('call',))
