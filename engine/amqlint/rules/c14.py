"""C14 -- ConfirmSmoother emits every tag once, in order, with its true outcome (skeleton only)."""
import hir as H
import paths as P
import sym as S

EXPLANATION = (
    "ConfirmSmoother is a pure algorithm over histories; static analysis decides its skeleton, not the function. Iter::next is enumerated as a path table and "
    "each row is checked: (1) outcome wiring: process maps Ack->Ack, Nack->Nack and every payload built by the iterator has multiple: false; (2) on every row that "
    "emits Some(_) the expected counter is incremented exactly once, on every row that emits None not at all, and the emitted tag is the pre-increment expected "
    "(the exact-match row is guarded by payload.delivery_tag == expected); (3) every emission of a tag that this very call did not confirm by its own tag takes the "
    "stored confirmation for that tag when there is one (the multiple row consults out_of_order for `expected` before falling back to its own outcome), and after "
    "each increment on the other emitting rows the look-ahead for the new expected tag is fetched; (4) a non-multiple future confirmation is stashed under its own "
    "tag with its own outcome and ends the iterator; (5) Drop runs next() until done. The full functional statement (each tag exactly once, at the earliest moment, "
    "for every history) is NOT decided -- only these necessary skeleton conditions.")
ASSUMPTIONS = ["HashMap insert/remove semantics (std)", "the functional correctness over all histories is not claimed"]
RULE_TEXT = "obligations: one per path-table row property; distinct = distinct keys"
LEVEL_TEXT = ("Skeleton-only structural decision (necessary conditions) of the smoother's iterator: one increment per emission, store consulted before a multiple's own "
              "outcome is used, stash keyed by own tag, drop drains. The behavioural statement over all histories is explicitly not decided by this technique.")
LEVEL_NOTE = "Trusts rustc HIR; expectations hand-written; functional correctness over histories is out of reach of static analysis here."
TECHNIQUE = "static analysis: path table of Iter::next over resolved HIR with per-row structural obligations"

NEXT = "<confirm::Iter<'a, F> as std::iter::Iterator>::next"
EXP = 'self.parent.expected'
INC = 'self.parent.expected += 1'
LOOK = 'std::collections::HashMap::remove(self.parent.out_of_order, self.parent.expected)'


def run(ctx):
    rows = P.table(ctx, NEXT, ['self'])
    site = ctx.site(NEXT)
    D_ = ('self.done', False)
    EQ = '(self.parent.expected == self.payload.delivery_tag)'  # operands of == are sorted
    GT = '(self.parent.expected < self.payload.delivery_tag)'  # canonical comparison form: tag > expected
    LT = '(self.payload.delivery_tag < self.parent.expected)'   # neither equal nor greater (trichotomy is applied by the path reader)

    def row(*conds):
        return [x for x in rows if x.conds == list(conds)]

    with ctx.rule('R14.1', 'outcome wiring: Ack->Ack, Nack->Nack; every emitted payload is non-multiple', floor=3) as r:
        prows = P.table(ctx, 'confirm::ConfirmSmoother::process', ['self', 'confirm'])
        got = sorted((x.cond_strs()[0], x.value_str()) for x in prows)
        want = [('confirm ~ confirm::Confirm::Ack(_)', 'confirm::ConfirmSmoother::new_iter(self, confirm.Ack.0, confirm::Confirm::Ack)'),
                ('confirm ~ confirm::Confirm::Nack(_)', 'confirm::ConfirmSmoother::new_iter(self, confirm.Nack.0, confirm::Confirm::Nack)')]
        r.eq('process', got, want, ctx.site('confirm::ConfirmSmoother::process'), why='an ack must never be smoothed into nacks or vice versa')
        ev = ctx.evaluator(0)
        t = ev.run_fn('confirm::ConfirmSmoother::new_iter', [('var', 'self', -1), ('var', 'payload', -2), ('var', 'to_confirm', -3)])
        want = ('confirm::Iter{done: false, next: None, parent: self, payload: payload, to_confirm: |$c0| value:to_confirm(confirm::ConfirmPayload{delivery_tag: $c0, multiple: false})}')
        r.eq('new_iter', S.show(t), want, ctx.site('confirm::ConfirmSmoother::new_iter'), why='the constructor of the raw confirmation builds each smoothed one, with multiple: false')
        r.check('rows', len(rows) == 6, site, built=len(rows), expected=6)
        nrows = P.table(ctx, 'confirm::ConfirmSmoother::new_iter', ['self', 'payload', 'to_confirm'])
        r.check('new_iter:no-effect', len(nrows) == 1 and [e for e in nrows[0].effects if not e.startswith('value:to_confirm(')] == [], ctx.site('confirm::ConfirmSmoother::new_iter'),
                built=[x.row() for x in nrows], expected='building the iterator changes nothing', why='the stash and `expected` change only as items are emitted')
        muts = {}
        for p_, fn_ in sorted(ctx.fns.items()):
            if 'hir' not in fn_ or fn_.get('cfg_test') or fn_.get('mac') or not p_.startswith(('confirm::', '<confirm::')):
                continue
            for nd in H.walk(fn_['hir']):
                if nd.get('k') == 'MethodCall' and H.term(nd['recv']).endswith('out_of_order') and 'HashMap' in nd.get('recv_ty', '') and \
                        nd['name'] not in ('len', 'is_empty', 'contains_key', 'get', 'iter', 'keys', 'values', 'clone'):
                    muts.setdefault(ctx.owner(p_), []).append(nd['name'])
                if nd.get('k') in ('Assign', 'AssignOp') and H.peel(nd['l']).get('k') == 'Field' and H.peel(nd['l'])['name'] in ('expected', 'out_of_order'):
                    muts.setdefault(ctx.owner(p_), []).append(H.peel(nd['l'])['name'] + (nd.get('op') or '=').rstrip('=') + '=')
        r.eq('state-mutators', {k: sorted(set(v)) for k, v in muts.items()}, {NEXT: sorted(['insert', 'remove', 'expected+='])}, site,
             why='the stash is touched only by the stash / look-up steps of next(), `expected` only by its increments')

    with ctx.rule('R14.2', 'exactly one increment of `expected` per emitted item, none otherwise; the emitted tag is the pre-increment expected', floor=6) as r:
        for i, x in enumerate(rows):
            n = x.effects.count(INC)
            emits = x.value_str().startswith('Some(')
            key = 'row%d:%s' % (i, 'emit' if emits else 'none')
            r.check(key, n == (1 if emits else 0) and not [e for e in x.effects if e.startswith('self.parent.expected') and e != INC], site, built=x.row(),
                    expected='%d increment(s) of self.parent.expected' % (1 if emits else 0), why='a missed or doubled increment skips or repeats a delivery tag')
        x = row(D_, (EQ, True))
        r.check('exact-match-emits-own-tag', len(x) == 1 and x[0].value_str() == 'Some(value:self.to_confirm(self.payload.delivery_tag))', site, built=[y.row() for y in x],
                expected='under tag == expected: Some(to_confirm(payload.delivery_tag))')

    with ctx.rule('R14.3', 'the store is consulted for every tag not confirmed by this very call; look-ahead after each increment', floor=4) as r:
        x = row(D_, (GT, True), ('self.payload.multiple', True))
        if r.check('multiple-row', len(x) == 1, site, built=[y.cond_strs() for y in rows]):
            x = x[0]
            take = 'std::option::Option::unwrap_or_else(%s, || value:self.to_confirm(self.parent.expected))' % LOOK
            ok = take in x.effects and INC in x.effects and x.effects.index(take) < x.effects.index(INC) and x.value_str() == 'Some(%s)' % take
            r.check('multiple:stored-outcome-first', ok, site, built=x.row(), expected={'do': [LOOK, take, INC], 'value': 'Some(%s)' % take},
                    why='a tag already confirmed on its own (e.g. nack(2)) keeps that outcome when a later multiple covers it; the stash entry is removed')
        for nm, conds, val in (('exact', [D_, (EQ, True)], None), ('lookahead', [D_, (LT, True), ('std::option::Option::take(self.next)', 'Some(_)')], 'Some(std::option::Option::take(self.next).Some.0)')):
            x = row(*conds)
            if r.check('%s-row' % nm, len(x) == 1, site):
                x = x[0]
                la = 'self.next = ' + LOOK
                ok = INC in x.effects and la in x.effects and x.effects.index(INC) < x.effects.index(la)
                r.check('%s:lookahead-after-increment' % nm, ok, site, built=x.row(), expected=[INC, la], why='the confirmation stored for the next tag must be emitted right after this one')
                if val:
                    r.eq('%s:emits-stored-item' % nm, x.value_str(), val, site)

    with ctx.rule('R14.4', 'a non-multiple future confirmation is stashed under its own tag with its own outcome and ends the iterator', floor=2) as r:
        x = row(D_, (GT, True), ('self.payload.multiple', False))
        if r.check('stash-row', len(x) == 1, site):
            x = x[0]
            ins = 'std::collections::HashMap::insert(self.parent.out_of_order, self.payload.delivery_tag, value:self.to_confirm(self.payload.delivery_tag))'
            r.check('stash', ins in x.effects and 'self.done = true' in x.effects and x.value_str() == 'None', site, built=x.row(), expected={'do': [ins, 'self.done = true'], 'value': 'None'})
        x = row(D_, (LT, True), ('std::option::Option::take(self.next)', 'None'))
        r.check('finish', len(x) == 1 and 'self.done = true' in x[0].effects and x[0].value_str() == 'None', site, built=[y.row() for y in x])
        x = row(('self.done', True))
        r.check('done-stays-done', len(x) == 1 and x[0].value_str() == 'None' and not x[0].effects, site, built=[y.row() for y in x])

    with ctx.rule('R14.5', 'dropping an iterator early runs it to completion', floor=1) as r:
        fnp = "<confirm::Iter<'a, F> as std::ops::Drop>::drop"
        rows = P.table(ctx, fnp, ['self'])
        CALL = '%s(self)' % NEXT
        going = [x for x in rows if x.done == 'iterate']
        leaving = [x for x in rows if x.done != 'iterate']
        # the loop calls next() again and again and stops only when the iterator says it is finished: its done flag, or a None
        # (R14.4 shows that next() returns None only with the flag set)
        stop_ok = all(x.conds in ([('self.done', True)], [(CALL, 'None')], [('std::iter::Iterator::by_ref(self)', 'None')]) or
                      (len(x.conds) == 1 and x.conds[0][1] == 'None' and 'next(' in str(x.conds[0][0])) for x in leaving)
        BY = 'std::iter::Iterator::by_ref(self)'
        exhausts = len(rows) == 1 and not rows[0].conds and [e for e in rows[0].effects if e != BY] == ['for _ in %s {' % BY, '}']  # `for _ in self.by_ref() {}`: next() until None, by definition of `for`
        r.check('drop', exhausts or going and all(any(e == CALL or e.endswith('::next(self)') or '::next(std::iter::Iterator::by_ref(self))' in e for e in x.effects) for x in going) and leaving and stop_ok
                and not [x for x in rows if x.done in ('return', 'panic')], ctx.site(fnp),
                built=[x.row() for x in rows], expected='loop { next() } until self.done / None',
                why='confirmations covered by a dropped iterator must not be lost or re-emitted')

    with ctx.rule('R14.6', 'every way of making a smoother fixes `expected` from the caller or to 1: one struct literal, new() = with_expected_delivery_tag(1), Default = new()', floor=4) as r:
        WITH = 'confirm::ConfirmSmoother::with_expected_delivery_tag'
        lits = []
        for p, fn in sorted(ctx.fns.items()):
            if 'hir' not in fn or fn.get('cfg_test') or fn.get('mac'):
                continue  # derive expansions are judged below through the impl table
            for nd in H.walk(fn['hir']):
                if nd.get('k') == 'Struct' and H.res_path(nd['res']) == 'confirm::ConfirmSmoother':
                    lits.append(p)
        r.eq('one-literal', lits, [WITH], ctx.site(WITH), why='a second construction site can start the sequence anywhere')
        ev = ctx.evaluator(0)
        r.eq('with_expected', S.show(ev.run_fn(WITH, [('var', 'expected', -1)])), 'confirm::ConfirmSmoother{expected: expected, out_of_order: std::collections::HashMap::new()}', ctx.site(WITH),
             why='starts at the given tag with an empty stash')
        ev = ctx.evaluator(0)
        r.eq('new', S.show(ev.run_fn('confirm::ConfirmSmoother::new')), WITH + '(1)', ctx.site('confirm::ConfirmSmoother::new'), why='the first delivery tag of a channel in confirm mode is 1')
        dflt = ctx.impls_of('std::default::Default', 'confirm::ConfirmSmoother')
        if dflt:
            DP = '<confirm::ConfirmSmoother as std::default::Default>::default'
            derived = any(i.get('derived') for i in dflt)
            ok = (not derived) and ctx.has_fn(DP) and 'hir' in ctx.fn(DP)
            val = None
            if ok:
                ev = ctx.evaluator(0)
                val = S.show(ev.run_fn(DP))
            r.check('default', ok and val in ('confirm::ConfirmSmoother::new()', WITH + '(1)'), ctx.site(DP) if ctx.has_fn(DP) else None, built='derived' if derived else val,
                    expected='ConfirmSmoother::new()', why='a derived Default starts at expected = 0: tags 1, 2, .. are stashed forever and tag 0 is emitted')
        else:
            r.ok('default', None, built='no Default impl')
        # clones copy both fields (derive) -- a hand-written Clone could reset the stash
        cl = ctx.impls_of('std::clone::Clone', 'confirm::ConfirmSmoother')
        r.check('clone-derived-or-absent', all(i.get('derived') for i in cl), None, built=[i.get('derived') for i in cl], why='a copy continues from the same state')
