"""C11 -- a consumer ends with exactly one terminal message and nothing after it."""
import dispatch as D
import hir as H
import paths as P
import sym as S
import wire as W
from rules import arms as A

EXPLANATION = (
    "Decided structurally for every history: at each of the six sites that send a terminal ConsumerMessage the sender comes from consumers.remove(..), "
    "consumers.drain() or a removed/drained slot -- never from get -- so nothing can follow it and the queue disconnects when the sender goes out of scope; "
    "at the delivery sites it comes from get. Senders of ConsumerMessage are stored only in ChannelSlot.consumers and never cloned. Each arm sends the variant "
    "the statement names (ordered arm scripts equal the oracle), CancelOk is queued iff the server's cancel was not nowait, every arm queues the terminal "
    "messages before it releases the channel's caller (so no consumer can have been dropped yet and the send cannot fail: D12), Consumer::cancel is idempotent through its flag and Drop calls it, basic_cancel is a synchronous Basic.Cancel with "
    "the consumer's tag. Order relative to deliveries inside crossbeam (FIFO) is trusted.")
ASSUMPTIONS = ["crossbeam_channel is FIFO and disconnects the receiver when the last sender is dropped"]
RULE_TEXT = "obligations: one per terminal/delivery send site (sender provenance), per arm script, per clone/storage site, per cancel path row"
LEVEL_TEXT = ("Structural decision that every terminal consumer message is sent through a sender that has just been removed from the table (so it is the last one), "
              "with the variant naming the true cause, queued before the channel's caller is released (so the consumer's receiver is still alive: D12), plus idempotent cancel and cancel-on-drop. FIFO inside crossbeam is trusted; timing is not decided.")
LEVEL_NOTE = "Trusts rustc HIR/typeck, crossbeam's FIFO/disconnect semantics, the hand-written arm scripts."
TECHNIQUE = "static analysis: sender-provenance check on symbolic terms, ordered arm scripts vs oracle, ownership (no clone / single storage field) over items"

TERMINAL = ('ClientCancelled', 'ServerCancelled', 'ClientClosedChannel', 'ServerClosedChannel', 'ClientClosedConnection', 'ServerClosedConnection')


def run(ctx):
    _run_main(ctx)
    _shared_r4(ctx)
    _shared_r5(ctx)
    _round8(ctx)
    _round10(ctx)


def _run_main(ctx):
    m, arms, _ = D.read(ctx)
    with ctx.rule('R11.1', 'terminal message => sender was removed/drained; delivery => sender looked up with get; senders never cloned, stored once', floor=10) as r:
        nterm = ndel = 0
        for a in arms:
            for c in a.calls('connection_state::send'):
                msg = S.show(c.args[1])
                snd = S.show(c.args[0])
                if not msg.startswith('consumer::ConsumerMessage::'):
                    continue
                var = msg[len('consumer::ConsumerMessage::'):].split('(')[0]
                site = ctx.site(D.PROCESS, c.node)
                key = '%s:%s' % (a.keys[0][2] + '::' + a.keys[0][3] if a.keys[0][0] == 'Method' else a.keys[0][0], var)
                if var in TERMINAL:
                    nterm += 1
                    removed = ('std::collections::HashMap::remove(' in snd or 'std::collections::HashMap::drain(' in snd) and 'std::collections::HashMap::get(' not in snd
                    r.check('terminal:%s' % key, removed, site, built=snd, expected='sender obtained by consumers.remove(..) / consumers.drain()',
                            why='a terminal message sent through a sender that stays in the table could be followed by further messages')
                elif var == 'Delivery':
                    ndel += 1
                    r.check('delivery:%s' % key, 'std::collections::HashMap::get(' in snd and 'remove(' not in snd, site, built=snd, expected='consumers.get(tag)')
                else:
                    r.bad('unknown-variant:%s' % key, site, built=msg)
        r.check('terminal-sites', nterm == 6, ctx.site(D.PROCESS), built=nterm, expected=6)
        r.check('delivery-sites', ndel == 2, ctx.site(D.PROCESS), built=ndel, expected=2)
        # storage + clone
        holders = []
        for p, adt in ctx.adts.items():
            for v in adt['variants']:
                for f in v['fields']:
                    if 'Sender<consumer::ConsumerMessage>' in f['ty']:
                        holders.append('%s.%s' % (p, f['name']))
        r.eq('sender-storage', holders, ['io_loop::ChannelSlot.consumers'], None, why='a second place holding a consumer sender would keep the queue open after the terminal message')
        clones = []
        for p, fn in ctx.fns.items():
            if 'hir' not in fn:
                continue
            for nd in H.walk(fn['hir']):
                if nd.get('k') == 'MethodCall' and nd['name'] == 'clone' and 'Sender<consumer::ConsumerMessage>' in nd.get('recv_ty', ''):
                    clones.append(p)
        r.check('sender-never-cloned', not clones, None, built=clones)
    with ctx.rule('R11.2', 'cause table and ordered effects of the terminal arms equal the oracle', floor=6) as r:
        for key in (('Method', '0', 'connection', 'Close'), ('Method', '0', 'connection', 'CloseOk'), ('Method', 'n', 'channel', 'Close'),
                    ('Method', 'n', 'channel', 'CloseOk'), ('Method', 'n', 'basic', 'Cancel'), ('Method', 'n', 'basic', 'CancelOk')):
            A.check_script(ctx, r, arms, key)
    with ctx.rule('R11.7', "terminal messages are queued before the channel's caller is released: a consumer cannot have been dropped yet, so the send cannot fail", floor=5) as r:
        # A Consumer borrows its Channel, the Channel is !Sync, so consumers live on the one thread that uses the channel, and that
        # thread can only finish dropping a consumer (Drop -> cancel() -> a synchronous call) after a message on slot.tx
        # releases it. An arm that posts to slot.tx first races with that drop; send() turns the dead queue into
        # EventLoopClientDropped, which ends the I/O thread and with it every other channel and consumer (no terminal message).
        n = 0
        for a in arms:
            sends = a.calls('connection_state::send')
            term = [c for c in sends if S.show(c.args[1]).startswith('consumer::ConsumerMessage::') and S.show(c.args[1])[len('consumer::ConsumerMessage::'):].split('(')[0] in TERMINAL]
            reply = [c for c in sends if S.show(c.args[0]).endswith('.tx') and not S.show(c.args[1]).startswith('consumer::ConsumerMessage::')]
            if not term or not reply:
                continue
            n += 1
            key = a.keys[0][2] + '::' + a.keys[0][3] if a.keys[0][0] == 'Method' else a.keys[0][0]
            first_reply = min(c.idx for c in reply)
            late = [S.show(c.term)[:160] for c in term if c.idx > first_reply]
            r.check('terminal-before-release:%s' % key, not late, ctx.site(D.PROCESS, reply[0].node), built=late,
                    expected='every terminal ConsumerMessage of the arm is sent before the send to the slot\'s reply queue',
                    why="releasing the caller first lets it drop the consumer before the terminal message is posted: the I/O thread then fails with EventLoopClientDropped and the whole connection dies")
        r.check('arms-with-both', n == 5, ctx.site(D.PROCESS), built=n, expected='CancelOk, Channel.Close, Channel.CloseOk, Connection.Close, Connection.CloseOk')
    with ctx.rule('R11.5', 'cancel is idempotent, drop cancels, basic_cancel = Basic.Cancel{tag, nowait: false} awaiting CancelOk', floor=5) as r:
        rows = P.table(ctx, 'consumer::Consumer::cancel', ['self'])
        site = ctx.site('consumer::Consumer::cancel')
        # the flag is tested and set either as get() .. set(true) or in one step as replace(true)
        GET, SET, REP = 'std::cell::Cell::get(self.cancelled)', 'std::cell::Cell::set(self.cancelled, true)', 'std::cell::Cell::replace(self.cancelled, true)'
        again = [x for x in rows if x.conds in ([(GET, True)], [(REP, True)])]
        first = [x for x in rows if x.conds in ([(GET, False)], [(REP, False)])]
        if r.check('rows', len(rows) == 2 and len(again) == 1 and len(first) == 1 and again[0].conds[0][0] == first[0].conds[0][0], site, built=[x.row() for x in rows]):
            r.check('second-cancel-sends-nothing', again[0].value_str() == 'Ok(())' and not [e for e in again[0].effects if 'basic_cancel' in e or 'call' in e.split('(')[0].split('::')[-1]], site, built=again[0].row())
            eff = [e for e in first[0].effects if not e.startswith(('std::cell::Cell::get', 'consumer::Consumer::consumer_tag('))]
            eff = [('channel::Channel::basic_cancel(self.channel, ..)' if e.startswith('channel::Channel::basic_cancel(self.channel, ') else e) for e in eff]
            want = [SET, 'channel::Channel::basic_cancel(self.channel, ..)'] if first[0].conds[0][0] == GET else [REP, 'channel::Channel::basic_cancel(self.channel, ..)']
            r.eq('first-cancel', eff, want, site, why='flag set before the request so that a failing or repeated cancel never sends twice (what it carries is judged by the wire row)')
        evs, ret = ctx.events("<consumer::Consumer<'_> as std::ops::Drop>::drop")
        r.check('drop-cancels', any(e.kind == 'call' and e.callee == 'consumer::Consumer::cancel' and S.show(e.args[0]) == 'self' and S.unconditional(e, evs) for e in evs), ctx.site("<consumer::Consumer<'_> as std::ops::Drop>::drop"))
        ems, ret, events = W.read_op(ctx, 'consumer::Consumer::cancel', ['self'])
        ok = len(ems) == 1 and ems[0].sink == 'call' and ems[0].method == 'Cancel' and ems[0].fields == {'consumer_tag': 'self.consumer_tag', 'nowait': 'false'} \
            and ems[0].reply == 'amq_protocol::protocol::basic::CancelOk' and ems[0].on == 'self.channel'
        r.check('basic_cancel:wire', ok, site, built=[(e.sink, e.method, e.fields, e.reply, e.on) for e in ems])


def _shared_r4(ctx):
    """Rules of other properties that are necessary conditions of this one too (found by seeding round 4)."""
    with ctx.rule('R11.6', 'the queue holds every delivery until the terminal message: unbounded consumer queues (shared with C03)', floor=1) as r:
        A.include(ctx, r, 'c03', 'R03.6', pick=('consumer-queue:',))


def _shared_r5(ctx):
    """Rules of other properties that are necessary conditions of this one too (found by seeding round 5)."""
    from rules import arms as A
    with ctx.rule('R11.8', "a refused channel open cannot drop another channel's consumer senders: an occupied id is rejected before anything is stored (shared with C10)", floor=2) as r:
        A.include(ctx, r, 'c10', 'R10.1', pick=('occupied-error', 'vacant-inserts-that-id', 'vacant-only'))


def _round8(ctx):
    """Rules that are necessary conditions of this property too (found by seeding round 8)."""
    from rules import arms as A
    with ctx.rule('R11.9', "a dropped Connection closes like a closed one, and a reply plus a close error fit a channel's reply queue (shared with C05)", floor=2) as r:
        A.include(ctx, r, 'c05', 'R05.5', pick=('drop-closes',))
        A.include(ctx, r, 'c05', 'R05.3', pick=('slot/handle-pairing',))


def _round10(ctx):
    """Rules of other properties that are necessary conditions of this one too (found by seeding round 10: two cooperating sites, indirection)."""
    from rules import arms as A
    with ctx.rule('R11.10', "a connection close reaches the consumers of every open channel: draining the slot table yields every slot, whichever way its id was chosen (shared with C10)", floor=1) as r:
        A.include(ctx, r, 'c10', 'R10.3', pick=('drain:',))
