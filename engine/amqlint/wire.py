"""API -> wire rows: symbolic reading of a public operation down to the IoLoopHandle sinks."""
import sym as S

SINK_PREFIX = 'io_loop::io_loop_handle::IoLoopHandle::'
SINKS = {
    'call': 'call', 'call_nowait': 'nowait', 'get': 'get', 'consume': 'consume',
    'call_connection_close': 'close0', 'send_content_header': 'content_header',
    'send_content_body': 'content_body', 'set_return_handler': 'set_return_handler',
    'set_pub_confirm_handler': 'set_pub_confirm_handler',
}


def not_sink(p):
    return not p.startswith(SINK_PREFIX)


def canon_on(t):
    """Which object's handle carries the method: 'self', 'self.channel', 'channel', ..."""
    s = S.show(t)
    if 'alloc_chan_rep_rx' in s:
        return 'ALLOCATED'
    x = t
    if x[0] == 'field' and x[2] == 'handle':
        x = x[1]
    if x[0] == 'call' and x[1] in ('std::cell::RefCell::borrow_mut', 'std::cell::RefCell::borrow', 'std::cell::RefCell::get_mut') and len(x[2]) == 1:
        y = x[2][0]
        if y[0] == 'field' and y[2] == 'inner':
            return S.show(y[1])
    return S.show(x)


class Emission(object):
    def __init__(self, ev):
        self.ev = ev
        name = ev.callee[len(SINK_PREFIX):]
        self.sink = SINKS.get(name, name)
        self.on = canon_on(ev.args[0])
        self.cls = None
        self.method = None
        self.fields = None
        self.struct = None
        self.reply = None
        self.raw_args = [S.show(a) for a in ev.args[1:]]
        if self.sink in ('call', 'nowait') and len(ev.args) > 1:
            m = ev.args[1]
            if m[0] == 'call' and '::AMQPMethod::' in m[1] and len(m[2]) == 1:
                self.cls, self.method = m[1].split('AMQPMethod::')
                self.struct = m[2][0]
        elif self.sink in ('get', 'consume', 'close0') and len(ev.args) > 1:
            self.struct = ev.args[1]
            if self.struct[0] == 'struct':
                p = self.struct[1]
                self.cls = '::'.join(p.split('::')[:-1]) + '::'
                self.method = p.split('::')[-1]
        if self.struct is not None and self.struct[0] == 'struct':
            self.fields = {n: S.show(v) for n, v in self.struct[2]}
            self.struct_path = self.struct[1]
            self.struct_base = self.struct[3]
        else:
            self.struct_path = None
            self.struct_base = None
        if self.sink == 'call':
            ga = ev.extra.get('gargs', ())
            self.reply = ga[-1] if ga else None


def read_op(ctx, fnpath, params, depth=8):
    """Returns (emissions, return-term with sinks replaced, all events)."""
    fn = ctx.fn(fnpath)
    ev = ctx.evaluator(depth, inline_filter=not_sink)
    args = [('var', n, -(i + 1)) for i, n in enumerate(params)]
    if len(fn.get('params', [])) != len(params):
        raise ValueError('%s: parameter count %d differs from the oracle row (%d)' % (fnpath, len(fn.get('params', [])), len(params)))
    ret = ev.run_fn(fnpath, args)
    ems = []
    for e in ev.events:
        if e.kind == 'call' and e.callee.startswith(SINK_PREFIX):
            nm = e.callee[len(SINK_PREFIX):]
            if nm in SINKS:
                ems.append(Emission(e))
    ctx.counts['call_sites'] += len([e for e in ev.events if e.kind == 'call'])
    r = ret
    for em in ems:
        # is the emission's own Result handed on (returned, mapped or `?`-propagated)?
        em.propagated = any(t == em.ev.term for t in S.subterms(ret)) or any(e.kind == 'try' and e.term[1] == em.ev.term for e in ev.events) \
            or S.show(em.ev.term) in S.show(ret)
        r = S.replace(r, em.ev.term, ('var', 'REPLY' if em.sink == 'call' else 'SINK', 0))
    return ems, canon_ret(r), ev.events


def canon_ret(r):
    """`x.map(|v| body)` and `let v = x?; Ok(body)` return the same thing: canonical form Ok(body[v := x?])."""
    if r is not None and r[0] == 'call' and r[1] == 'std::result::Result::map' and len(r[2]) == 2 and r[2][1][0] == 'closure':
        x, clo = r[2]
        body = clo[3]
        for nm, pid in clo[2]:
            body = S.replace(body, ('var', nm, pid), ('try', x))
        return ('call', 'Ok', (body,), ())
    return r
