"""Thorough-tier self-test: the rules must fire on seeded one-site edits (mutants) and stay silent on
behaviour-preserving edits (benign). Every edit is applied to a scratch copy of /repo's *current* tree
outside /repo and /verif, analysed statically exactly like the real tree, and the copy is deleted.
A missed mutant or a false alarm is a weakness of the checker: it is reported in the evidence and as a
SELFTEST line, never as a VIOLATION of amiquip."""
import importlib
import json
import multiprocessing
import os
import shutil
import subprocess
import sys
import tempfile
import time

import core
import facts

CATALOGUE_DIR = os.path.join(facts.VERIF, 'selftest')
SEEDED_DIR = os.path.join(facts.VERIF, 'seeded')
BENIGN_DIR = os.path.join(facts.VERIF, 'benign')


def load_catalogue():
    sys.path.insert(0, CATALOGUE_DIR)
    import catalogue
    return catalogue


def scratch_copy():
    d = tempfile.mkdtemp(prefix='amq-selftest-')
    repo = os.path.join(d, 'repo')
    os.makedirs(repo)
    for name in ('src', 'Cargo.toml', 'Cargo.lock', 'build.rs'):
        src = os.path.join(facts.REPO, name)
        if os.path.isdir(src):
            shutil.copytree(src, os.path.join(repo, name))
        elif os.path.exists(src):
            shutil.copy2(src, os.path.join(repo, name))
    # warm target dir: hard-link copy of the cached dependency build
    warm = os.path.join(facts.CACHE, 'target-default')
    tgt = os.path.join(d, 'target')
    if os.path.isdir(warm):
        r = subprocess.run(['cp', '-al', warm, tgt], stdout=subprocess.DEVNULL, stderr=subprocess.DEVNULL)
        if r.returncode != 0:
            shutil.copytree(warm, tgt)
    return d, repo, tgt


def apply_edit(repo, edit):
    """edit: dict(kind='sub', file, old, new) | dict(kind='patch', path) | dict(kind='revert', commit)"""
    k = edit['kind']
    if k == 'sub':
        p = os.path.join(repo, edit['file'])
        s = open(p).read()
        if edit['old'] not in s:
            return False, 'anchor text not found (tree changed): skipped'
        s = s.replace(edit['old'], edit['new'], 1)
        open(p, 'w').write(s)
        return True, ''
    if k == 'patch':
        r = subprocess.run(['patch', '-p1', '--no-backup-if-mismatch', '-s', '-i', edit['path']], cwd=repo, stdout=subprocess.PIPE, stderr=subprocess.STDOUT, text=True)
        return r.returncode == 0, r.stdout[-300:]
    if k == 'revert-subject':
        log = subprocess.run(['git', '-C', facts.REPO, 'log', '--format=%H %s'], stdout=subprocess.PIPE, text=True).stdout
        commit = None
        for line in log.splitlines():
            h, _, subj = line.partition(' ')
            if subj.strip() == edit['subject']:
                commit = h
        if commit is None:
            return False, 'fix commit not found by subject: skipped'
        edit = {'kind': 'revert', 'commit': commit}
        k = 'revert'
    if k == 'revert':
        diff = subprocess.run(['git', '-C', facts.REPO, 'show', edit['commit'], '--', 'src'], stdout=subprocess.PIPE, text=True).stdout
        r = subprocess.run(['patch', '-p1', '-R', '--no-backup-if-mismatch', '-s'], cwd=repo, input=diff, stdout=subprocess.PIPE, stderr=subprocess.STDOUT, text=True)
        return r.returncode == 0, r.stdout[-300:]
    return False, 'unknown edit kind'


def run_one(job):
    prop, entry = job
    t0 = time.time()
    d, repo, tgt = scratch_copy()
    res = {'name': entry['name'], 'property': prop, 'kind': entry['role']}
    try:
        ok, msg = apply_edit(repo, entry['edit'])
        if ok and entry.get('edit2'):
            ok, msg = apply_edit(repo, entry['edit2'])
        if not ok:
            res['status'] = 'skipped'
            res['detail'] = msg
            return res
        try:
            f, info = facts.extract('default', repo=repo, target_dir=tgt, out=os.path.join(d, 'facts.json'))
        except facts.FactsError as e:
            res['status'] = 'does-not-compile'
            res['detail'] = str(e)[-300:]
            return res
        info['repo'] = repo
        mod = importlib.import_module('rules.' + prop.lower())
        ctx = core.Ctx(f, info, prop)
        core.run_rules(mod, ctx)
        known, _ = core.load_known()
        bad = [i.key for r in ctx.rules for i in r.insts if not i.ok and (prop, i.key) not in known]
        res['violated'] = sorted(set(bad))[:12]
        if entry['role'] == 'mutant':
            exp = entry.get('expect')
            hit = [k for k in bad if (exp is None or exp in k)]
            res['status'] = 'caught' if hit else ('caught-elsewhere' if bad else 'MISSED')
        else:
            res['status'] = 'silent' if not bad else ('known-limit' if entry.get('known_limit') else 'FALSE-ALARM')
            if entry.get('known_limit'):
                res['limit'] = entry['known_limit']
        return res
    finally:
        res['wall_s'] = round(time.time() - t0, 1)
        shutil.rmtree(d, ignore_errors=True)


def entries_for(prop):
    cat = load_catalogue()
    out = []
    for e in cat.MUTANTS:
        if e['property'] == prop:
            out.append(dict(e, role='mutant'))
    for e in cat.BENIGN:
        if prop in e.get('properties', [prop]) or not e.get('properties'):
            out.append(dict(e, role='benign'))
    # seeded changes written by independent sub-agents (seeded/<id>/patch.diff + meta.json)
    if os.path.isdir(SEEDED_DIR):
        for sid in sorted(os.listdir(SEEDED_DIR)):
            mp = os.path.join(SEEDED_DIR, sid, 'meta.json')
            pp = os.path.join(SEEDED_DIR, sid, 'patch.diff')
            if os.path.exists(mp) and os.path.exists(pp):
                meta = json.load(open(mp))
                if meta.get('property') == prop or prop in meta.get('also_checked_by', []):
                    out.append({'name': 'seeded/' + sid, 'property': prop, 'role': 'mutant', 'expect': None, 'edit': {'kind': 'patch', 'path': pp}})
    # behaviour-preserving edits written by independent sub-agents (benign/<round>/<id>/patch.diff): those that touch a file
    # the property is anchored in must leave the property's check silent (except the declared limits of benign/INDEX.json)
    if os.path.isdir(BENIGN_DIR):
        import re
        try:
            limits = json.load(open(os.path.join(BENIGN_DIR, 'INDEX.json'))).get('known_limit', {})
        except (IOError, ValueError):
            limits = {}
        files = set()
        for line in open(os.path.join(facts.VERIF, 'properties.jsonl')):
            rec = json.loads(line)
            if rec['id'] == prop:
                files = set(rec.get('anchors', {}).get('files', []))
        for rnd in sorted(os.listdir(BENIGN_DIR)):
            rd = os.path.join(BENIGN_DIR, rnd)
            if not os.path.isdir(rd):
                continue
            for bid in sorted(os.listdir(rd)):
                pp = os.path.join(rd, bid, 'patch.diff')
                if not os.path.exists(pp):
                    continue
                touched = set(re.findall(r'^\+\+\+ b/(\S+)', open(pp).read(), re.M))
                if touched & files:
                    out.append({'name': 'benign/%s/%s' % (rnd, bid), 'property': prop, 'role': 'benign', 'edit': {'kind': 'patch', 'path': pp},
                                'known_limit': limits.get('%s/%s' % (rnd, bid))})
    return out


def run_for(prop, mod=None, jobs=12):
    es = entries_for(prop)
    if not es:
        return {'mutants': 0, 'benign': 0, 'results': []}
    facts.ensure_driver()
    with multiprocessing.Pool(min(jobs, len(es))) as pool:
        results = pool.map(run_one, [(prop, e) for e in es])
    summary = {
        'mutants': len([r for r in results if r['kind'] == 'mutant']),
        'caught': len([r for r in results if r['status'] in ('caught', 'caught-elsewhere')]),
        'missed': [r['name'] for r in results if r['status'] == 'MISSED'],
        'benign': len([r for r in results if r['kind'] == 'benign']),
        'false_alarms': [r['name'] for r in results if r['status'] == 'FALSE-ALARM'],
        'known_limits': [r['name'] for r in results if r['status'] == 'known-limit'],
        'skipped': [r['name'] for r in results if r['status'] in ('skipped', 'does-not-compile')],
        'results': results,
    }
    for r in results:
        if r['status'] == 'MISSED':
            print('SELFTEST-MISS property=%s mutant=%s (weakness of the checker, not a violation of amiquip)' % (prop, r['name']))
        if r['status'] == 'FALSE-ALARM':
            print('SELFTEST-FALSE-ALARM property=%s benign-edit=%s fired=%s' % (prop, r['name'], r.get('violated')))
    print('selftest %s: %d/%d mutants caught, %d benign edits silent of %d (%d declared limits), %d skipped' % (
        prop, summary['caught'], summary['mutants'], summary['benign'] - len(summary['false_alarms']) - len(summary['known_limits']), summary['benign'],
        len(summary['known_limits']), len(summary['skipped'])))
    return summary


if __name__ == '__main__':
    p = sys.argv[1]
    print(json.dumps(run_for(p), indent=1)[:6000])
