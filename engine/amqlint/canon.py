"""Canonical conditions: one spelling for the tests a branch can make, so that `if let` / `match` /
`matches!` / `is_some()` / `==` against a variant / negations / flipped comparisons / early-return
shapes of the same decision give the same path conditions and guards.

A condition is a pair (subject string, predicate) where predicate is True / False (the subject is a
boolean term) or a pattern string (the subject matches it). Pattern predicates over enums whose
variants are known (the crate's own enums, Option, Result, Ordering) are *whole-variant sets*
rendered in declaration order; the complement of such a set is again such a set."""
import re

import hir as H
import sym as S

# enum path -> [(variant name, kind, arity)]   kind: 'unit' | 'tuple' | 'struct'
ADTS = {}
BUILTIN = {
    'std::option::Option': ('', [('Some', 'tuple', 1), ('None', 'unit', 0)]),
    'std::result::Result': ('', [('Ok', 'tuple', 1), ('Err', 'tuple', 1)]),
    'std::cmp::Ordering': ('std::cmp::Ordering::', [('Less', 'unit', 0), ('Equal', 'unit', 0), ('Greater', 'unit', 0)]),
    'crossbeam_channel::TrySendError': ('crossbeam_channel::TrySendError::', [('Full', 'tuple', 1), ('Disconnected', 'tuple', 1)]),
    'crossbeam_channel::TryRecvError': ('crossbeam_channel::TryRecvError::', [('Empty', 'unit', 0), ('Disconnected', 'unit', 0)]),
    'std::sync::mpsc::TryRecvError': ('std::sync::mpsc::TryRecvError::', [('Empty', 'unit', 0), ('Disconnected', 'unit', 0)]),
    'std::sync::mpsc::TrySendError': ('std::sync::mpsc::TrySendError::', [('Full', 'tuple', 1), ('Disconnected', 'tuple', 1)]),
    'std::collections::hash_map::Entry': ('std::collections::hash_map::Entry::', [('Occupied', 'tuple', 1), ('Vacant', 'tuple', 1)]),
    'std::collections::btree_map::Entry': ('std::collections::btree_map::Entry::', [('Occupied', 'tuple', 1), ('Vacant', 'tuple', 1)]),
}


def register(adts):
    ADTS.clear()
    for a in adts:
        if not a.get('is_enum'):
            continue
        vs = []
        for v in a['variants']:
            fields = v.get('fields', [])
            ck = v.get('ctor') or ('unit' if not fields else ('tuple' if all(f['name'].isdigit() for f in fields) else 'struct'))
            ck = {'Fn': 'tuple', 'Const': 'unit'}.get(ck, ck)
            vs.append((v['name'], ck, len(fields)))
        ADTS[a['path']] = (a['path'] + '::', vs)


def strip_ty(ty):
    ty = (ty or '').strip()
    while True:
        if ty.startswith('&'):
            ty = ty[1:].lstrip()
            if ty.startswith("'"):
                ty = ty.split(' ', 1)[1] if ' ' in ty else ty
            if ty.startswith('mut '):
                ty = ty[4:]
            continue
        break
    depth = 0
    for i, c in enumerate(ty):
        if c == '<':
            return ty[:i]
    return ty


def variants_of(ty):
    base = H.norm_path(strip_ty(ty)) if ty else ''
    if base in BUILTIN:
        return BUILTIN[base]
    return ADTS.get(base)


def render_variant(prefix, v):
    name, kind, n = v
    if kind == 'unit':
        return prefix + name
    if kind == 'tuple':
        return '%s%s(%s)' % (prefix, name, ', '.join(['_'] * n))
    return '%s%s{..}' % (prefix, name)


def render(ty, names):
    prefix, vs = variants_of(ty)
    return ' | '.join(render_variant(prefix, v) for v in vs if v[0] in names)


def _irrefutable(p):
    k = p.get('k')
    if k == 'Wild':
        return True
    if k == 'Bind':
        return p.get('sub') is None or _irrefutable(p['sub'])
    if k in ('PRef', 'PBox', 'PDeref'):
        return _irrefutable(p['p'])
    if k == 'PTuple':
        return all(_irrefutable(x) for x in p['pats'])
    if k == 'PStruct' and 'Variant' not in ((p.get('res') or {}).get('dk') or 'Variant'):
        # a pattern of a struct (not of an enum variant) only destructures
        subs = p.get('pats', []) if k == 'PTupleStruct' else [x for _, x in p.get('fields', [])]
        return all(_irrefutable(x) for x in subs)
    return False


def whole(pat, ty):
    """Names of the variants the pattern covers entirely (or-patterns allowed); 'ALL' for an
    irrefutable pattern; None when the pattern looks inside a variant or the enum is unknown."""
    if _irrefutable(pat):
        return 'ALL'
    info = variants_of(ty)
    if info is None:
        return None
    names = set(v[0] for v in info[1])
    k = pat.get('k')
    if k in ('PRef', 'PBox', 'PDeref'):
        return whole(pat['p'], ty)
    if k == 'POr':
        out = set()
        inner = {}
        for x in pat['pats']:
            w = whole(x, ty)
            if w is None:
                x2 = x
                while x2.get('k') in ('PRef', 'PBox', 'PDeref'):
                    x2 = x2['p']
                if x2.get('k') == 'PTupleStruct' and len(x2.get('pats', [])) == 1 and H.res_path(x2['res']).split('::')[-1] in names:
                    inner.setdefault(H.res_path(x2['res']).split('::')[-1], []).append(x2['pats'][0])
                    continue
                return None
            if w == 'ALL':
                return 'ALL'
            out |= w
        for nm, subs in inner.items():
            # `V(A(_)) | V(B(_))` with A, B all the variants of the payload's type is `V(_)`
            sen = variant_of_pat(subs[0])
            info2 = variants_of(sen[0]) if sen else None
            if info2 is None:
                return None
            got = set()
            for sp in subs:
                w2 = whole(sp, sen[0])
                if w2 is None:
                    return None
                got |= (set(v[0] for v in info2[1]) if w2 == 'ALL' else w2)
            if got != set(v[0] for v in info2[1]):
                return None
            out.add(nm)
        return out
    if k in ('PTupleStruct', 'PStruct', 'PPath'):
        nm = H.res_path(pat['res']).split('::')[-1]
        if nm not in names:
            return None
        subs = pat.get('pats', []) if k == 'PTupleStruct' else [x for _, x in pat.get('fields', [])]
        if all(_irrefutable(x) for x in subs):
            return {nm}
    return None


_PRELUDE = {'std::prelude::v1::Ok': ('std::result::Result', 'Ok'), 'std::prelude::v1::Err': ('std::result::Result', 'Err'),
            'std::prelude::v1::Some': ('std::option::Option', 'Some'), 'std::prelude::v1::None': ('std::option::Option', 'None'),
            'Ok': ('std::result::Result', 'Ok'), 'Err': ('std::result::Result', 'Err'), 'Some': ('std::option::Option', 'Some'), 'None': ('std::option::Option', 'None')}


def variant_of_pat(pat):
    """(enum path, variant name) of a variant pattern, from its resolved constructor."""
    while pat.get('k') in ('PRef', 'PBox', 'PDeref'):
        pat = pat['p']
    if pat.get('k') == 'Bind' and pat.get('sub'):
        pat = pat['sub']
    if pat.get('k') not in ('PTupleStruct', 'PStruct', 'PPath'):
        return None
    res = pat.get('res') or {}
    path = res.get('path') or ''
    if path in _PRELUDE:
        return _PRELUDE[path]
    rp = H.res_path(res)
    if rp in _PRELUDE:
        return _PRELUDE[rp]
    if 'Variant' in (res.get('dk') or '') and '::' in rp:
        return rp.rsplit('::', 1)[0], rp.rsplit('::', 1)[1]
    return None


def nested(pat):
    """A one-field variant pattern that looks inside its field: (enum, variant, sub-pattern), else None."""
    p = pat
    while p.get('k') in ('PRef', 'PBox', 'PDeref'):
        p = p['p']
    if p.get('k') != 'PTupleStruct' or len(p.get('pats', [])) != 1 or p.get('dd') is not None:
        return None
    v = variant_of_pat(p)
    if v is None or _irrefutable(p['pats'][0]):
        return None
    return v[0], v[1], p['pats'][0]


def pattern_pred(pat, ty, earlier=()):
    """Predicate string for `subject matches pat`, given the whole-variant sets already taken by
    earlier unguarded arms of the same match (first-match semantics)."""
    w = whole(pat, ty)
    info = variants_of(ty)
    if w is not None and info is not None:
        allv = set(v[0] for v in info[1])
        taken = set()
        for e in earlier:
            if e is None:
                taken = None
                break
            taken |= e
        if taken is not None:
            mine = (allv if w == 'ALL' else w) - taken
            return render(ty, mine) if mine else 'unreachable', mine
    if w == 'ALL':
        return '_', None
    return H.pat_term(pat, True), (w if w != 'ALL' else None)


def complement_pred(pat, ty):
    """Predicate for `subject does not match pat` (the else of an if-let)."""
    w = whole(pat, ty)
    info = variants_of(ty)
    if w is not None and w != 'ALL' and info is not None:
        rest = set(v[0] for v in info[1]) - w
        if rest:
            return render(ty, rest)
    return 'not ' + pattern_pred(pat, ty)[0]


def negate_pred(pred, ty=None):
    """Complement of a predicate string given as a rendered whole-variant set (or `not P`)."""
    if pred.startswith('not '):
        return pred[4:]
    for key in ([H.norm_path(strip_ty(ty))] if ty else []) + list(BUILTIN) + list(ADTS):
        info = BUILTIN.get(key) or ADTS.get(key)
        if info is None:
            continue
        prefix, vs = info
        rendered = {render_variant(prefix, v): v[0] for v in vs}
        parts = pred.split(' | ')
        if all(p in rendered for p in parts):
            rest = [render_variant(prefix, v) for v in vs if render_variant(prefix, v) not in parts]
            if rest:
                return ' | '.join(rest)
    return 'not ' + pred


_TESTS = {
    'std::option::Option::is_some': 'Some(_)', 'std::option::Option::is_none': 'None',
    'std::result::Result::is_ok': 'Ok(_)', 'std::result::Result::is_err': 'Err(_)',
}
_EMPTY = ('str::is_empty', 'std::string::String::is_empty', 'std::str::is_empty', 'core::str::is_empty')
_LIB = ('std::', 'core::', 'alloc::', 'str::', '<[')
_FLIP = {'>': '<', '>=': '<='}


def is_variant_path(t):
    if t is None or t[0] != 'path':
        return False
    segs = t[1].split('::')
    last = segs[-1]
    return len(segs) >= 2 and last[:1].isupper() and not last.isupper() and segs[-2][:1].isupper()


def cond(t, pol=True):
    """Canonical list of (subject, predicate) for boolean term t holding (pol=True) or failing."""
    if t is None:
        return [('_', pol)]
    k = t[0]
    if k == 'un' and t[1] == '!':
        return cond(t[2], not pol)
    if k == 'bin' and t[1] == '&&' and pol:
        return cond(t[2], True) + cond(t[3], True)
    if k == 'bin' and t[1] == '||' and not pol:
        return cond(t[2], False) + cond(t[3], False)
    if k == 'call' and t[1].split('::')[-1] == 'contains' and t[1].startswith('std::ops::Range') and len(t[2]) == 2:
        rng, x = t[2]
        lo = hi = None
        incl = False
        if rng is not None and rng[0] == 'call' and rng[1] == 'std::ops::RangeInclusive::new' and len(rng[2]) == 2:
            lo, hi, incl = rng[2][0], rng[2][1], True
        elif rng is not None and rng[0] == 'struct' and rng[1] == 'std::ops::Range':
            d = dict(rng[2])
            lo, hi = d.get('start'), d.get('end')
        if lo is not None and hi is not None:
            inside = ('bin', '&&', ('bin', '<=', lo, x), ('bin', '<=' if incl else '<', x, hi))
            return cond(inside, pol)
    if k == 'matches' and len(t) >= 4:
        # matches!(x, P): the pattern test itself (t = ('matches', subject term, predicate, type))
        p = t[2]
        return [(S.show(t[1]), p if pol else negate_pred(p, t[3]))]
    if k == 'call' and t[1] in _TESTS and len(t[2]) == 1:
        p = _TESTS[t[1]]
        return [(S.show(t[2][0]), p if pol else negate_pred(p))]
    if k == 'call' and t[1].split('::')[-1] == 'is_empty' and t[1].startswith(_LIB) and len(t[2]) == 1:
        return [('is_empty(%s)' % S.show(t[2][0]), pol)]
    if k == 'bin' and t[1] in ('==', '!='):
        a, b = t[2], t[3]
        eq = (t[1] == '==') == pol
        for x, y in ((a, b), (b, a)):
            if y is not None and y[0] == 'lit' and y[1] == '""':
                return [('is_empty(%s)' % S.show(x), eq)]
            if is_variant_path(y) and not is_variant_path(x):
                return [(S.show(x), y[1] if eq else negate_pred(y[1]))]
            if y is not None and y[0] == 'lit' and y[1] == '0' and x is not None and x[0] == 'call' and x[1].endswith('::len') and x[1].startswith(_LIB) and len(x[2]) == 1:
                return [('is_empty(%s)' % S.show(x[2][0]), eq)]
        sa, sb = sorted([S.show(a), S.show(b)])  # `a == b` and `b == a` are one test
        return [('(%s == %s)' % (sa, sb), eq)]
    if k == 'bin' and t[1] in ('<', '<=', '>', '>='):
        op, a, b = t[1], t[2], t[3]
        if op in _FLIP:
            op, a, b = _FLIP[op], b, a
        if op == '<=':
            # a <= b  ==  !(b < a)
            return [('(%s < %s)' % (S.show(b), S.show(a)), not pol)]
        return [('(%s < %s)' % (S.show(a), S.show(b)), pol)]
    if k == 'bin' and t[1] in ('&&', '||'):
        # a disjunction (or a failed conjunction): one compound literal in negation normal form
        return [(bstr(t, pol), True)]
    return [(S.show(t), pol)]


def bstr(t, pol=True):
    """Negation normal form string of a boolean term (negations pushed to canonical atoms)."""
    if t is not None and t[0] == 'un' and t[1] == '!':
        return bstr(t[2], not pol)
    if t is not None and t[0] == 'bin' and t[1] in ('&&', '||'):
        op = t[1] if pol else ('||' if t[1] == '&&' else '&&')
        return '(%s %s %s)' % (bstr(t[2], pol), op, bstr(t[3], pol))
    parts = []
    for s_, p in cond(t, pol):
        if isinstance(p, bool):
            parts.append(s_ if p else '!' + s_)
        else:
            parts.append('(%s ~ %s)' % (s_, p))
    return parts[0] if len(parts) == 1 else '(' + ' && '.join(parts) + ')'


ENTRY_FNS = ('std::collections::HashMap::entry', 'std::collections::BTreeMap::entry')


def cmp_conds(subj_term, pred_names):
    """`a.cmp(&b)` matched against Ordering variants, as comparisons; `uN::try_from(x)` of a wider unsigned x matched
    against Ok / Err, as the range test it is."""
    if subj_term is not None and subj_term[0] == 'call' and subj_term[1].startswith('narrow::') and len(subj_term[2]) == 1:
        names = frozenset(pred_names)
        lit = '(%s::MAX < %s)' % (subj_term[1][len('narrow::'):], S.show(subj_term[2][0]))
        return {frozenset(['Ok']): [(lit, False)], frozenset(['Err']): [(lit, True)]}.get(names)
    if subj_term is not None and subj_term[0] == 'call' and subj_term[1] in ('std::slice::get', 'core::slice::get') and len(subj_term[2]) == 2 \
            and subj_term[2][1] is not None and (subj_term[2][1][0] == 'path' or (subj_term[2][1][0] == 'struct' and subj_term[2][1][1] == 'std::ops::Range')):
        # `buf.get(a..b)` is Some exactly when the whole range lies inside the slice: b <= len (a <= b for a constant range)
        rng = subj_term[2][1]
        end = S.show(rng) + '.end' if rng[0] == 'path' else S.show(dict(rng[2]).get('end'))
        lit = '(std::slice::len(%s) < %s)' % (S.show(subj_term[2][0]), end)
        return {frozenset(['Some']): [(lit, False)], frozenset(['None']): [(lit, True)]}.get(frozenset(pred_names))
    if subj_term is not None and subj_term[0] == 'call' and subj_term[1] in ENTRY_FNS and len(subj_term[2]) == 2:
        # `match m.entry(k) { Occupied(_) => .., Vacant(_) => .. }` asks whether the key is present
        lit = '%s::contains_key(%s, %s)' % (subj_term[1].rsplit('::', 1)[0], S.show(subj_term[2][0]), S.show(subj_term[2][1]))
        return {frozenset(['Occupied']): [(lit, True)], frozenset(['Vacant']): [(lit, False)]}.get(frozenset(pred_names))
    if subj_term is None or subj_term[0] != 'call' or subj_term[1].split('::')[-1] != 'cmp' or not subj_term[1].startswith(('std::cmp::', 'core::cmp::')) or len(subj_term[2]) != 2:
        return None
    a, b = S.show(subj_term[2][0]), S.show(subj_term[2][1])
    lt, gt, eq = '(%s < %s)' % (a, b), '(%s < %s)' % (b, a), '(%s == %s)' % tuple(sorted([a, b]))
    names = frozenset(pred_names)
    table = {
        frozenset(['Less']): [(lt, True)], frozenset(['Greater']): [(gt, True)], frozenset(['Equal']): [(eq, True)],
        frozenset(['Less', 'Equal']): [(gt, False)], frozenset(['Greater', 'Equal']): [(lt, False)], frozenset(['Less', 'Greater']): [(eq, False)],
    }
    return table.get(names)


def simplify(conds):
    """Small theory of one comparison pair: from the literals over a<b, b<a, a==b derive the
    strongest single literal, keeping the position of the first literal involved."""
    out = list(conds)
    changed = True
    while changed:
        changed = False
        lits = {}
        for i, (s, p) in enumerate(out):
            if isinstance(p, bool):
                lits.setdefault(s, []).append((i, p))
        for s in list(lits):
            m = re.match(r'^\((.+) < (.+)\)$', s)
            if not m:
                continue
            a, b = m.group(1), m.group(2)
            lt, gt, eq = s, '(%s < %s)' % (b, a), '(%s == %s)' % tuple(sorted([a, b]))
            eq2 = eq
            val = {}
            for name, key in (('lt', lt), ('gt', gt), ('eq', eq)):
                for i, p in lits.get(key, []):
                    val.setdefault(name, (i, p))
            if len(val) < 2:
                continue
            idx = sorted(i for i, _ in val.values())
            truths = {n: p for n, (i, p) in val.items()}
            pos = [n for n, p in truths.items() if p]
            res = None
            if len(pos) == 1:
                res = {'lt': (lt, True), 'gt': (gt, True), 'eq': (eq, True)}[pos[0]]
            elif not pos and len(truths) == 2:
                missing = ({'lt', 'gt', 'eq'} - set(truths)).pop()
                res = {'lt': (lt, True), 'gt': (gt, True), 'eq': (eq, True)}[missing]
            if res is None:
                continue
            keep = [c for j, c in enumerate(out) if j not in idx]
            keep.insert(min(idx) if min(idx) <= len(keep) else len(keep), res)
            if keep != out:
                out = keep
                changed = True
                break
    # several pattern tests of one subject (an outer match, then a helper matching the same value again): keep their meet
    by = {}
    for i, (s_, p_) in enumerate(out):
        if isinstance(p_, str):
            by.setdefault(s_, []).append(i)
    drop = set()
    repl = {}
    for s_, idxs in by.items():
        if len(idxs) < 2:
            continue
        pos = [(i, set(out[i][1].split(' | '))) for i in idxs if not out[i][1].startswith('not ') and out[i][1] != '_']
        neg = [(i, set(out[i][1][4:].split(' | '))) for i in idxs if out[i][1].startswith('not ')]
        wild = [i for i in idxs if out[i][1] == '_']
        if pos:
            meet = set(pos[0][1])
            for _, alts in pos[1:]:
                meet &= alts
            for _, ex in neg:
                meet -= ex
            if not meet:
                continue  # contradictory path: leave as is
            first = min(idxs)
            order = [a for a in out[pos[0][0]][1].split(' | ') if a in meet]
            repl[first] = (s_, ' | '.join(order))
            drop |= set(idxs) - {first}
        elif len(neg) > 1:
            first = min(i for i, _ in neg)
            allx = []
            for i, ex in sorted(neg):
                for a in out[i][1][4:].split(' | '):
                    if a not in allx:
                        allx.append(a)
            repl[first] = (s_, 'not ' + ' | '.join(allx))
            drop |= set(i for i, _ in neg) - {first}
            drop |= set(wild)
        elif neg and wild:
            drop |= set(wild)
    if repl or drop:
        out = [repl.get(i, c) for i, c in enumerate(out) if i not in drop]
    # drop exact duplicates, keep first
    seen = set()
    res = []
    for c in out:
        if c in seen:
            continue
        seen.add(c)
        res.append(c)
    return res


def _pat_parts(p):
    """(head, [argument patterns]) of a rendered pattern: `E::V(a, b)` -> ('E::V', ['a', 'b']); `(a, b)` -> ('', [..]); `x` -> ('x', [])"""
    p = p.strip()
    i = p.find('(')
    if i < 0 or not p.endswith(')'):
        return p, []
    head, inner = p[:i], p[i + 1:-1]
    args, depth, cur = [], 0, ''
    for ch in inner:
        if ch in '([{':
            depth += 1
        elif ch in ')]}':
            depth -= 1
        if ch == ',' and depth == 0:
            args.append(cur.strip())
            cur = ''
        else:
            cur += ch
    if cur.strip():
        args.append(cur.strip())
    return head, args


def pat_subsumes(g, s):
    """every value matching the rendered pattern s matches g (g is s with parts generalised to `_`)"""
    if g == '_' or g == s:
        return True
    gh, ga = _pat_parts(g)
    sh, sa = _pat_parts(s)
    if gh != sh or len(ga) != len(sa) or not ga:
        return False
    return all(pat_subsumes(a, b) for a, b in zip(ga, sa))


def pat_disjoint(a, b):
    """no value matches both rendered patterns (proved from differing constructors only)"""
    if a == '_' or b == '_' or a == b:
        return False
    ah, aa = _pat_parts(a)
    bh, ba = _pat_parts(b)
    if '{' in ah or '{' in bh or '..' in a or '..' in b:
        return False
    if ah != bh:
        # two different constructors / literals of one type; binders never appear in rendered patterns
        return bool(ah) and bool(bh) and ('::' in ah or ah in ('Some', 'None', 'Ok', 'Err', 'true', 'false') or ah[:1].isdigit() or ah[:1] == '"') \
            and ('::' in bh or bh in ('Some', 'None', 'Ok', 'Err', 'true', 'false') or bh[:1].isdigit() or bh[:1] == '"')
    if len(aa) != len(ba):
        return False
    return any(pat_disjoint(x, y) for x, y in zip(aa, ba))


def contradictory(conds):
    """The pattern tests of one subject cannot all hold: the path is infeasible."""
    by = {}
    for s_, p_ in conds:
        if isinstance(p_, str):
            by.setdefault(s_, []).append(p_)
    for s_, ps in by.items():
        if len(ps) < 2:
            continue
        pos = [[a.strip() for a in p_.split(' | ')] for p_ in ps if not p_.startswith('not ') and p_ != '_']
        neg = [a.strip() for p_ in ps if p_.startswith('not ') for a in p_[4:].split(' | ')]
        for alts in pos:
            if neg and all(any(pat_subsumes(n, a) for n in neg) for a in alts):
                return True
        for i in range(len(pos)):
            for j in range(i + 1, len(pos)):
                if all(pat_disjoint(a, b) for a in pos[i] for b in pos[j]):
                    return True
    return False


def branches(t, pol=True):
    """The ways boolean term t can come out as `pol`, as the short-circuit evaluation decides them: a list of literal
    lists. `a && b` fails as [!a] or [a, !b]; `a || b` holds as [a] or [!a, b] -- the same paths nested ifs would give."""
    if t is not None and t[0] == 'un' and t[1] == '!':
        return branches(t[2], not pol)
    if t is not None and t[0] == 'bin' and t[1] in ('&&', '||'):
        a, b = t[2], t[3]
        conj = (t[1] == '&&')
        if conj == pol:
            # both operands decide: a && b true / a || b false
            return [x + y for x in branches(a, pol) for y in branches(b, pol)]
        # one operand suffices: a && b false / a || b true
        return branches(a, pol) + [x + y for x in branches(a, not pol) for y in branches(b, pol)]
    return [cond(t, pol)]

