"""Type-level witnesses (compile_fail doc-tests with compiling twins) for the thorough tier."""
import os
import re
import shutil
import subprocess

import facts

WDIR = os.path.join(facts.VERIF, 'witness')

W_MAP = {
    'C01': ['W7ChannelNotClone', 'W8ConnectionNotClone'],
    'C02': ['W1ChannelNotSync'],
    'C04': ['W1ChannelNotSync', 'W2OpenChannelNeedsMut', 'W7ChannelNotClone'],
    'C05': ['W3ConnectionUseAfterClose', 'W4ChannelUseAfterClose'],
    'C08': ['W3ConnectionUseAfterClose'],
    'C11': ['W6ConsumerOutlivesChannel', 'W9ConsumerNotClone', 'W5QueueOutlivesChannel'],
    'C12': ['W5QueueOutlivesChannel', 'W10QueueUseAfterDelete', 'W11DeliveryAckedOnce'],
}

_cache = {}


def run_all():
    if 'res' in _cache:
        return _cache['res']
    lock = os.path.join(facts.REPO, 'Cargo.lock')
    if os.path.exists(lock):
        shutil.copy2(lock, os.path.join(WDIR, 'Cargo.lock'))
    env = dict(os.environ, CARGO_NET_OFFLINE='true', CARGO_TARGET_DIR=os.path.join(facts.CACHE, 'target-witness'))
    r = subprocess.run(['cargo', '+nightly', 'test', '--doc', '--offline'], cwd=WDIR, env=env, stdout=subprocess.PIPE, stderr=subprocess.STDOUT, text=True)
    res = {}
    for m in re.finditer(r'^test src/lib\.rs - (\w+) \(line \d+\) - (compile fail|compile) \.\.\. (\w+)', r.stdout, re.M):
        res[(m.group(1), 'compile_fail' if m.group(2) == 'compile fail' else 'twin')] = m.group(3)
    _cache['res'] = (res, r.returncode, r.stdout[-3000:])
    return _cache['res']


def add_to(ctx, prop):
    names = W_MAP.get(prop)
    if not names:
        return
    res, rc, tail = run_all()
    with ctx.rule('W', 'compile-fail witnesses with compiling twins (rustc enforces the clause)', floor=2 * len(names)) as r:
        for n in names:
            for kind in ('compile_fail', 'twin'):
                st = res.get((n, kind))
                r.check('%s:%s' % (n, kind), st == 'ok', 'witness/src/lib.rs (%s)' % n, built=st or ('not run: ' + tail[-400:]),
                        expected='ok', why='the offending program must be rejected with the stated error code while its twin compiles')
