"""Signature reshaping of non-public vocabulary functions, undone on the facts (before any rule reads them).

Two refactorings change how a private function is *called* without changing what it computes:

* "introduce parameter object": some parameters are gathered into one private struct that exists for nothing else
  (`f(a, b, c, d)` -> `f(b, parts: Parts { a, c, d })`);
* "move to the type of the other parameter": a method that does not use its receiver (or uses it as just another argument)
  becomes a method of the type of one of its other parameters (`X::f(&self, y: &mut Y)` -> `Y::f(&mut self)`).

The oracle tables name parameters and argument positions of the pinned tree.  Both rewrites put the function back into
that shape: parameter list, a leading `let` that rebuilds the object from the parameters, and the argument list of every
call.  Nothing of the body is touched, so the rules judge the same statements as before.  Where a call site cannot be
put back (the object is computed by an expression that is not a literal or a place), it is left alone and the rules
report the mismatch: fail closed."""
import json
import os
import re

import hir as H
import sym as S

from facts import VERIF

_SYN = [5000000]


def _fresh():
    _SYN[0] += 1
    return -_SYN[0]


def _unref(t):
    t = (t or '').strip()
    while True:
        m = re.match(r"^&(?:'\w+\s+)?(?:mut\s+)?(.*)$", t)
        if not m:
            return t
        t = m.group(1).strip()


def _bare(t):
    out, d = '', 0
    for c in (t or ''):
        if c == '<':
            d += 1
        elif c == '>':
            d -= 1
        elif d == 0:
            out += c
    return out


def _load(name):
    try:
        with open(os.path.join(VERIF, 'spec', name)) as fh:
            return json.load(fh)
    except (IOError, ValueError):
        return None


def _key(n):
    return (n or '').lstrip('_')


def _place(n):
    """an expression that can be read several times: a local, a field of one, behind & or *"""
    while isinstance(n, dict):
        k = n.get('k')
        if k == 'Local':
            return True
        if k == 'AddrOf' or (k == 'Unary' and n.get('op') == 'Deref') or k == 'Field':
            n = n['e']
            continue
        return False
    return False


def apply_param_objects(facts):
    """Parameter objects: see the module comment. Returns {function path: slots} for the evidence."""
    meta = facts.setdefault('meta', {})
    if meta.get('param_objects') is not None:
        return meta['param_objects']
    meta['param_objects'] = {}
    sigs = _load('vocabulary_sigs.json')
    vadts = _load('vocabulary_adts.json')
    if sigs is None or vadts is None:
        return {}
    adts = {S.norm_path(a['path']): a for a in facts['adts'] if not a.get('cfg_test')}

    def record(ty):
        t = S.norm_path(_unref(ty))
        a = adts.get(t)
        if a is None or t in vadts or a.get('is_enum') or H.is_public(a) or len(a.get('variants') or []) != 1:
            return None
        fl = a['variants'][0]['fields']
        if not fl or any(f['name'].isdigit() for f in fl):
            return None
        return t, [(f['name'], f['ty']) for f in fl]

    plans = {}
    for fn in facts['fns']:
        k = S.norm_path(fn['path'])
        want = (sigs.get(k) or {}).get('params')
        have = fn.get('params', [])
        if not want or None in want or H.is_public(fn) or 'hir' not in fn or fn['hir'].get('k') != 'Block' or len(have) >= len(want):
            continue
        objs = [i for i, q in enumerate(have) if record(q.get('ty')) is not None]
        if len(objs) != 1:
            continue
        o = objs[0]
        rpath, fields = record(have[o]['ty'])
        rest = [(i, q.get('name') if q.get('k') == 'Bind' else None) for i, q in enumerate(have) if i != o]
        if any(nm is None for _, nm in rest):
            continue
        pool = {}
        for i, nm in rest:
            pool.setdefault(_key(nm), []).append(('p', i))
        for fname, fty in fields:
            pool.setdefault(_key(fname), []).append(('f', fname, fty))
        if any(len(v) != 1 for v in pool.values()) or sorted(pool) != sorted(_key(w) for w in want) or len(set(_key(w) for w in want)) != len(want):
            continue
        slots = [pool[_key(w)][0] for w in want]
        if 'self' in want and slots[0] != ('p', 0):
            continue
        # the function in the shape the tables know
        params, inputs, lits = [], [], []
        old_inputs = fn.get('inputs') or []
        for w, s in zip(want, slots):
            if s[0] == 'p':
                params.append(have[s[1]])
                inputs.append(old_inputs[s[1]] if s[1] < len(old_inputs) else have[s[1]].get('ty'))
            else:
                nid = _fresh()
                params.append({'k': 'Bind', 'name': s[1], 'id': nid, 'mode': 'BindingMode(No, Not)', 'ty': s[2]})
                inputs.append(s[2])
                lits.append([s[1], {'k': 'Local', 'name': s[1], 'id': nid, 'ty': s[2], 'sp': fn.get('sp')}])
        order = [f for f, _ in fields]
        lits.sort(key=lambda x: order.index(x[0]))
        rebuild = {'k': 'Let', 'pat': have[o], 'sp': fn.get('sp'), 'synthetic': 'param-object',
                   'init': {'k': 'Struct', 'res': {'k': 'Def', 'dk': 'Struct', 'path': rpath}, 'fields': lits, 'ty': rpath, 'sp': fn.get('sp')}}
        fn['params'] = params
        if old_inputs:
            fn['inputs'] = inputs
        fn['hir'] = dict(fn['hir'], stmts=[rebuild] + list(fn['hir'].get('stmts') or []))
        plans[k] = (o, slots, order)
    if not plans:
        return {}
    # a trait method whose impls were all reshaped the same way is called through the trait's path
    by_decl = {}
    for fn in facts['fns']:
        k = S.norm_path(fn['path'])
        if fn.get('impl_trait'):
            by_decl.setdefault(S.norm_path(fn['impl_trait']) + '::' + k.rsplit('::', 1)[-1], []).append(plans.get(k))
    for decl, ps in by_decl.items():
        if ps and all(p is not None for p in ps) and all((p[0], [s[:2] for s in p[1]]) == (ps[0][0], [s[:2] for s in ps[0][1]]) for p in ps):
            plans.setdefault(decl, ps[0])

    def fix(n):
        if isinstance(n, dict):
            k = n.get('k')
            if (k == 'Call' and isinstance(n.get('f'), dict) and 'args' in n) or (k == 'MethodCall' and 'recv' in n and 'args' in n):
                plan = plans.get(S.norm_path(H.callee_path(n) or '')) or plans.get(S.norm_path(H.callee_decl(n) or ''))
                if plan is not None:
                    o, slots, order = plan
                    args = H.call_args(n)
                    if len(args) == 1 + sum(1 for s in slots if s[0] == 'p'):
                        obj, comp = args[o], None
                        inner = obj
                        while isinstance(inner, dict) and inner.get('k') == 'AddrOf':
                            inner = inner['e']
                        if inner.get('k') == 'Struct' and inner.get('base') is None and sorted(f for f, _ in inner.get('fields', [])) == sorted(order):
                            comp = {f: e for f, e in inner['fields']}
                        elif _place(obj):
                            comp = {s[1]: {'k': 'Field', 'e': obj, 'name': s[1], 'ty': s[2], 'sp': obj.get('sp')} for s in slots if s[0] == 'f'}
                        if comp is not None:
                            new = [args[s[1]] if s[0] == 'p' else comp[s[1]] for s in slots]
                            if k == 'MethodCall':
                                n['recv'], n['args'] = new[0], new[1:]
                            else:
                                n['args'] = new
            for v in list(n.values()):
                fix(v)
        elif isinstance(n, list):
            for v in n:
                fix(v)
    fix(facts['fns'])
    meta['param_objects'] = {k: [list(s[:2]) for s in v[1]] for k, v in plans.items()}
    return meta['param_objects']


def moved_methods(facts, sigs, by, missing, new, taken):
    """Vocabulary functions that are gone while exactly one unknown function of the same name, in the same top-level module and
    with the same result, takes a sub-list of their parameters (matched by type, each type once): {new path: (old path,
    [index in the new list or None, per old parameter])}."""
    out = {}
    for m in missing:
        w = sigs[m]
        if w.get('impl_trait') or not w.get('params') or None in w['params']:
            continue
        wt = [_bare(_unref(t)) for t in (w.get('inputs') or [])]
        if len(set(wt)) != len(wt) or len(wt) != len(w['params']):
            continue
        cs = []
        for n in new:
            fn = by[n]
            if n in taken or fn.get('impl_trait') or H.is_public(fn) or n.split('::')[0] != m.split('::')[0] or fn.get('mac') or fn.get('cfg_test'):
                continue
            if _bare(fn.get('output')) != _bare(w.get('output')):
                continue
            nt = [_bare(_unref(t)) for t in (fn.get('inputs') or [])]
            if not nt or len(set(nt)) != len(nt) or not set(nt) <= set(wt) or len(nt) != len(fn.get('params', [])):
                continue
            if any(q.get('k') != 'Bind' for q in fn['params']):
                continue
            if nt == wt:
                continue  # same list in the same order: a plain rename, handled by the caller
            cs.append((n, [nt.index(t) if t in nt else None for t in wt]))
        same = [c for c in cs if c[0].rsplit('::', 1)[-1] == m.rsplit('::', 1)[-1]]
        cs = same or cs  # it may have been renamed on the way; then it must be the only function of that shape
        if len(cs) == 1:
            out[cs[0][0]] = (m, cs[0][1])
    seen = {}
    for n, (m, _) in out.items():
        seen.setdefault(n, []).append(m)
    return {n: v for n, v in out.items() if len(seen[n]) == 1}


def apply_moved_methods(facts, sigs, moved):
    """Put the functions found by moved_methods back under their old path, parameter list and argument lists."""
    if not moved:
        return
    fns = {S.norm_path(f['path']): f for f in facts['fns']}
    plans = {}
    for n, (m, idx) in moved.items():
        fn = fns[n]
        w = sigs[m]
        have = fn['params']
        params, inputs = [], []
        renames = {}
        for i, j in enumerate(idx):
            if j is None:
                params.append({'k': 'Bind', 'name': w['params'][i], 'id': _fresh(), 'mode': 'BindingMode(No, Not)', 'ty': w['inputs'][i]})
                inputs.append(w['inputs'][i])
            else:
                q = dict(have[j])
                if q.get('name') != w['params'][i]:
                    renames[q['id']] = w['params'][i]
                    q['name'] = w['params'][i]
                params.append(q)
                inputs.append(fn['inputs'][j])
        fn['params'], fn['inputs'] = params, inputs
        if fn.get('impl_self') is not None:
            fn['impl_self'] = m.rsplit('::', 1)[0]

        def ren(o):
            if isinstance(o, dict):
                if o.get('k') in ('Local', 'Bind') and o.get('id') in renames:
                    o['name'] = renames[o['id']]
                for v in o.values():
                    ren(v)
            elif isinstance(o, list):
                for v in o:
                    ren(v)
        if renames:
            ren(fn.get('hir'))
            for f2 in facts['fns']:
                if S.norm_path(f2['path']).startswith(n + '::{closure'):
                    ren(f2.get('hir'))
        plans[n] = (m, idx, w)

    def fix(n, caller):
        if isinstance(n, dict):
            k = n.get('k')
            if (k == 'Call' and isinstance(n.get('f'), dict) and 'args' in n) or (k == 'MethodCall' and 'recv' in n and 'args' in n):
                plan = plans.get(S.norm_path(H.callee_path(n) or ''))
                if plan is not None:
                    m, idx, w = plan
                    args = H.call_args(n)
                    if len(args) == sum(1 for j in idx if j is not None):
                        new = []
                        for i, j in enumerate(idx):
                            if j is not None:
                                new.append(args[j])
                                continue
                            # the dropped parameter was not used; the tables still show the argument the pinned tree passes, which is
                            # the caller's own parameter of that name and type when it has one
                            cand = [q for q in caller.get('params', []) if q.get('k') == 'Bind' and q.get('name') == w['params'][i]
                                    and _bare(_unref(q.get('ty'))) == _bare(_unref(w['inputs'][i]))]
                            if len(cand) != 1:
                                new = None
                                break
                            new.append({'k': 'Local', 'name': cand[0]['name'], 'id': cand[0]['id'], 'ty': cand[0].get('ty'), 'sp': n.get('sp')})
                        if new is not None:
                            if k == 'MethodCall':
                                n['recv'], n['args'] = new[0], new[1:]
                            else:
                                n['args'] = new
            for v in list(n.values()):
                fix(v, caller)
        elif isinstance(n, list):
            for v in n:
                fix(v, caller)
    for f in facts['fns']:
        if 'hir' in f:
            root = f
            p = S.norm_path(f['path'])
            if '::{closure' in p:
                root = fns.get(p.split('::{closure')[0], f)
            fix(f['hir'], root)
