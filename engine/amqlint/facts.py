"""Fact extraction: runs the rustc_private driver over /repo's *current working tree* under
`cargo +nightly check` and caches the JSON by a hash of the tree + driver + configuration."""
import fcntl
import hashlib
import json
import os
import shutil
import subprocess
import sys
import time

VERIF = os.path.dirname(os.path.dirname(os.path.dirname(os.path.abspath(__file__))))
REPO = os.environ.get('AMQ_REPO', '/repo')
CACHE = os.path.join(VERIF, '.cache')
DRIVER_DIR = os.path.join(VERIF, 'engine', 'factsdriver')
DRIVER = os.path.join(DRIVER_DIR, 'target', 'release', 'factsdriver')

CONFIGS = {
    'default': [],
    'notls': ['--no-default-features'],
}


class FactsError(Exception):
    pass


def tree_hash(repo):
    h = hashlib.sha256()
    files = []
    for root, dirs, fs in os.walk(repo):
        dirs[:] = sorted(d for d in dirs if d not in ('target', '.git'))
        for f in sorted(fs):
            files.append(os.path.join(root, f))
    for p in files:
        rel = os.path.relpath(p, repo)
        if not (rel.startswith('src') or rel in ('Cargo.toml', 'Cargo.lock', 'build.rs')):
            continue
        h.update(rel.encode())
        h.update(b'\0')
        with open(p, 'rb') as fh:
            h.update(fh.read())
        h.update(b'\0')
    return h.hexdigest()


def driver_hash():
    h = hashlib.sha256()
    for root, dirs, fs in os.walk(os.path.join(DRIVER_DIR, 'src')):
        for f in sorted(fs):
            with open(os.path.join(root, f), 'rb') as fh:
                h.update(fh.read())
    return h.hexdigest()[:16]


def ensure_driver():
    stamp = os.path.join(DRIVER_DIR, 'target', 'release', '.srchash')
    want = driver_hash()
    have = None
    if os.path.exists(stamp) and os.path.exists(DRIVER):
        have = open(stamp).read().strip()
    if have == want:
        return
    env = dict(os.environ, CARGO_NET_OFFLINE='true')
    r = subprocess.run(['cargo', '+nightly', 'build', '--release', '--offline'], cwd=DRIVER_DIR, env=env,
                       stdout=subprocess.PIPE, stderr=subprocess.STDOUT, text=True)
    if r.returncode != 0 or not os.path.exists(DRIVER):
        raise FactsError('driver build failed:\n' + r.stdout[-4000:])
    with open(stamp, 'w') as fh:
        fh.write(want)


def sysroot():
    r = subprocess.run(['rustc', '+nightly', '--print', 'sysroot'], stdout=subprocess.PIPE, text=True)
    return r.stdout.strip()


def extract(config='default', repo=None, target_dir=None, out=None):
    """Run the driver over `repo` (default /repo). Returns (facts, info)."""
    repo = repo or REPO
    os.makedirs(CACHE, exist_ok=True)
    lockname = 'lock-' + config if target_dir is None else 'lock-' + hashlib.sha256(target_dir.encode()).hexdigest()[:12]
    lock = open(os.path.join(CACHE, lockname), 'w')
    fcntl.flock(lock, fcntl.LOCK_EX)
    try:
        ensure_driver()
        th = tree_hash(repo)
        dh = driver_hash()
        key = '%s-%s-%s' % (th[:24], dh, config)
        cached = os.path.join(CACHE, 'facts-%s.json' % key)
        info = {'tree_hash': th, 'config': config, 'cache_key': key, 'extracted_now': False, 'repo': repo}
        if out is None and os.path.exists(cached) and not os.environ.get('VERIF_NO_CACHE'):
            with open(cached) as fh:
                return json.load(fh), info
        t0 = time.time()
        tdir = target_dir or os.path.join(CACHE, 'target-' + config)
        os.makedirs(tdir, exist_ok=True)
        # cargo's freshness cache would skip the wrapper: drop the crate's fingerprints
        fp = os.path.join(tdir, 'debug', '.fingerprint')
        if os.path.isdir(fp):
            for d in os.listdir(fp):
                if d.startswith('amiquip-'):
                    shutil.rmtree(os.path.join(fp, d), ignore_errors=True)
        nonce = '%d-%d' % (os.getpid(), int(time.time() * 1000))
        outp = out or cached
        tmp_out = outp + '.run'
        if os.path.exists(tmp_out):
            os.remove(tmp_out)
        env = dict(os.environ)
        env.update({
            'CARGO_NET_OFFLINE': 'true',
            'LD_LIBRARY_PATH': sysroot() + '/lib',
            'RUSTFLAGS': '-Zmir-opt-level=0 -Awarnings',
            'RUSTC_WORKSPACE_WRAPPER': DRIVER,
            'CARGO_TARGET_DIR': tdir,
            'AMQ_FACTS_OUT': tmp_out,
            'AMQ_FACTS_NONCE': nonce,
            'AMQ_FACTS_CRATE': 'amiquip',
        })
        env.pop('RUSTC_WRAPPER', None)
        cmd = ['cargo', '+nightly', 'check', '--offline', '--lib'] + CONFIGS[config]
        r = subprocess.run(cmd, cwd=repo, env=env, stdout=subprocess.PIPE, stderr=subprocess.STDOUT, text=True)
        if r.returncode != 0:
            raise FactsError('cargo check failed (config %s):\n%s' % (config, r.stdout[-6000:]))
        if not os.path.exists(tmp_out):
            raise FactsError('driver produced no fact file (config %s):\n%s' % (config, r.stdout[-3000:]))
        with open(tmp_out) as fh:
            facts = json.load(fh)
        if facts['meta'].get('nonce') != nonce:
            raise FactsError('stale fact file: nonce mismatch')
        os.replace(tmp_out, outp)
        info['extracted_now'] = True
        info['extract_s'] = round(time.time() - t0, 2)
        # keep the cache small
        olds = sorted((f for f in os.listdir(CACHE) if f.startswith('facts-') and f.endswith('.json')),
                      key=lambda f: os.path.getmtime(os.path.join(CACHE, f)))
        for f in olds[:-8]:
            try:
                os.remove(os.path.join(CACHE, f))
            except OSError:
                pass
        return facts, info
    finally:
        fcntl.flock(lock, fcntl.LOCK_UN)
        lock.close()
        if target_dir is not None:
            # a scratch target directory is used by one run only: its lock file would otherwise stay behind for ever
            try:
                os.remove(os.path.join(CACHE, lockname))
            except OSError:
                pass


if __name__ == '__main__':
    cfg = sys.argv[1] if len(sys.argv) > 1 else 'default'
    f, info = extract(cfg)
    print(json.dumps(info), len(f['fns']), 'fns')
