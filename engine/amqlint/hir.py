"""Resolved-HIR helpers: normalisation, canonical term rendering, traversal, effect lists.

A *term* is the canonical string of an expression after erasing value-preserving
conversions, logging and syntactic wrappers. Rules compare terms with hand-written oracle
tables; nothing here looks at source text or line numbers.
"""
import re
import json

LOG_MACROS = {"trace", "debug", "info", "warn", "error", "log", "println", "eprintln", "print", "eprint"}

# value-preserving conversions erased by normalisation (callee path prefix match)
ERASE_METHODS = (
    "std::convert::Into::into",
    "std::convert::From::from",
    "std::clone::Clone::clone",
    "std::string::ToString::to_string",
    "std::borrow::ToOwned::to_owned",
    "std::convert::AsRef::as_ref",
    "std::ops::Deref::deref",
    "std::ops::DerefMut::deref_mut",
    "std::borrow::Borrow::borrow",
    "std::string::String::as_str",
    "std::boxed::Box::<T>::new",
    "std::iter::IntoIterator::into_iter",
    # borrowed views of an Option / Result / String: the same value for every test and projection made on it
    "std::option::Option::<T>::as_ref",
    "std::option::Option::<T>::as_mut",
    "std::option::Option::<T>::as_deref",
    "std::option::Option::<T>::as_deref_mut",
    "std::result::Result::<T, E>::as_ref",
    "std::result::Result::<T, E>::as_mut",
    "std::string::String::as_mut_str",
    "std::borrow::Cow::<'_, B>::into_owned",
)


def strip_generics(path):
    """io_loop::channel_slots::ChannelSlots::<T>::insert -> ...ChannelSlots::insert"""
    out = []
    depth = 0
    i = 0
    while i < len(path):
        c = path[i]
        if c == '<':
            # keep leading "<T as Trait>::" qualified paths intact at depth 0 start
            if i == 0:
                # qualified path: find matching '>' and keep as is
                d = 0
                j = i
                while j < len(path):
                    if path[j] == '<':
                        d += 1
                    elif path[j] == '>':
                        d -= 1
                        if d == 0:
                            break
                    j += 1
                out.append(path[i:j + 1])
                i = j + 1
                continue
            depth += 1
            # drop preceding '::' of turbofish
            if len(out) >= 2 and out[-1] == ':' and out[-2] == ':':
                out.pop()
                out.pop()
        elif c == '>':
            depth -= 1
        elif depth == 0:
            out.append(c)
        i += 1
    return ''.join(out)


def norm_path(p):
    p = strip_generics(p)
    for pre in ('std::prelude::v1::', 'core::prelude::v1::'):
        if p.startswith(pre):
            p = p[len(pre):]
    if p.startswith('core::'):
        p = 'std::' + p[len('core::'):]
    return p


def last_seg(path, n=1):
    p = strip_generics(path)
    if p.startswith('<'):
        # <T as Trait>::m
        m = re.match(r'<(.*) as (.*)>::(.*)', p)
        if m:
            return m.group(3)
    return '::'.join(p.split('::')[-n:])


def is_log(node):
    return isinstance(node, dict) and node.get('k') == 'MacroCall' and node.get('name') in LOG_MACROS


def children(node):
    """Yield (role, child) for every child expression/pattern/block node."""
    if not isinstance(node, dict):
        return
    for key, v in node.items():
        if isinstance(v, dict):
            yield key, v
        elif isinstance(v, list):
            for i, x in enumerate(v):
                if isinstance(x, dict):
                    yield key, x
                elif isinstance(x, list):
                    for y in x:
                        if isinstance(y, dict):
                            yield key, y


def walk(node, pre=None):
    """Pre-order traversal over all dict nodes."""
    stack = [node]
    while stack:
        n = stack.pop()
        if isinstance(n, dict):
            yield n
            kids = [c for _, c in children(n)]
            stack.extend(reversed(kids))


def walk_outside_closures(node):
    """Pre-order traversal that does not enter closure bodies (they run when called, not here)."""
    stack = [node]
    first = True
    while stack:
        n = stack.pop()
        if isinstance(n, dict):
            yield n
            if n.get('k') == 'Closure' and not first:
                continue
            first = False
            kids = [c for _, c in children(n)]
            stack.extend(reversed(kids))


_PURE_METHODS = {'len', 'is_empty', 'is_ok', 'is_err', 'is_some', 'is_none', 'clone', 'as_str', 'to_string', 'elapsed', 'kind', 'as_ref', 'name',
                 'to_owned', 'as_bytes', 'get', 'contains_key', 'first', 'last', 'iter', 'keys', 'values', 'count', 'unwrap_or', 'unwrap_or_default', 'map', 'copied', 'cloned'}


_ARITH = {'Add', 'Sub', 'Mul', 'Div', 'Rem', 'Shl', 'Shr', '+', '-', '*', '/', '%', '<<', '>>'}


def pure_expr(e, fns=None, is_new_helper=None, depth=0):
    """No assignment, no control transfer, no indexing, only calls known to have no effect (and, through helpers the
    oracle vocabulary does not know, only such bodies): evaluating it changes nothing."""
    for n in walk(e):
        k = n.get('k')
        if k in ('Assign', 'AssignOp', 'Ret', 'Break', 'Continue', 'Loop', 'Try', 'Closure', 'Index'):
            return False
        if k == 'MacroCall' and n.get('name') not in LOG_MACROS and n.get('name') not in ('format', 'concat', 'stringify'):
            return False
        if k in ('Call', 'MethodCall'):
            cp = norm_path(callee_path(n) or '')
            if k == 'Call' and n['f'].get('dk', '').startswith('Ctor'):
                continue
            tgt = (fns or {}).get(cp)
            if tgt is not None and 'hir' in tgt and is_new_helper is not None and is_new_helper(cp) and depth < 2 and pure_expr(tgt['hir'], fns, is_new_helper, depth + 1):
                continue
            if tgt is not None and 'hir' in tgt and depth < 2 and not any('&mut' in (t_ or '') for t_ in (tgt.get('inputs') or [])) and _accessor_body(tgt['hir']):
                continue  # a crate function that only reads a field of its argument (an accessor), whoever wrote it
            if k == 'MethodCall' and n.get('name') in _PURE_METHODS and not (tgt is not None):
                continue
            return False
    return True


def _accessor_body(b):
    """the body is a chain of field reads, derefs, borrows and copies of one local"""
    b = peel(b)
    while isinstance(b, dict):
        k = b.get('k')
        if k == 'Block' and not b.get('stmts') and b.get('expr') is not None:
            b = peel(b['expr'])
        elif k in ('Field', 'AddrOf') or (k == 'Unary' and b.get('op') == 'Deref'):
            b = peel(b['e'])
        elif k == 'MethodCall' and b.get('name') in ('clone', 'as_ref', 'as_str', 'borrow', 'get', 'len', 'is_empty', 'is_some', 'is_none') and len(call_args(b)) == 1 \
                and not norm_path(callee_path(b) or '').startswith(('crate::',)) and (callee_path(b) or '').startswith(('std::', 'core::', 'alloc::')):
            b = peel(b['recv'])
        elif k == 'Local':
            return True
        else:
            return False
    return False


def log_stmt(e, fns=None, is_new_helper=None):
    """A statement that only decides what to log: a logging macro, or a pure `if`/`match` over comparisons whose leaves are
    logging macros. Its value is discarded and it has no effect, so readers skip it."""
    if is_log(e):
        return True
    e = peel(e) if isinstance(e, dict) else e
    if not isinstance(e, dict) or e.get('k') not in ('If', 'Match', 'Block'):
        return False
    if e.get('ty') not in (None, '()'):
        return False
    has_log = False
    for n in walk(e):
        if is_log(n):
            has_log = True
        if n.get('k') in ('Binary', 'Bin') and n.get('op') in _ARITH:
            return False
    return has_log and pure_expr(e, fns, is_new_helper)


def log_only_locals(body, fns=None, is_new_helper=None):
    """Ids of `let x = <pure expression>` locals that are only ever mentioned inside logging macros (or statements that
    only decide what to log): neither the local nor its initialiser can influence behaviour, so readers skip the statement."""
    uses = {}
    lets = {}

    def rec(n, in_log):
        if not isinstance(n, dict):
            return
        k = n.get('k')
        if k == 'MacroCall' and n.get('name') in LOG_MACROS:
            in_log = True
        if k in ('Semi', 'ExprStmt') and not in_log and isinstance(n.get('e'), dict) and log_stmt(n['e'], fns, is_new_helper):
            in_log = True
        if k == 'Local':
            uses.setdefault(n['id'], []).append(in_log)
        if k == 'Let' and n.get('pat', {}).get('k') == 'Bind' and n.get('init') is not None and n.get('els') is None:
            lets[n['pat']['id']] = n['init']
        for _, c in children(n):
            rec(c, in_log)
    rec(body, False)
    out = set()
    for lid, init in lets.items():
        us = uses.get(lid, [])
        if all(us) and pure_expr(init, fns, is_new_helper):
            out.add(lid)
    return out


def find(node, pred):
    return [n for n in walk(node) if pred(n)]


def is_public(item):
    """declared `pub` and reachable from outside the crate (a `pub fn` of a private module, or of a type that is never
    exported, is not)"""
    return item.get('vis') == 'pub' and item.get('reachable') is not False


def callee_path(node):
    """Resolved callee def-path of a Call/MethodCall node (impl item if resolved), else None."""
    k = node.get('k')
    if k == 'MethodCall':
        return node.get('resolved') or node.get('path')
    if k == 'Call':
        f = node['f']
        if f.get('k') == 'Def':
            return f.get('resolved') or f.get('path')
    return None


def callee_decl(node):
    """Declared (trait-level) callee path."""
    k = node.get('k')
    if k == 'MethodCall':
        return node.get('path')
    if k == 'Call':
        f = node['f']
        if f.get('k') == 'Def':
            return f.get('path')
    return None


def call_args(node):
    """All argument expressions including the receiver first."""
    if node.get('k') == 'MethodCall':
        return [node['recv']] + node['args']
    return node['args']


def peel(node):
    """Strip wrappers that do not change the value: &, *, erased conversions, blocks with only a
    tail expression, casts are kept."""
    while True:
        k = node.get('k')
        if k == 'AddrOf':
            node = node['e']
            continue
        if k == 'Unary' and node.get('op') == 'Deref':
            node = node['e']
            continue
        if k == 'Block' and not node['stmts'] and node.get('expr'):
            node = node['expr']
            continue
        if k in ('MethodCall', 'Call'):
            cp = callee_decl(node) or ''
            base = strip_generics(cp)
            if any(base == strip_generics(e) or base.startswith(strip_generics(e)) for e in ERASE_METHODS):
                args = call_args(node)
                if len(args) == 1:
                    node = args[0]
                    continue
        return node


def lit_str(v):
    t = v['t']
    if t == 'str':
        return '"%s"' % v['v']
    if t == 'bytes':
        return 'b' + repr(bytes(v['v']))[1:]
    if t == 'bool':
        return 'true' if v['v'] else 'false'
    if t == 'char':
        return "'%s'" % v['v']
    return str(v['v'])


def res_path(res):
    if res.get('k') == 'Def':
        return norm_path(res['path'])
    if res.get('k') == 'Local':
        return res['name']
    return res.get('dbg', '?')


_INTS = ('u8', 'u16', 'u32', 'u64', 'u128', 'usize', 'i8', 'i16', 'i32', 'i64', 'i128', 'isize')


def num_limit(node):
    """`u16::max_value()` and `u16::MAX` (likewise MIN) are one canonical term `u16::MAX`, typed."""
    k = node.get('k')
    p = None
    if k == 'Call' and not node.get('args') and node['f'].get('k') == 'Def':
        p = node['f'].get('path') or ''
        m = re.match(r'^(?:core|std)::num::<impl (\w+)>::(max|min)_value$', p)
        if m and m.group(1) in _INTS:
            return '%s::%s' % (m.group(1), m.group(2).upper())
    if k == 'Def':
        m = re.match(r'^(?:core|std)::num::<impl (\w+)>::(MAX|MIN)$', node.get('path') or '')
        if m and m.group(1) in _INTS:
            return '%s::%s' % (m.group(1), m.group(2))
    return None


def term(node, env=None, depth=0):
    """Canonical string of an expression. env maps local ids to replacement terms."""
    if node is None:
        return '()'
    node = peel(node)
    k = node.get('k')
    if k == 'Local':
        if env is not None and node['id'] in env:
            return env[node['id']]
        return node['name']
    if num_limit(node):
        return num_limit(node)
    if k == 'Def':
        return norm_path(node.get('resolved') or node['path'])
    if k == 'Lit':
        return lit_str(node['v'])
    if k == 'Field':
        return term(node['e'], env) + '.' + node['name']
    if k == 'Struct':
        fs = ', '.join('%s: %s' % (n, term(e, env)) for n, e in sorted(node['fields'], key=lambda x: x[0]))
        base = ''
        if 'base' in node:
            base = ', ..' + term(node['base'], env)
        return '%s{%s%s}' % (res_path(node['res']), fs, base)
    if k == 'Call':
        f = node['f']
        fn = term(f, env)
        return '%s(%s)' % (fn, ', '.join(term(a, env) for a in node['args']))
    if k == 'MethodCall':
        p = norm_path(node.get('resolved') or node.get('path') or node['name'])
        return '%s(%s)' % (p, ', '.join(term(a, env) for a in call_args(node)))
    if k == 'Tup':
        return '(%s)' % ', '.join(term(a, env) for a in node['es'])
    if k == 'Array':
        return '[%s]' % ', '.join(term(a, env) for a in node['es'])
    if k == 'Binary':
        return '(%s %s %s)' % (term(node['l'], env), node['op'], term(node['r'], env))
    if k == 'Unary':
        op = {'Not': '!', 'Neg': '-', 'Deref': '*'}.get(node['op'], node['op'])
        return '%s%s' % (op, term(node['e'], env))
    if k == 'Cast':
        return '(%s as %s)' % (term(node['e'], env), node['to'])
    if k == 'Try':
        return term(node['e'], env) + '?'
    if k == 'MacroCall':
        if node['name'] in LOG_MACROS:
            return 'log!()'
        return '%s!(%s)' % (node['name'], ', '.join(term(a, env) for a in node['leaves']))
    if k == 'Closure':
        ps = ', '.join(pat_term(p) for p in node['params'])
        return '|%s| %s' % (ps, term(node['body'], env))
    if k == 'Index':
        return '%s[%s]' % (term(node['e'], env), term(node['i'], env))
    if k == 'If':
        s = 'if %s {%s}' % (term(node['cond'], env), term(node['then'], env))
        if node.get('else') is not None:
            s += ' else {%s}' % term(node['else'], env)
        return s
    if k == 'LetExpr':
        return 'let %s = %s' % (pat_term(node['pat']), term(node['init'], env))
    if k == 'Match':
        arms = '; '.join('%s%s => %s' % (pat_term(a['pat']), (' if ' + term(a['guard'], env)) if a.get('guard') else '', term(a['body'], env)) for a in node['arms'])
        return 'match %s {%s}' % (term(node['scrut'], env), arms)
    if k == 'Block':
        parts = []
        for s in node['stmts']:
            sk = s['k']
            if sk == 'Let':
                parts.append('let %s = %s' % (pat_term(s['pat']), term(s.get('init'), env) if s.get('init') else '_'))
            elif sk in ('Semi', 'ExprStmt'):
                if is_log(s['e']):
                    continue
                parts.append(term(s['e'], env))
        if node.get('expr') is not None:
            parts.append(term(node['expr'], env))
        return '{' + '; '.join(parts) + '}'
    if k == 'Assign':
        return '%s = %s' % (term(node['l'], env), term(node['r'], env))
    if k == 'AssignOp':
        return '%s %s %s' % (term(node['l'], env), node['op'], term(node['r'], env))
    if k == 'Ret':
        return 'return %s' % (term(node['e'], env) if node.get('e') else '')
    if k == 'Break':
        return 'break'
    if k == 'Continue':
        return 'continue'
    if k == 'Loop':
        return 'loop[%s] %s' % (node['src'], term(node['body'], env))
    if k == 'Repeat':
        return '[%s; _]' % term(node['e'], env)
    return '<%s>' % k


def pat_term(p, anon=False):
    """Canonical pattern string; with anon=True plain bindings print as `_` (rename-proof)."""
    k = p.get('k')
    if k == 'Wild':
        return '_'
    if k == 'Bind':
        if anon:
            return pat_term(p['sub'], anon) if p.get('sub') else '_'
        s = p['name']
        if p.get('sub'):
            s += ' @ ' + pat_term(p['sub'], anon)
        return s
    if k == 'PTupleStruct':
        inner = [pat_term(x, anon) for x in p['pats']]
        if p.get('dd') is not None:
            inner.insert(p['dd'], '..')
        return '%s(%s)' % (res_path(p['res']), ', '.join(inner))
    if k == 'PStruct':
        fs = ', '.join('%s: %s' % (n, pat_term(x, anon)) for n, x in p['fields'])
        if p.get('rest'):
            fs += (', ' if fs else '') + '..'
        return '%s{%s}' % (res_path(p['res']), fs)
    if k == 'POr':
        return ' | '.join(pat_term(x, anon) for x in p['pats'])
    if k == 'PTuple':
        inner = [pat_term(x, anon) for x in p['pats']]
        if p.get('dd') is not None:
            inner.insert(p['dd'], '..')
        return '(%s)' % ', '.join(inner)
    if k == 'PLit':
        return ('-' if p.get('neg') else '') + lit_str(p['v'])
    if k == 'PPath':
        return res_path(p['res'])
    if k in ('PRef', 'PBox', 'PDeref'):
        return '&' + pat_term(p['p'], anon)
    if k == 'PGuard':
        return pat_term(p['p'], anon) + ' if ' + term(p['g'])
    return '<%s:%s>' % (k, p.get('dbg', ''))


def pat_alternatives(p):
    """Flatten or-patterns, nested ones included: `V(n, x @ (A | B))` is `V(n, x @ A) | V(n, x @ B)`."""
    k = p.get('k')
    if k == 'POr':
        out = []
        for x in p['pats']:
            out.extend(pat_alternatives(x))
        return out
    if k in ('PTupleStruct', 'PTuple') and p.get('pats'):
        combos = [[]]
        for sp in p['pats']:
            alts = pat_alternatives(sp)
            combos = [c + [a] for c in combos for a in alts]
            if len(combos) > 256:
                return [p]
        return [p] if len(combos) == 1 else [dict(p, pats=c) for c in combos]
    if k == 'Bind' and p.get('sub'):
        alts = pat_alternatives(p['sub'])
        return [p] if len(alts) == 1 else [dict(p, sub=a) for a in alts]
    if k in ('PRef', 'PBox', 'PDeref') and p.get('p'):
        alts = pat_alternatives(p['p'])
        return [p] if len(alts) == 1 else [dict(p, p=a) for a in alts]
    return [p]


def pat_bindings(p):
    return [n for n in walk(p) if n.get('k') == 'Bind']


def block_stmts(node):
    """Statements of a block-like expression as a flat list of expression nodes / Let dicts,
    logging removed; the tail expression is appended as {'k':'Tail','e':..}."""
    if node.get('k') != 'Block':
        return [{'k': 'Tail', 'e': node}]
    out = []
    for s in node['stmts']:
        if s['k'] in ('Semi', 'ExprStmt'):
            if is_log(s['e']):
                continue
            out.append(s)
        elif s['k'] == 'Let':
            out.append(s)
    if node.get('expr') is not None:
        if not is_log(node['expr']):
            out.append({'k': 'Tail', 'e': node['expr']})
    return out


def desugar_for(node):
    """Recognise the `for pat in iter { body }` desugaring; returns (pat, iter, body) or None."""
    if node.get('k') != 'Match' or node.get('src') != 'ForLoop':
        return None
    scrut = node['scrut']
    it = scrut['args'][0] if scrut.get('k') == 'Call' and scrut.get('args') else scrut
    try:
        loop = node['arms'][0]['body']
        inner = loop['body']['stmts'][0]['e']
        some_arm = [a for a in inner['arms'] if a['pat'].get('k') in ('PTupleStruct', 'PStruct') and res_path(a['pat']['res']).endswith('Some')][0]
        pat = some_arm['pat']
        if pat['k'] == 'PTupleStruct':
            pat = pat['pats'][0]
        else:
            pat = pat['fields'][0][1]
        return pat, it, some_arm['body']
    except (KeyError, IndexError, TypeError):
        return None


def ancestors(root, pred):
    """All (chain, node) with pred(node); chain = [(ancestor, role-in-ancestor), ...] root first."""
    out = []

    def rec(n, chain):
        if pred(n):
            out.append((list(chain), n))
        for role, c in children(n):
            chain.append((n, role))
            rec(c, chain)
            chain.pop()
    rec(root, [])
    return out


def by_span(root, sp, kinds=None):
    return [(ch, n) for ch, n in ancestors(root, lambda n: n.get('sp') == sp and (kinds is None or n.get('k') in kinds))]


def branch_guards(chain):
    """Structural guards of a node from its ancestor chain: [(cond_node, polarity)] for If
    ancestors (True = then-branch), [(match_node, arm_index)] for Match ancestors."""
    out = []
    for anc, role in chain:
        k = anc.get('k')
        if k == 'If':
            if role == 'then':
                out.append(('if', anc, True))
            elif role == 'else':
                out.append(('if', anc, False))
    return out


def local_id(n):
    n = peel(n)
    if n.get('k') == 'Local':
        return n['id']
    return None


def same_place(a, b):
    """Two expressions denote the same place: same local, or same field path of the same local."""
    a = peel(a)
    b = peel(b)
    if a.get('k') != b.get('k'):
        return False
    if a.get('k') == 'Local':
        return a['id'] == b['id']
    if a.get('k') == 'Field':
        return a['name'] == b['name'] and same_place(a['e'], b['e'])
    if a.get('k') == 'Def':
        return a.get('path') == b.get('path')
    return False


def format_template(node):
    """Best-effort decoding of a format!-family MacroCall's template into a `{}`-style string.
    Nightly lowers format_args! to a byte program: n (1..127) = n literal bytes follow, 0xC0 = an
    argument with default formatting, other bytes >= 0x80 = an argument with options, 0 = end."""
    for t in node.get('tmpl', []):
        if t['t'] == 'bytes':
            b = t['v']
            out = []
            i = 0
            while i < len(b) and b[i] != 0:
                c = b[i]
                if c < 0x80:
                    out.append(bytes(b[i + 1:i + 1 + c]).decode('utf-8', 'replace'))
                    i += 1 + c
                elif c == 0xC0:
                    out.append('{}')
                    i += 1
                else:
                    out.append('{?}')
                    i += 1
                    # options follow; their length is not modelled: stop decoding
                    return ''.join(out) + '<opts>'
            return ''.join(out)
    strs = [t['v'] for t in node.get('tmpl', []) if t['t'] == 'str']
    if strs:
        return '{}'.join(strs)
    return None


def callee_name(node):
    """Resolved callee path with a blanket impl's `T` replaced by the call's Self type."""
    p = norm_path(callee_path(node) or callee_decl(node) or '?')
    if p.startswith('<T as ') or p.startswith('<Self as '):
        ga = node.get('gargs') if node.get('k') == 'MethodCall' else (node.get('f') or {}).get('gargs')
        if ga:
            p = '<' + norm_path(ga[0]) + p[p.index(' as '):]
    return p


def _generic_args(ty):
    """top-level generic arguments of `Path<A, B>`"""
    if '<' not in ty or not ty.endswith('>'):
        return []
    inner = ty[ty.index('<') + 1:-1]
    out, depth, cur = [], 0, ''
    for ch in inner:
        if ch in '<([':
            depth += 1
        elif ch in '>)]':
            depth -= 1
        if ch == ',' and depth == 0:
            out.append(cur.strip())
            cur = ''
        else:
            cur += ch
    if cur.strip():
        out.append(cur.strip())
    return out


_NEST_CACHE = {}


def nest_result_match(node):
    """`match r { Ok(P1) => a, Ok(P2) => b, Err(p) => c }` read as `match r { Ok(v) => match v { P1 => a, P2 => b }, Err(p) => c }`
    (and likewise with several Err arms): the same decision, spelled so that each level tests one constructor."""
    if node.get('k') != 'Match' or node.get('src') != 'Normal' or len(node.get('arms', [])) < 3:
        return node
    key = id(node)
    if key in _NEST_CACHE and _NEST_CACHE[key][0] is node:
        return _NEST_CACHE[key][1]
    out = _nest(node)
    _NEST_CACHE[key] = (node, out)
    return out


def _nest(node):
    ty = (node['scrut'].get('ty') or '').lstrip('&').strip()
    if ty.startswith('mut '):
        ty = ty[4:]
    if not ty.startswith('std::result::Result<'):
        return node
    ga = _generic_args(ty)
    if len(ga) != 2:
        return node
    groups = {'Ok': [], 'Err': []}
    for a in node['arms']:
        pt = a['pat']
        if a.get('guard') is not None or pt.get('k') != 'PTupleStruct' or len(pt.get('pats', [])) != 1 or pt.get('dd') is not None:
            return node
        v = (pt.get('res') or {}).get('path', '').split('::')[-1]
        if v not in groups:
            return node
        groups[v].append(a)
    multi = [v for v in groups if len(groups[v]) > 1]
    if len(multi) != 1 or len(groups['Ok' if multi[0] == 'Err' else 'Err']) != 1:
        return node
    v = multi[0]
    for a in groups[v]:
        sub = a['pat']['pats'][0]
        if sub.get('k') not in ('PTupleStruct', 'PPath') or (sub.get('res') or {}).get('path', '').split('::')[-1] not in ('Ok', 'Err', 'Some', 'None'):
            return node  # only a payload that is itself a Result / Option is given its own level
    inner_ty = ga[0] if v == 'Ok' else ga[1]
    first = groups[v][0]
    sid = -(1000000 + (abs(hash(node.get('sp', ''))) % 1000000))
    bind = {'k': 'Bind', 'name': '$n', 'id': sid, 'mode': 'BindingMode(No, Not)', 'ty': inner_ty}
    inner = {'k': 'Match', 'src': 'Normal', 'scrut': {'k': 'Local', 'name': '$n', 'id': sid, 'ty': inner_ty, 'sp': (node.get('sp') or '') + '#n'},
             'ty': node.get('ty'), 'sp': (node.get('sp') or '') + '#nest', 'tail_of': node.get('sp'),
             'arms': [dict(a, pat=a['pat']['pats'][0]) for a in groups[v]]}
    outer_arm = dict(first, pat=dict(first['pat'], pats=[bind]), body=inner)
    arms = []
    done = False
    for a in node['arms']:
        if a in groups[v]:
            if not done:
                arms.append(outer_arm)
                done = True
        else:
            arms.append(a)
    return dict(node, arms=arms)


def _pure_operand(n):
    n = peel(n) if isinstance(n, dict) else n
    while isinstance(n, dict) and (n.get('k') == 'AddrOf' or (n.get('k') == 'Unary' and n.get('op') == 'Deref') or n.get('k') == 'Field'):
        n = peel(n['e'])
    return isinstance(n, dict) and n.get('k') in ('Local', 'Def', 'Lit')


def _wild(p):
    return p.get('k') == 'Wild'


def _ctor_key(p):
    """key of a binder-free constructor pattern whose sub-patterns are all wildcards (so equal key <=> same set of values)"""
    k = p.get('k')
    if k in ('PRef', 'PDeref', 'PBox'):
        return _ctor_key(p['p'])
    if k == 'PPath':
        return ('c', (p.get('res') or {}).get('path'))
    if k == 'PTupleStruct' and all(_wild(x) for x in p.get('pats', [])):
        return ('c', (p.get('res') or {}).get('path'))
    if k == 'PStruct' and all(_wild(x[1]) for x in p.get('fields', [])):
        return ('c', (p.get('res') or {}).get('path'))
    if k in ('PLit', 'Lit', 'PExpr'):
        return ('l', json.dumps(p, sort_keys=True))
    return None


_TNEST = {}


def nest_tuple_match(node):
    """`match (a, b) { (P1, Q1) => x, (P1, Q2) => y, (P2, _) => z, _ => w }` read as the decision tree a compiler builds:
    `match a { P1 => match b { Q1 => x, Q2 => y, _ => w }, P2 => match b { _ => z }, _ => w }` -- the first column's
    constructors are pairwise disjoint, so first-match order within each group is kept. Only for side-effect-free operands."""
    if node.get('k') != 'Match' or node.get('src') != 'Normal':
        return node
    key = id(node)
    if key in _TNEST and _TNEST[key][0] is node:
        return _TNEST[key][1]
    out = _nest_tuple(node)
    _TNEST[key] = (node, out)
    return out


def _nest_tuple(node):
    sc = peel(node['scrut']) if isinstance(node.get('scrut'), dict) else {}
    if sc.get('k') != 'Tup' or len(sc.get('es', [])) < 2 or not all(_pure_operand(e) for e in sc['es']):
        return node
    n = len(sc['es'])
    rows = []
    for a in node['arms']:
        pt = a['pat']
        while pt.get('k') in ('PRef', 'PDeref'):
            pt = pt['p']
        if pt.get('k') == 'PTuple' and len(pt.get('pats', [])) == n and pt.get('dd') is None:
            cols = pt['pats']
        elif _wild(pt):
            cols = [{'k': 'Wild'}] * n
        else:
            return node
        rows.append((cols, a))
    keys = []
    for cols, a in rows:
        c0 = cols[0]
        if _wild(c0):
            continue
        k0 = _ctor_key(c0)
        if k0 is None:
            return node
        if k0 not in [k for k, _ in keys]:
            keys.append((k0, c0))
    if not keys:
        return node
    sp = node.get('sp') or ''

    def inner(sel, tag):
        arms = []
        for cols, a in sel:
            rest = cols[1:]
            pat = rest[0] if len(rest) == 1 else {'k': 'PTuple', 'pats': list(rest), 'dd': None}
            arms.append(dict(a, pat=pat))
        es = sc['es'][1:]
        scrut = es[0] if len(es) == 1 else dict(sc, es=list(es), sp=(sc.get('sp') or '') + '#' + tag)
        return {'k': 'Match', 'src': 'Normal', 'scrut': scrut, 'ty': node.get('ty'), 'sp': '%s#t%s' % (sp, tag), 'tail_of': sp, 'arms': arms}

    arms = []
    for i, (k0, c0) in enumerate(keys):
        sel = [(cols, a) for cols, a in rows if _wild(cols[0]) or _ctor_key(cols[0]) == k0]
        first = sel[0][1]
        arms.append({'pat': c0, 'guard': None, 'body': inner(sel, str(i)), 'sp': (first.get('sp') or sp) + '#o%d' % i})
    wild = [(cols, a) for cols, a in rows if _wild(cols[0])]
    if wild:
        arms.append({'pat': {'k': 'Wild'}, 'guard': None, 'body': inner(wild, 'w'), 'sp': sp + '#ow'})
    return dict(node, scrut=sc['es'][0], arms=arms)
