// Resolved-HIR exporter: every body as a tree with paths resolved to locals / def-paths,
// method calls resolved to their callee, struct literals with ADT + field names, match arms
// with resolved patterns. Well-known std/log macros are collapsed to MacroCall{name, leaves}.
use crate::json::J;
use crate::util::*;
use rustc_hir as hir;
use rustc_hir::def::{DefKind, Res};
use rustc_middle::ty::{self, TyCtxt, TypeckResults};
use rustc_span::def_id::{DefId, LocalDefId};
use rustc_span::{ExpnKind, Span};

const KNOWN_MACROS: &[&str] = &[
    "trace", "debug", "info", "warn", "error", "log", "format", "format_args", "assert",
    "assert_eq", "assert_ne", "debug_assert", "debug_assert_eq", "debug_assert_ne",
    "unreachable", "panic", "write", "writeln", "vec", "todo", "unimplemented",
    "println", "eprintln", "print", "eprint",
];

pub struct HirX<'tcx> {
    pub tcx: TyCtxt<'tcx>,
    pub tr: &'tcx TypeckResults<'tcx>,
    pub owner: LocalDefId,
}

impl<'tcx> HirX<'tcx> {
    fn known_macro(&self, sp: Span) -> Option<String> {
        if !sp.from_expansion() {
            return None;
        }
        // backtrace is innermost -> outermost; pick the outermost KNOWN macro.
        let mut found = None;
        for ed in sp.macro_backtrace() {
            if let ExpnKind::Macro(_, name) = ed.kind {
                // `log::trace!` is reported with its path: compare the last segment
                let full = name.as_str();
                let n = full.rsplit("::").next().unwrap_or(full);
                if KNOWN_MACROS.contains(&n) {
                    found = Some(n.to_string());
                }
            }
        }
        found
    }

    fn mac_list(&self, sp: Span) -> Option<J> {
        if !sp.from_expansion() {
            return None;
        }
        let mut v = Vec::new();
        for ed in sp.macro_backtrace() {
            match ed.kind {
                ExpnKind::Macro(_, name) => v.push(J::s(name.as_str())),
                _ => {}
            }
        }
        if v.is_empty() {
            None
        } else {
            Some(J::A(v))
        }
    }

    fn res(&self, res: Res) -> J {
        match res {
            Res::Local(hid) => J::obj()
                .fs("k", "Local")
                .fs("name", self.tcx.hir_name(hid).as_str())
                .f("id", J::I(hid.local_id.as_u32() as i128))
                .done(),
            Res::Def(kind, did) => J::obj()
                .fs("k", "Def")
                .fs("dk", defkind_str(kind))
                .fs("path", def_path(self.tcx, did))
                .done(),
            Res::SelfCtor(did) => J::obj()
                .fs("k", "Def")
                .fs("dk", "SelfCtor")
                .fs("path", def_path(self.tcx, did))
                .done(),
            Res::SelfTyAlias { alias_to, .. } => J::obj()
                .fs("k", "Def")
                .fs("dk", "SelfTy")
                .fs("path", def_path(self.tcx, alias_to))
                .done(),
            other => J::obj().fs("k", "Res").fs("dbg", format!("{:?}", other)).done(),
        }
    }

    fn resolve_instance(&self, did: DefId, args: ty::GenericArgsRef<'tcx>) -> Option<String> {
        // Resolve trait-method callees to the impl item when the arguments allow it.
        if self.tcx.trait_of_assoc(did).is_none() {
            return None;
        }
        let g = self.tcx.generics_of(did);
        if args.len() != g.count() {
            return None;
        }
        let env = ty::TypingEnv::post_analysis(self.tcx, self.owner.to_def_id());
        let args = self.tcx.erase_and_anonymize_regions(args);
        match ty::Instance::try_resolve(self.tcx, env, did, args) {
            Ok(Some(inst)) => {
                let rd = inst.def_id();
                if rd != did {
                    Some(def_path(self.tcx, rd))
                } else {
                    None
                }
            }
            _ => None,
        }
    }

    fn gargs(&self, args: ty::GenericArgsRef<'tcx>) -> J {
        J::A(args.iter().map(|a| J::s(fmt_garg(a))).collect())
    }

    pub fn pat(&self, p: &hir::Pat<'tcx>) -> J {
        use hir::PatKind::*;
        let mut o = J::obj();
        match p.kind {
            Wild => o = o.fs("k", "Wild"),
            Missing => o = o.fs("k", "Wild"),
            Never => o = o.fs("k", "Never"),
            Binding(mode, hid, ident, sub) => {
                o = o
                    .fs("k", "Bind")
                    .fs("name", ident.name.as_str())
                    .f("id", J::I(hid.local_id.as_u32() as i128))
                    .fs("mode", format!("{:?}", mode))
                    .fs("ty", fmt_ty(self.tr.pat_ty(p)))
                    .opt("sub", sub.map(|s| self.pat(s)));
            }
            Struct(ref qp, fields, rest) => {
                let res = self.tr.qpath_res(qp, p.hir_id);
                o = o.fs("k", "PStruct").f("res", self.res(res)).f(
                    "fields",
                    J::A(fields
                        .iter()
                        .map(|f| J::A(vec![J::s(f.ident.name.as_str()), self.pat(f.pat)]))
                        .collect()),
                );
                o = o.f("rest", J::B(rest.is_some()));
            }
            TupleStruct(ref qp, pats, ddpos) => {
                let res = self.tr.qpath_res(qp, p.hir_id);
                o = o
                    .fs("k", "PTupleStruct")
                    .f("res", self.res(res))
                    .f("pats", J::A(pats.iter().map(|x| self.pat(x)).collect()))
                    .f("dd", match ddpos.as_opt_usize() { Some(n) => J::I(n as i128), None => J::N });
            }
            Or(pats) => {
                o = o.fs("k", "POr").f("pats", J::A(pats.iter().map(|x| self.pat(x)).collect()));
            }
            Tuple(pats, ddpos) => {
                o = o
                    .fs("k", "PTuple")
                    .f("pats", J::A(pats.iter().map(|x| self.pat(x)).collect()))
                    .f("dd", match ddpos.as_opt_usize() { Some(n) => J::I(n as i128), None => J::N });
            }
            Box(x) => o = o.fs("k", "PBox").f("p", self.pat(x)),
            Deref(x) => o = o.fs("k", "PDeref").f("p", self.pat(x)),
            Ref(x, _, m) => o = o.fs("k", "PRef").f("p", self.pat(x)).f("mut", J::B(m.is_mut())),
            Expr(pe) => match pe.kind {
                hir::PatExprKind::Lit { lit, negated } => {
                    o = o.fs("k", "PLit").f("v", lit_j(&lit)).f("neg", J::B(negated));
                }
                hir::PatExprKind::Path(ref qp) => {
                    let res = self.tr.qpath_res(qp, pe.hir_id);
                    o = o.fs("k", "PPath").f("res", self.res(res));
                }
            },
            Guard(x, g) => o = o.fs("k", "PGuard").f("p", self.pat(x)).f("g", self.expr(g)),
            Range(..) => o = o.fs("k", "PRange").fs("dbg", snippet(self.tcx, p.span)),
            Slice(..) => o = o.fs("k", "PSlice").fs("dbg", snippet(self.tcx, p.span)),
            Err(_) => o = o.fs("k", "PErr"),
        }
        o.done()
    }

    fn collect_leaves(&self, e: &hir::Expr<'tcx>, out: &mut Vec<J>, tmpl: &mut Vec<J>) {
        // maximal user-written sub-expressions of a macro expansion
        struct V<'a, 'tcx> {
            x: &'a HirX<'tcx>,
            out: &'a mut Vec<J>,
            tmpl: &'a mut Vec<J>,
        }
        impl<'a, 'tcx> hir::intravisit::Visitor<'tcx> for V<'a, 'tcx> {
            type NestedFilter = rustc_middle::hir::nested_filter::OnlyBodies;
            fn maybe_tcx(&mut self) -> TyCtxt<'tcx> {
                self.x.tcx
            }
            fn visit_expr(&mut self, e: &'tcx hir::Expr<'tcx>) {
                if !e.span.from_expansion() {
                    self.out.push(self.x.expr(e));
                } else {
                    // format_args! templates are lowered to a byte-string program / string pieces
                    if let hir::ExprKind::Lit(l) = e.kind {
                        match &l.node {
                            rustc_ast::LitKind::ByteStr(..) | rustc_ast::LitKind::Str(..) => self.tmpl.push(lit_j(&l)),
                            _ => {}
                        }
                    }
                    hir::intravisit::walk_expr(self, e);
                }
            }
        }
        let mut v = V { x: self, out, tmpl };
        // SAFETY of lifetimes: e lives in the 'tcx arena.
        let e: &'tcx hir::Expr<'tcx> = unsafe { std::mem::transmute(e) };
        hir::intravisit::walk_expr(&mut v, e);
    }

    pub fn block(&self, b: &hir::Block<'tcx>) -> J {
        let mut stmts = Vec::new();
        for s in b.stmts {
            match s.kind {
                hir::StmtKind::Let(l) => {
                    let mut o = J::obj()
                        .fs("k", "Let")
                        .f("pat", self.pat(l.pat))
                        .opt("init", l.init.map(|e| self.expr(e)))
                        .opt("els", l.els.map(|b| self.block(b)))
                        .fs("sp", span_str(self.tcx, l.span));
                    if let Some(t) = l.ty {
                        o = o.fs("tyann", snippet(self.tcx, t.span));
                    }
                    stmts.push(o.done());
                }
                hir::StmtKind::Item(_) => {
                    stmts.push(J::obj().fs("k", "ItemStmt").done());
                }
                hir::StmtKind::Expr(e) => {
                    stmts.push(J::obj().fs("k", "ExprStmt").f("e", self.expr(e)).done())
                }
                hir::StmtKind::Semi(e) => {
                    stmts.push(J::obj().fs("k", "Semi").f("e", self.expr(e)).done())
                }
            }
        }
        J::obj()
            .fs("k", "Block")
            .f("stmts", J::A(stmts))
            .opt("expr", b.expr.map(|e| self.expr(e)))
            .done()
    }

    pub fn expr(&self, e: &hir::Expr<'tcx>) -> J {
        use hir::ExprKind::*;
        // collapse well-known macros
        if let Some(name) = self.known_macro(e.span) {
            let mut leaves = Vec::new();
            let mut tmpl = Vec::new();
            self.collect_leaves(e, &mut leaves, &mut tmpl);
            return J::obj()
                .fs("k", "MacroCall")
                .fs("name", name)
                .f("leaves", J::A(leaves))
                .f("tmpl", J::A(tmpl))
                .fs("ty", fmt_ty(self.tr.expr_ty(e)))
                .fs("sp", span_str(self.tcx, e.span))
                .done();
        }
        let mut o = J::obj();
        match e.kind {
            Path(ref qp) => {
                let res = self.tr.qpath_res(qp, e.hir_id);
                match res {
                    Res::Local(hid) => {
                        o = o
                            .fs("k", "Local")
                            .fs("name", self.tcx.hir_name(hid).as_str())
                            .f("id", J::I(hid.local_id.as_u32() as i128));
                    }
                    Res::Def(kind, did) => {
                        o = o
                            .fs("k", "Def")
                            .fs("dk", defkind_str(kind))
                            .fs("path", def_path(self.tcx, did));
                        if matches!(kind, DefKind::Fn | DefKind::AssocFn | DefKind::Ctor(..) | DefKind::AssocConst { .. } | DefKind::Const { .. }) {
                            let args = self.tr.node_args(e.hir_id);
                            if !args.is_empty() {
                                o = o.f("gargs", self.gargs(args));
                            }
                            if matches!(kind, DefKind::AssocFn) {
                                o = o.opt("resolved", self.resolve_instance(did, args).map(J::S));
                            }
                            if matches!(kind, DefKind::Const { .. }) && args.is_empty() {
                                // value of a (possibly external) scalar constant, e.g. FRAME_MIN_SIZE
                                if let Ok(rustc_middle::mir::ConstValue::Scalar(sc)) = self.tcx.const_eval_poly(did) {
                                    if let Ok(si) = sc.try_to_scalar_int() {
                                        o = o.fs("bits", si.to_bits(si.size()).to_string());
                                    }
                                }
                            }
                        }
                    }
                    other => {
                        let j = self.res(other);
                        return j;
                    }
                }
            }
            Call(f, args) => {
                o = o
                    .fs("k", "Call")
                    .f("f", self.expr(f))
                    .f("args", J::A(args.iter().map(|a| self.expr(a)).collect()));
            }
            MethodCall(seg, recv, args, _) => {
                o = o.fs("k", "MethodCall").fs("name", seg.ident.name.as_str());
                if let Some(did) = self.tr.type_dependent_def_id(e.hir_id) {
                    o = o.fs("path", def_path(self.tcx, did));
                    let ga = self.tr.node_args(e.hir_id);
                    if !ga.is_empty() {
                        o = o.f("gargs", self.gargs(ga));
                    }
                    o = o.opt("resolved", self.resolve_instance(did, ga).map(J::S));
                }
                o = o
                    .f("recv", self.expr(recv))
                    .fs("recv_ty", fmt_ty(self.tr.expr_ty_adjusted(recv)))
                    .f("args", J::A(args.iter().map(|a| self.expr(a)).collect()));
            }
            Struct(qp, fields, tail) => {
                let res = self.tr.qpath_res(qp, e.hir_id);
                o = o.fs("k", "Struct").f("res", self.res(res));
                o = o.f(
                    "fields",
                    J::A(fields
                        .iter()
                        .map(|f| J::A(vec![J::s(f.ident.name.as_str()), self.expr(f.expr)]))
                        .collect()),
                );
                match tail {
                    hir::StructTailExpr::Base(b) => o = o.f("base", self.expr(b)),
                    hir::StructTailExpr::None => {}
                    _ => o = o.fs("base_other", "defaults"),
                }
            }
            Field(x, ident) => {
                o = o.fs("k", "Field").f("e", self.expr(x)).fs("name", ident.name.as_str());
            }
            Tup(xs) => o = o.fs("k", "Tup").f("es", J::A(xs.iter().map(|a| self.expr(a)).collect())),
            Array(xs) => o = o.fs("k", "Array").f("es", J::A(xs.iter().map(|a| self.expr(a)).collect())),
            Binary(op, a, b) => {
                o = o.fs("k", "Binary").fs("op", op.node.as_str()).f("l", self.expr(a)).f("r", self.expr(b));
                if let Some(did) = self.tr.type_dependent_def_id(e.hir_id) {
                    o = o.fs("overload", def_path(self.tcx, did));
                }
            }
            Unary(op, a) => {
                o = o.fs("k", "Unary").fs("op", format!("{:?}", op)).f("e", self.expr(a));
                if let Some(did) = self.tr.type_dependent_def_id(e.hir_id) {
                    o = o.fs("overload", def_path(self.tcx, did));
                }
            }
            Lit(l) => o = o.fs("k", "Lit").f("v", lit_j(&l)),
            Cast(a, t) => o = o.fs("k", "Cast").f("e", self.expr(a)).fs("to", snippet(self.tcx, t.span)),
            Type(a, _) => return self.expr(a),
            DropTemps(a) => return self.expr(a),
            Use(a, _) => return self.expr(a),
            Let(l) => {
                o = o.fs("k", "LetExpr").f("pat", self.pat(l.pat)).f("init", self.expr(l.init));
            }
            If(c, t, el) => {
                o = o
                    .fs("k", "If")
                    .f("cond", self.expr(c))
                    .f("then", self.expr(t))
                    .opt("else", el.map(|x| self.expr(x)));
            }
            Loop(b, _, src, _) => {
                o = o.fs("k", "Loop").fs("src", format!("{:?}", src)).f("body", self.block(b));
            }
            Match(scrut, arms, src) => {
                let srcs = match src {
                    hir::MatchSource::Normal => "Normal",
                    hir::MatchSource::Postfix => "Normal",
                    hir::MatchSource::ForLoopDesugar => "ForLoop",
                    hir::MatchSource::TryDesugar(_) => "Try",
                    hir::MatchSource::AwaitDesugar => "Await",
                    hir::MatchSource::FormatArgs => "FormatArgs",
                };
                if srcs == "Try" {
                    // scrutinee is Try::branch(inner)
                    if let Call(_, [inner]) = scrut.kind {
                        o = o.fs("k", "Try").f("e", self.expr(inner));
                        o = o.fs("ty", fmt_ty(self.tr.expr_ty(e))).fs("sp", span_str(self.tcx, e.span));
                        return o.done();
                    }
                }
                o = o.fs("k", "Match").fs("src", srcs).f("scrut", self.expr(scrut)).f(
                    "arms",
                    J::A(arms
                        .iter()
                        .map(|a| {
                            J::obj()
                                .f("pat", self.pat(a.pat))
                                .opt("guard", a.guard.map(|g| self.expr(g)))
                                .f("body", self.expr(a.body))
                                .fs("sp", span_str(self.tcx, a.span))
                                .done()
                        })
                        .collect()),
                );
            }
            Closure(c) => {
                let body = self.tcx.hir_body(c.body);
                o = o
                    .fs("k", "Closure")
                    .fs("def", def_path(self.tcx, c.def_id.to_def_id()))
                    .f("params", J::A(body.params.iter().map(|p| self.pat(p.pat)).collect()))
                    .f("body", self.expr(body.value));
            }
            Block(b, _) => return self.block(b),
            Assign(l, r, _) => o = o.fs("k", "Assign").f("l", self.expr(l)).f("r", self.expr(r)),
            AssignOp(op, l, r) => {
                o = o.fs("k", "AssignOp").fs("op", op.node.as_str()).f("l", self.expr(l)).f("r", self.expr(r));
                if let Some(did) = self.tr.type_dependent_def_id(e.hir_id) {
                    o = o.fs("overload", def_path(self.tcx, did));
                }
            }
            Index(a, i, _) => {
                o = o.fs("k", "Index").f("e", self.expr(a)).f("i", self.expr(i));
                if let Some(did) = self.tr.type_dependent_def_id(e.hir_id) {
                    o = o.fs("overload", def_path(self.tcx, did));
                }
                o = o.fs("base_ty", fmt_ty(self.tr.expr_ty_adjusted(a)));
            }
            AddrOf(_, m, a) => o = o.fs("k", "AddrOf").f("mut", J::B(m.is_mut())).f("e", self.expr(a)),
            Break(_, v) => o = o.fs("k", "Break").opt("e", v.map(|x| self.expr(x))),
            Continue(_) => o = o.fs("k", "Continue"),
            Ret(v) => o = o.fs("k", "Ret").opt("e", v.map(|x| self.expr(x))),
            Repeat(a, _) => o = o.fs("k", "Repeat").f("e", self.expr(a)),
            ConstBlock(_) => o = o.fs("k", "ConstBlock"),
            _ => {
                o = o.fs("k", "Other").fs("dbg", snippet(self.tcx, e.span));
            }
        }
        o = o.fs("ty", fmt_ty(self.tr.expr_ty(e))).fs("sp", span_str(self.tcx, e.span));
        o = o.opt("mac", self.mac_list(e.span));
        // auto-deref / overloaded-deref adjustments matter for `*x` through Deref impls
        let adj = self.tr.expr_adjustments(e);
        if !adj.is_empty() {
            let mut v = Vec::new();
            for a in adj {
                if let ty::adjustment::Adjust::Deref(ty::adjustment::DerefAdjustKind::Overloaded(_)) = a.kind {
                    v.push(J::s("OverloadedDeref"));
                }
            }
            if !v.is_empty() {
                o = o.f("adj", J::A(v));
            }
        }
        o.done()
    }
}

pub fn lit_j(l: &hir::Lit) -> J {
    use rustc_ast::LitKind::*;
    match &l.node {
        Str(s, _) => J::obj().fs("t", "str").fs("v", s.as_str()).done(),
        ByteStr(b, _) => J::obj()
            .fs("t", "bytes")
            .f("v", J::A(b.as_byte_str().iter().map(|x| J::I(*x as i128)).collect()))
            .done(),
        Int(n, _) => J::obj().fs("t", "int").f("v", J::I(n.get() as i128)).done(),
        Bool(b) => J::obj().fs("t", "bool").f("v", J::B(*b)).done(),
        Char(c) => J::obj().fs("t", "char").fs("v", c.to_string()).done(),
        Byte(b) => J::obj().fs("t", "byte").f("v", J::I(*b as i128)).done(),
        other => J::obj().fs("t", "other").fs("v", format!("{:?}", other)).done(),
    }
}
