// MIR exporter (mir_promoted, -Zmir-opt-level=0): CFG, calls with resolved callees,
// asserts, aggregates, switch targets. Kept generic; rules live in Python.
use crate::json::J;
use crate::util::*;
use rustc_middle::mir::{self, Operand, Place, Rvalue, StatementKind, TerminatorKind};
use rustc_middle::ty::{self, TyCtxt};
use rustc_span::def_id::LocalDefId;

pub struct MirX<'tcx> {
    pub tcx: TyCtxt<'tcx>,
    pub owner: LocalDefId,
}

impl<'tcx> MirX<'tcx> {
    fn place(&self, p: &Place<'tcx>) -> J {
        let mut proj = Vec::new();
        for e in p.projection.iter() {
            use mir::ProjectionElem::*;
            proj.push(match e {
                Deref => J::s("*"),
                Field(f, _) => J::S(format!(".{}", f.as_u32())),
                Index(l) => J::S(format!("[_{}]", l.as_u32())),
                ConstantIndex { offset, .. } => J::S(format!("[c{}]", offset)),
                Subslice { from, to, .. } => J::S(format!("[{}..{}]", from, to)),
                Downcast(name, v) => J::S(format!(
                    "as {}#{}",
                    name.map(|s| s.to_string()).unwrap_or_default(),
                    v.as_u32()
                )),
                OpaqueCast(_) => J::s("opaque"),
                UnwrapUnsafeBinder(_) => J::s("unwrap_binder"),
            });
        }
        J::obj().f("l", J::I(p.local.as_u32() as i128)).f("p", J::A(proj)).done()
    }

    fn constant(&self, c: &mir::ConstOperand<'tcx>) -> J {
        let ty = c.const_.ty();
        let mut o = J::obj().fs("k", "Const").fs("ty", fmt_ty(ty));
        match ty.kind() {
            ty::FnDef(did, args) => {
                o = o.fs("fn", def_path(self.tcx, *did)).f(
                    "gargs",
                    J::A(args.iter().map(|a| J::s(fmt_garg(a))).collect()),
                );
                if self.tcx.trait_of_assoc(*did).is_some() && args.len() == self.tcx.generics_of(*did).count() {
                    let env = ty::TypingEnv::post_analysis(self.tcx, self.owner.to_def_id());
                    let a = self.tcx.erase_and_anonymize_regions(*args);
                    if let Ok(Some(inst)) = ty::Instance::try_resolve(self.tcx, env, *did, a) {
                        if inst.def_id() != *did {
                            o = o.fs("resolved", def_path(self.tcx, inst.def_id()));
                        }
                    }
                }
                if self.tcx.trait_of_assoc(*did).is_some() {
                    o = o.f("trait_method", J::B(true));
                }
                o = o.f("local", J::B(did.is_local()));
            }
            ty::Closure(did, _) => {
                o = o.fs("closure", def_path(self.tcx, *did));
            }
            _ => {
                // scalar value if cheaply available
                if let mir::Const::Val(mir::ConstValue::Scalar(s), _) = c.const_ {
                    if let Ok(si) = s.try_to_scalar_int() {
                        let sz = si.size();
                        let bits = si.to_bits(sz);
                        o = o.f("bits", J::S(bits.to_string()));
                    }
                } else if let mir::Const::Ty(_, ct) = c.const_ {
                    if let Some(v) = ct.try_to_leaf() {
                        let bits = v.to_bits(v.size());
                        o = o.f("bits", J::S(bits.to_string()));
                    }
                } else if let mir::Const::Unevaluated(uv, _) = c.const_ {
                    o = o.fs("uneval", def_path(self.tcx, uv.def));
                    if uv.promoted.is_some() {
                        o = o.f("promoted", J::B(true));
                    }
                }
            }
        }
        o.done()
    }

    fn operand(&self, op: &Operand<'tcx>) -> J {
        match op {
            Operand::Copy(p) => J::obj().fs("k", "Copy").f("pl", self.place(p)).done(),
            Operand::Move(p) => J::obj().fs("k", "Move").f("pl", self.place(p)).done(),
            Operand::Constant(c) => self.constant(c),
            _ => J::obj().fs("k", "RuntimeChecks").done(),
        }
    }

    fn rvalue(&self, rv: &Rvalue<'tcx>) -> J {
        match rv {
            Rvalue::Use(op, ..) => J::obj().fs("k", "Use").f("op", self.operand(op)).done(),
            Rvalue::Ref(_, bk, p) => J::obj()
                .fs("k", "Ref")
                .f("mut", J::B(matches!(bk, mir::BorrowKind::Mut { .. })))
                .f("pl", self.place(p))
                .done(),
            Rvalue::RawPtr(_, p) => J::obj().fs("k", "RawPtr").f("pl", self.place(p)).done(),
            Rvalue::Cast(kind, op, ty) => J::obj()
                .fs("k", "Cast")
                .fs("ck", format!("{:?}", kind))
                .f("op", self.operand(op))
                .fs("to", fmt_ty(*ty))
                .done(),
            Rvalue::BinaryOp(op, ab) => J::obj()
                .fs("k", "BinaryOp")
                .fs("op", format!("{:?}", op))
                .f("a", self.operand(&ab.0))
                .f("b", self.operand(&ab.1))
                .done(),
            Rvalue::UnaryOp(op, a) => J::obj()
                .fs("k", "UnaryOp")
                .fs("op", format!("{:?}", op))
                .f("a", self.operand(a))
                .done(),
            Rvalue::Discriminant(p) => J::obj().fs("k", "Discriminant").f("pl", self.place(p)).done(),
            Rvalue::Aggregate(kind, ops) => {
                let mut o = J::obj().fs("k", "Aggregate");
                match &**kind {
                    mir::AggregateKind::Adt(did, vidx, _, _, _) => {
                        let adt = self.tcx.adt_def(*did);
                        let v = adt.variant(*vidx);
                        o = o
                            .fs("ak", "Adt")
                            .fs("adt", def_path(self.tcx, *did))
                            .fs("variant", v.name.as_str())
                            .f("is_enum", J::B(adt.is_enum()))
                            .f(
                                "fields",
                                J::A(v.fields.iter().map(|f| J::s(f.name.as_str())).collect()),
                            );
                    }
                    mir::AggregateKind::Closure(did, _) => {
                        o = o.fs("ak", "Closure").fs("closure", def_path(self.tcx, *did));
                    }
                    mir::AggregateKind::Tuple => o = o.fs("ak", "Tuple"),
                    mir::AggregateKind::Array(_) => o = o.fs("ak", "Array"),
                    other => o = o.fs("ak", format!("{:?}", other)),
                }
                o.f("ops", J::A(ops.iter().map(|x| self.operand(x)).collect())).done()
            }
            Rvalue::CopyForDeref(p) => J::obj().fs("k", "CopyForDeref").f("pl", self.place(p)).done(),
            Rvalue::Repeat(op, _) => J::obj().fs("k", "Repeat").f("op", self.operand(op)).done(),
            other => J::obj().fs("k", "OtherRv").fs("dbg", format!("{:?}", other)).done(),
        }
    }

    pub fn body(&self, body: &mir::Body<'tcx>) -> J {
        let tcx = self.tcx;
        let mut locals = Vec::new();
        for (l, d) in body.local_decls.iter_enumerated() {
            locals.push(
                J::obj()
                    .f("i", J::I(l.as_u32() as i128))
                    .fs("ty", fmt_ty(d.ty))
                    .f("user", J::B(d.is_user_variable()))
                    .done(),
            );
        }
        let mut names = Vec::new();
        for vdi in &body.var_debug_info {
            if let mir::VarDebugInfoContents::Place(p) = &vdi.value {
                names.push(J::A(vec![J::s(vdi.name.as_str()), self.place(p)]));
            }
        }
        let mut blocks = Vec::new();
        for (bb, data) in body.basic_blocks.iter_enumerated() {
            let mut stmts = Vec::new();
            for st in &data.statements {
                match &st.kind {
                    StatementKind::Assign(b) => {
                        let (pl, rv) = &**b;
                        stmts.push(
                            J::obj()
                                .fs("k", "Assign")
                                .f("pl", self.place(pl))
                                .f("rv", self.rvalue(rv))
                                .fs("sp", span_str(tcx, st.source_info.span))
                                .done(),
                        );
                    }
                    StatementKind::SetDiscriminant { place, variant_index } => {
                        stmts.push(
                            J::obj()
                                .fs("k", "SetDiscriminant")
                                .f("pl", self.place(place))
                                .f("v", J::I(variant_index.as_u32() as i128))
                                .done(),
                        );
                    }
                    _ => {}
                }
            }
            let term = data.terminator();
            let sp = term.source_info.span;
            let mut t = J::obj();
            match &term.kind {
                TerminatorKind::Goto { target } => {
                    t = t.fs("k", "Goto").f("t", J::I(target.as_u32() as i128));
                }
                TerminatorKind::SwitchInt { discr, targets } => {
                    let mut v = Vec::new();
                    for (val, tgt) in targets.iter() {
                        v.push(J::A(vec![J::S(val.to_string()), J::I(tgt.as_u32() as i128)]));
                    }
                    t = t
                        .fs("k", "SwitchInt")
                        .f("discr", self.operand(discr))
                        .f("targets", J::A(v))
                        .f("otherwise", J::I(targets.otherwise().as_u32() as i128));
                }
                TerminatorKind::Return => t = t.fs("k", "Return"),
                TerminatorKind::Unreachable => t = t.fs("k", "Unreachable"),
                TerminatorKind::UnwindResume => t = t.fs("k", "UnwindResume"),
                TerminatorKind::UnwindTerminate(_) => t = t.fs("k", "UnwindTerminate"),
                TerminatorKind::Drop { place, target, unwind, .. } => {
                    let pty = place.ty(&body.local_decls, tcx).ty;
                    t = t
                        .fs("k", "Drop")
                        .f("pl", self.place(place))
                        .fs("ty", fmt_ty(pty))
                        .f("t", J::I(target.as_u32() as i128));
                    if let mir::UnwindAction::Cleanup(u) = unwind {
                        t = t.f("u", J::I(u.as_u32() as i128));
                    }
                }
                TerminatorKind::Call { func, args, destination, target, unwind, fn_span, .. } => {
                    t = t
                        .fs("k", "Call")
                        .f("func", self.operand(func))
                        .f("args", J::A(args.iter().map(|a| self.operand(&a.node)).collect()))
                        .f("dest", self.place(destination))
                        .fs("fn_sp", span_str(tcx, *fn_span));
                    if let Some(tg) = target {
                        t = t.f("t", J::I(tg.as_u32() as i128));
                    }
                    if let mir::UnwindAction::Cleanup(u) = unwind {
                        t = t.f("u", J::I(u.as_u32() as i128));
                    }
                }
                TerminatorKind::Assert { cond, expected, msg, target, unwind } => {
                    let kind = match &**msg {
                        mir::AssertKind::BoundsCheck { .. } => "BoundsCheck".to_string(),
                        mir::AssertKind::Overflow(op, _, _) => format!("Overflow({:?})", op),
                        mir::AssertKind::OverflowNeg(_) => "OverflowNeg".to_string(),
                        mir::AssertKind::DivisionByZero(_) => "DivisionByZero".to_string(),
                        mir::AssertKind::RemainderByZero(_) => "RemainderByZero".to_string(),
                        other => format!("{:?}", std::mem::discriminant(other)),
                    };
                    t = t
                        .fs("k", "Assert")
                        .fs("kind", kind)
                        .f("cond", self.operand(cond))
                        .f("expected", J::B(*expected))
                        .f("t", J::I(target.as_u32() as i128));
                    if let mir::AssertKind::Overflow(_, a, b) = &**msg {
                        t = t.f("a", self.operand(a)).f("b", self.operand(b));
                    }
                    if let mir::UnwindAction::Cleanup(u) = unwind {
                        t = t.f("u", J::I(u.as_u32() as i128));
                    }
                }
                TerminatorKind::FalseEdge { real_target, .. } => {
                    t = t.fs("k", "Goto").f("t", J::I(real_target.as_u32() as i128)).f("false_edge", J::B(true));
                }
                TerminatorKind::FalseUnwind { real_target, .. } => {
                    t = t.fs("k", "Goto").f("t", J::I(real_target.as_u32() as i128)).f("false_unwind", J::B(true));
                }
                other => {
                    t = t.fs("k", "OtherTerm").fs("dbg", format!("{:?}", other));
                }
            }
            t = t.fs("sp", span_str(tcx, sp));
            if sp.from_expansion() {
                let mut v = Vec::new();
                for ed in sp.macro_backtrace() {
                    if let rustc_span::ExpnKind::Macro(_, name) = ed.kind {
                        v.push(J::s(name.as_str()));
                    }
                }
                if !v.is_empty() {
                    t = t.f("mac", J::A(v));
                }
                if let rustc_span::ExpnKind::Desugaring(d) = sp.ctxt().outer_expn_data().kind {
                    t = t.fs("desugar", format!("{:?}", d));
                }
            }
            blocks.push(
                J::obj()
                    .f("i", J::I(bb.as_u32() as i128))
                    .f("cleanup", J::B(data.is_cleanup))
                    .f("stmts", J::A(stmts))
                    .f("term", t.done())
                    .done(),
            );
        }
        J::obj()
            .f("arg_count", J::I(body.arg_count as i128))
            .f("locals", J::A(locals))
            .f("names", J::A(names))
            .f("blocks", J::A(blocks))
            .done()
    }
}
