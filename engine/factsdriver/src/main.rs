// factsdriver: a rustc_private driver injected through RUSTC_WORKSPACE_WRAPPER. For the crate
// named by AMQ_FACTS_CRATE (default "amiquip") it writes one JSON fact file (AMQ_FACTS_OUT)
// after analysis: resolved HIR, MIR, items. All other crates compile unchanged.
#![feature(rustc_private)]

extern crate rustc_abi;
extern crate rustc_ast;
extern crate rustc_data_structures;
extern crate rustc_driver;
extern crate rustc_hir;
extern crate rustc_interface;
extern crate rustc_middle;
extern crate rustc_session;
extern crate rustc_span;

mod hirx;
mod json;
mod mirx;
mod util;

use json::J;
use rustc_driver::Compilation;
use rustc_hir::def::DefKind;
use rustc_middle::ty::{self, TyCtxt};
use util::*;

struct Cb;

impl rustc_driver::Callbacks for Cb {
    fn after_analysis<'tcx>(
        &mut self,
        _compiler: &rustc_interface::interface::Compiler,
        tcx: TyCtxt<'tcx>,
    ) -> Compilation {
        let want = std::env::var("AMQ_FACTS_CRATE").unwrap_or_else(|_| "amiquip".to_string());
        let name = tcx.crate_name(rustc_span::def_id::LOCAL_CRATE).to_string();
        if name == want {
            if let Ok(out) = std::env::var("AMQ_FACTS_OUT") {
                let j = dump(tcx);
                let mut s = String::with_capacity(1 << 24);
                j.write(&mut s);
                let tmp = format!("{}.tmp.{}", out, std::process::id());
                std::fs::write(&tmp, s).expect("write facts");
                std::fs::rename(&tmp, &out).expect("rename facts");
            }
        }
        Compilation::Continue
    }
}

fn vis_str<'tcx>(tcx: TyCtxt<'tcx>, did: rustc_span::def_id::DefId) -> String {
    match tcx.visibility(did) {
        ty::Visibility::Public => "pub".to_string(),
        ty::Visibility::Restricted(m) => format!("restricted({})", def_path(tcx, m)),
    }
}

fn dump<'tcx>(tcx: TyCtxt<'tcx>) -> J {
    let mut fns = Vec::new();
    let mut consts = Vec::new();
    for ldid in tcx.hir_body_owners() {
        let did = ldid.to_def_id();
        let kind = tcx.def_kind(did);
        let is_closure = matches!(kind, DefKind::Closure);
        let is_fn = matches!(kind, DefKind::Fn | DefKind::AssocFn);
        let is_const = matches!(kind, DefKind::Const { .. } | DefKind::AssocConst { .. } | DefKind::Static { .. });
        if !(is_closure || is_fn || is_const) {
            continue; // anon consts, inline consts
        }
        let sp = tcx.def_span(did);
        let mut o = J::obj()
            .fs("path", def_path(tcx, did))
            .fs("dk", defkind_str(kind))
            .fs("file", span_file(tcx, sp))
            .fs("sp", span_str(tcx, tcx.hir_span(tcx.local_def_id_to_hir_id(ldid))));
        if sp.from_expansion() {
            let mut v = Vec::new();
            for ed in sp.macro_backtrace() {
                if let rustc_span::ExpnKind::Macro(_, name) = ed.kind {
                    v.push(J::s(name.as_str()));
                }
            }
            o = o.f("mac", J::A(v));
        }
        if is_fn {
            o = o.fs("vis", vis_str(tcx, did));
            o = o.f("reachable", J::B(tcx.effective_visibilities(()).is_reachable(ldid)));
            let sig = tcx.fn_sig(did).instantiate_identity().skip_normalization().skip_binder();
            o = o
                .f("inputs", J::A(sig.inputs().iter().map(|t| J::s(fmt_ty(*t))).collect()))
                .fs("output", fmt_ty(sig.output()));
            if let Some(impl_did) = tcx.impl_of_assoc(did) {
                o = o.fs("impl_self", fmt_ty(tcx.type_of(impl_did).instantiate_identity().skip_normalization()));
                if let Some(tr) = tcx.impl_opt_trait_ref(impl_did) {
                    let tr = tr.instantiate_identity().skip_normalization();
                    o = o.fs("impl_trait", def_path(tcx, tr.def_id));
                    o = o.fs("impl_trait_full", rustc_middle::ty::print::with_no_trimmed_paths!(format!("{}", tr)));
                }
            }
            if let Some(tdid) = tcx.trait_of_assoc(did) {
                o = o.fs("trait_decl", def_path(tcx, tdid));
            }
            let mut gens = Vec::new();
            let mut stack = Vec::new();
            let mut g = tcx.generics_of(did);
            loop {
                stack.push(g);
                match g.parent {
                    Some(p) => g = tcx.generics_of(p),
                    None => break,
                }
            }
            for g in stack.iter().rev() {
                for p in &g.own_params {
                    gens.push(J::s(p.name.as_str()));
                }
            }
            o = o.f("generics", J::A(gens));
            let in_test = is_cfg_test(tcx, ldid);
            o = o.f("cfg_test", J::B(in_test));
        }
        if is_closure {
            o = o.fs("parent", def_path(tcx, tcx.typeck_root_def_id(did)));
        }
        // HIR (closures are exported inline in their parents)
        if !is_closure {
            let tr = tcx.typeck(ldid);
            if tr.tainted_by_errors.is_none() {
                let body = tcx.hir_body_owned_by(ldid);
                let hx = hirx::HirX { tcx, tr, owner: ldid };
                o = o.f("params", J::A(body.params.iter().map(|p| hx.pat(p.pat)).collect()));
                o = o.f("hir", hx.expr(body.value));
            }
        }
        // MIR
        if is_fn || is_closure {
            let steal = tcx.mir_promoted(ldid).0;
            if !steal.is_stolen() {
                let body = steal.borrow();
                let mx = mirx::MirX { tcx, owner: ldid };
                o = o.f("mir", mx.body(&body));
                o = o.fs("mir_phase", "promoted");
            } else {
                o = o.fs("mir_phase", "stolen");
            }
        }
        if is_const {
            let ty = tcx.type_of(did).instantiate_identity().skip_normalization();
            o = o.fs("ty", fmt_ty(ty));
            if matches!(kind, DefKind::Const { .. } | DefKind::AssocConst { .. }) && tcx.generics_of(did).is_empty() && tcx.generics_of(did).parent_count == 0 {
                if let Ok(v) = tcx.const_eval_poly(did) {
                    if let rustc_middle::mir::ConstValue::Scalar(s) = v {
                        if let Ok(si) = s.try_to_scalar_int() {
                            o = o.fs("bits", si.to_bits(si.size()).to_string());
                        }
                    }
                }
            }
            consts.push(o.done());
        } else {
            fns.push(o.done());
        }
    }

    // items
    let mut adts = Vec::new();
    let mut impls = Vec::new();
    let items = tcx.hir_crate_items(());
    for ldid in items.definitions() {
        let did = ldid.to_def_id();
        match tcx.def_kind(did) {
            DefKind::Struct | DefKind::Enum => {
                let adt = tcx.adt_def(did);
                let mut vs = Vec::new();
                for v in adt.variants() {
                    let mut fs = Vec::new();
                    for f in &v.fields {
                        fs.push(
                            J::obj()
                                .fs("name", f.name.as_str())
                                .fs("ty", fmt_ty(tcx.type_of(f.did).instantiate_identity().skip_normalization()))
                                .fs("vis", match f.vis {
                                    ty::Visibility::Public => "pub".to_string(),
                                    ty::Visibility::Restricted(m) => format!("restricted({})", def_path(tcx, m)),
                                })
                                .done(),
                        );
                    }
                    vs.push(J::obj().fs("name", v.name.as_str()).f("fields", J::A(fs)).done());
                }
                adts.push(
                    J::obj()
                        .fs("path", def_path(tcx, did))
                        .f("is_enum", J::B(adt.is_enum()))
                        .fs("vis", vis_str(tcx, did))
                        .f("reachable", J::B(tcx.effective_visibilities(()).is_reachable(ldid)))
                        .f("variants", J::A(vs))
                        .f("cfg_test", J::B(is_cfg_test(tcx, ldid)))
                        .done(),
                );
            }
            DefKind::Impl { .. } => {
                let self_ty = tcx.type_of(did).instantiate_identity().skip_normalization();
                let mut o = J::obj().fs("self", fmt_ty(self_ty));
                if let ty::Adt(a, _) = self_ty.kind() {
                    o = o.fs("self_adt", def_path(tcx, a.did()));
                }
                if let Some(tr) = tcx.impl_opt_trait_ref(did) {
                    let tr = tr.instantiate_identity().skip_normalization();
                    o = o.fs("trait", def_path(tcx, tr.def_id));
                    o = o.fs("trait_full", rustc_middle::ty::print::with_no_trimmed_paths!(format!("{}", tr)));
                    o = o.f("negative", J::B(matches!(tcx.impl_polarity(did), ty::ImplPolarity::Negative)));
                }
                o = o.f("derived", J::B(tcx.is_automatically_derived(did)));
                let mut ms = Vec::new();
                for it in tcx.associated_item_def_ids(did) {
                    ms.push(J::s(def_path(tcx, *it)));
                }
                o = o.f("items", J::A(ms));
                o = o.f("cfg_test", J::B(is_cfg_test(tcx, ldid)));
                o = o.fs("sp", span_str(tcx, tcx.def_span(did))).fs("file", span_file(tcx, tcx.def_span(did)));
                impls.push(o.done());
            }
            _ => {}
        }
    }

    let mut feats = Vec::new();
    for (k, v) in tcx.sess.config.iter() {
        if k.as_str() == "feature" {
            if let Some(v) = v {
                feats.push(J::s(v.as_str()));
            }
        }
    }
    let cfg_test = tcx.sess.config.iter().any(|(k, _)| k.as_str() == "test");
    let meta = J::obj()
        .fs("crate", tcx.crate_name(rustc_span::def_id::LOCAL_CRATE).as_str())
        .f("features", J::A(feats))
        .f("cfg_test", J::B(cfg_test))
        .fs("nonce", std::env::var("AMQ_FACTS_NONCE").unwrap_or_default())
        .fs("rustc", option_env!("CFG_VERSION").unwrap_or("nightly"))
        .done();

    J::obj()
        .f("meta", meta)
        .f("fns", J::A(fns))
        .f("consts", J::A(consts))
        .f("adts", J::A(adts))
        .f("impls", J::A(impls))
        .done()
}

fn is_cfg_test<'tcx>(tcx: TyCtxt<'tcx>, ldid: rustc_span::def_id::LocalDefId) -> bool {
    // Under `cargo check` (no --cfg test) test modules are not compiled at all.
    let _ = (tcx, ldid);
    false
}

fn main() -> std::process::ExitCode {
    let mut args: Vec<String> = std::env::args().collect();
    // RUSTC_WORKSPACE_WRAPPER: argv = [driver, rustc, args...]
    if args.len() > 1 && (args[1].ends_with("rustc") || args[1].contains("rustc")) && !args[1].starts_with('-') {
        args.remove(1);
    }
    rustc_driver::catch_with_exit_code(move || {
        rustc_driver::run_compiler(&args, &mut Cb);
    })
}
