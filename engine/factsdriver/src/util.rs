use rustc_hir::def::DefKind;
use rustc_middle::ty::print::with_no_trimmed_paths;
use rustc_middle::ty::{self, Ty, TyCtxt};
use rustc_span::def_id::DefId;
use rustc_span::Span;

pub fn def_path<'tcx>(tcx: TyCtxt<'tcx>, did: DefId) -> String {
    with_no_trimmed_paths!(tcx.def_path_str(did))
}

pub fn def_path_args<'tcx>(tcx: TyCtxt<'tcx>, did: DefId, args: ty::GenericArgsRef<'tcx>) -> String {
    with_no_trimmed_paths!(tcx.def_path_str_with_args(did, args))
}

pub fn fmt_ty<'tcx>(t: Ty<'tcx>) -> String {
    with_no_trimmed_paths!(format!("{}", t))
}

pub fn fmt_garg<'tcx>(a: ty::GenericArg<'tcx>) -> String {
    with_no_trimmed_paths!(format!("{}", a))
}

pub fn defkind_str(k: DefKind) -> String {
    match k {
        DefKind::Ctor(of, kind) => format!("Ctor({:?},{:?})", of, kind),
        other => format!("{:?}", other),
    }
}

/// "file:l:c-l:c" of the outermost call site (stable for macro expansions).
pub fn span_str<'tcx>(tcx: TyCtxt<'tcx>, sp: Span) -> String {
    let sp = sp.source_callsite();
    let sm = tcx.sess.source_map();
    let lo = sm.lookup_char_pos(sp.lo());
    let hi = sm.lookup_char_pos(sp.hi());
    format!("{}:{}-{}:{}", lo.line, lo.col.0 + 1, hi.line, hi.col.0 + 1)
}

pub fn span_file<'tcx>(tcx: TyCtxt<'tcx>, sp: Span) -> String {
    let sp = sp.source_callsite();
    let sm = tcx.sess.source_map();
    let lo = sm.lookup_char_pos(sp.lo());
    match &lo.file.name {
        rustc_span::FileName::Real(r) => match r.local_path() {
            Some(p) => p.display().to_string(),
            None => format!("{:?}", r),
        },
        other => format!("{:?}", other),
    }
}

pub fn snippet<'tcx>(tcx: TyCtxt<'tcx>, sp: Span) -> String {
    tcx.sess.source_map().span_to_snippet(sp).unwrap_or_default()
}
