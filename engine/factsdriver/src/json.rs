// Minimal JSON value + writer (no dependencies are available offline).
use std::fmt::Write;

#[derive(Clone, Debug)]
pub enum J {
    N,
    B(bool),
    I(i128),
    S(String),
    A(Vec<J>),
    O(Vec<(String, J)>),
}

impl J {
    pub fn s<T: Into<String>>(t: T) -> J {
        J::S(t.into())
    }
    pub fn obj() -> Obj {
        Obj(Vec::new())
    }
    pub fn write(&self, out: &mut String) {
        match self {
            J::N => out.push_str("null"),
            J::B(b) => out.push_str(if *b { "true" } else { "false" }),
            J::I(i) => {
                let _ = write!(out, "{}", i);
            }
            J::S(s) => write_str(s, out),
            J::A(v) => {
                out.push('[');
                for (i, x) in v.iter().enumerate() {
                    if i > 0 {
                        out.push(',');
                    }
                    x.write(out);
                }
                out.push(']');
            }
            J::O(v) => {
                out.push('{');
                for (i, (k, x)) in v.iter().enumerate() {
                    if i > 0 {
                        out.push(',');
                    }
                    write_str(k, out);
                    out.push(':');
                    x.write(out);
                }
                out.push('}');
            }
        }
    }
}

pub struct Obj(pub Vec<(String, J)>);

impl Obj {
    pub fn f<K: Into<String>>(mut self, k: K, v: J) -> Obj {
        self.0.push((k.into(), v));
        self
    }
    pub fn fs<K: Into<String>, V: Into<String>>(self, k: K, v: V) -> Obj {
        self.f(k, J::S(v.into()))
    }
    pub fn opt<K: Into<String>>(self, k: K, v: Option<J>) -> Obj {
        match v {
            Some(v) => self.f(k, v),
            None => self,
        }
    }
    pub fn done(self) -> J {
        J::O(self.0)
    }
}

fn write_str(s: &str, out: &mut String) {
    out.push('"');
    for c in s.chars() {
        match c {
            '"' => out.push_str("\\\""),
            '\\' => out.push_str("\\\\"),
            '\n' => out.push_str("\\n"),
            '\r' => out.push_str("\\r"),
            '\t' => out.push_str("\\t"),
            c if (c as u32) < 0x20 => {
                let _ = write!(out, "\\u{:04x}", c as u32);
            }
            c => out.push(c),
        }
    }
    out.push('"');
}
