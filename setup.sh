#!/bin/bash
# Builds the rustc_private facts driver and warms the dependency target dirs. Offline only.
set -e
cd "$(dirname "$0")"
export CARGO_NET_OFFLINE=true
mkdir -p .cache evidence/reports
( cd engine/factsdriver && cargo +nightly build --release --offline )
python3 engine/amqlint/facts.py default
if [ "${VERIF_SETUP_FULL:-1}" = "1" ]; then
  python3 engine/amqlint/facts.py notls || true
fi
echo "setup ok"
