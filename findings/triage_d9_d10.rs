// One-off triage aid (NOT part of any registered check): demonstrates D9 and D10 against the
// unmodified library with a scripted loopback server. Place as tests/triage_d9_d10.rs in a
// scratch worktree of /repo (copy Cargo.lock) and run
//   cargo test --offline --test triage_d9_d10 -- --nocapture --test-threads=1
// Observed on the pinned tree (fbf6d71):
//   D9/secure : insecure_open_stream -> Err(InvalidCredentials)   (documented: SaslSecureNotSupported)
//   D9/timeout: silent server after StartOk, connection_timeout 300ms -> Err(InvalidCredentials) (expected ConnectionTimeout)
//   D10       : server writes CloseOk and closes the socket at once -> close() = Err(UnexpectedSocketClose) in 79 of 80 runs
use amiquip::{Auth, Connection, ConnectionOptions, ConnectionTuning, Error, FieldTable};
use amq_protocol::frame::generation::gen_method_frame;
use amq_protocol::frame::{parse_frame, AMQPFrame};
use amq_protocol::protocol::connection::{AMQPMethod, CloseOk, OpenOk, Secure, Start, Tune};
use amq_protocol::protocol::AMQPClass;
use cookie_factory::GenError;
use std::io::{Read, Write};
use std::net::{Shutdown, SocketAddr, TcpListener, TcpStream};
use std::thread;
use std::time::Duration;

fn method_frame(channel_id: u16, method: AMQPMethod) -> Vec<u8> {
    let class = AMQPClass::Connection(method);
    let mut buf: Vec<u8> = Vec::new();
    loop {
        let resize_to = match gen_method_frame((&mut buf[..], 0), channel_id, &class) {
            Ok((_, end)) => { buf.truncate(end); return buf; }
            Err(GenError::BufferTooSmall(n)) => n,
            Err(e) => panic!("gen error {:?}", e),
        };
        buf.resize(resize_to, 0);
    }
}

fn start_frame() -> Vec<u8> {
    method_frame(0, AMQPMethod::Start(Start {
        version_major: 0, version_minor: 9, server_properties: FieldTable::new(),
        mechanisms: "PLAIN".into(), locales: "en_US".into(),
    }))
}

fn read_protocol_header(s: &mut TcpStream) {
    let mut hdr = [0u8; 8];
    s.read_exact(&mut hdr).unwrap();
    assert_eq!(&hdr, b"AMQP\x00\x00\x09\x01");
}

fn read_frame(s: &mut TcpStream) -> AMQPFrame {
    let mut head = [0u8; 7];
    s.read_exact(&mut head).unwrap();
    let size = u32::from_be_bytes([head[3], head[4], head[5], head[6]]) as usize;
    let mut all = head.to_vec();
    all.resize(7 + size + 1, 0);
    s.read_exact(&mut all[7..]).unwrap();
    let (rest, frame) = parse_frame(&all).expect("server could not parse client frame");
    assert!(rest.is_empty());
    frame
}

fn expect_method(s: &mut TcpStream, name: &str) {
    let frame = read_frame(s);
    let ok = match (&frame, name) {
        (AMQPFrame::Method(0, AMQPClass::Connection(AMQPMethod::StartOk(_))), "StartOk") => true,
        (AMQPFrame::Method(0, AMQPClass::Connection(AMQPMethod::TuneOk(_))), "TuneOk") => true,
        (AMQPFrame::Method(0, AMQPClass::Connection(AMQPMethod::Open(_))), "Open") => true,
        (AMQPFrame::Method(0, AMQPClass::Connection(AMQPMethod::Close(_))), "Close") => true,
        _ => false,
    };
    assert!(ok, "server expected {} but got {:?}", name, frame);
}

fn spawn_server<F>(script: F) -> (SocketAddr, thread::JoinHandle<()>)
where F: FnOnce(TcpStream) + Send + 'static {
    let listener = TcpListener::bind("127.0.0.1:0").unwrap();
    let addr = listener.local_addr().unwrap();
    let handle = thread::spawn(move || {
        let (stream, _) = listener.accept().unwrap();
        stream.set_nodelay(true).unwrap();
        script(stream);
    });
    (addr, handle)
}

fn client_open(addr: &SocketAddr, options: ConnectionOptions<Auth>) -> Result<Connection, Error> {
    let stream = mio::net::TcpStream::connect(addr).unwrap();
    Connection::insecure_open_stream(stream, options, ConnectionTuning::default())
}

#[test]
fn d9_secure_challenge_error_variant() {
    let (addr, server) = spawn_server(|mut s| {
        read_protocol_header(&mut s);
        s.write_all(&start_frame()).unwrap();
        expect_method(&mut s, "StartOk");
        s.write_all(&method_frame(0, AMQPMethod::Secure(Secure { challenge: "x".into() }))).unwrap();
        thread::sleep(Duration::from_millis(500));
    });
    let err = client_open(&addr, ConnectionOptions::default()).err().expect("open unexpectedly succeeded");
    println!("D9/secure: insecure_open_stream returned Err({:?})", err);
    server.join().unwrap();
    assert!(matches!(err, Error::SaslSecureNotSupported), "got {:?}", err);
}

#[test]
fn d9_timeout_after_start_ok_error_variant() {
    let (addr, server) = spawn_server(|mut s| {
        read_protocol_header(&mut s);
        s.write_all(&start_frame()).unwrap();
        expect_method(&mut s, "StartOk");
        thread::sleep(Duration::from_millis(1500));
    });
    let options = ConnectionOptions::default().connection_timeout(Some(Duration::from_millis(300)));
    let err = client_open(&addr, options).err().expect("open unexpectedly succeeded");
    println!("D9/timeout: insecure_open_stream returned Err({:?})", err);
    server.join().unwrap();
    assert!(matches!(err, Error::ConnectionTimeout), "got {:?}", err);
}

fn full_handshake(s: &mut TcpStream) {
    read_protocol_header(s);
    s.write_all(&start_frame()).unwrap();
    expect_method(s, "StartOk");
    s.write_all(&method_frame(0, AMQPMethod::Tune(Tune { channel_max: 2047, frame_max: 131072, heartbeat: 0 }))).unwrap();
    expect_method(s, "TuneOk");
    expect_method(s, "Open");
    s.write_all(&method_frame(0, AMQPMethod::OpenOk(OpenOk { known_hosts: "".into() }))).unwrap();
}

fn d10_once() -> Result<(), Error> {
    let (addr, server) = spawn_server(move |mut s| {
        full_handshake(&mut s);
        expect_method(&mut s, "Close");
        s.write_all(&method_frame(0, AMQPMethod::CloseOk(CloseOk {}))).unwrap();
        let _ = s.shutdown(Shutdown::Both);
        drop(s);
    });
    let conn = client_open(&addr, ConnectionOptions::default()).expect("handshake failed");
    let res = conn.close();
    server.join().unwrap();
    res
}

#[test]
fn d10_close_ok_then_immediate_socket_close() {
    let mut bad = 0;
    for i in 0..20 {
        match d10_once() {
            Ok(()) => println!("D10 run {:2}: close() = Ok(())", i),
            Err(e) => { bad += 1; println!("D10 run {:2}: close() = Err({:?})", i, e); }
        }
    }
    assert_eq!(bad, 0, "close() failed in {} of 20 runs", bad);
}
