// D5 demo (pure race, no tricks): server sends Connection.Close right after OpenOk while the
// client calls open_channel(None) / listen_for_connection_blocked() / close().
mod fake;

use amiquip::{Auth, Connection, ConnectionOptions, ConnectionTuning, Error};
use std::io::{Read, Write};
use std::net::TcpListener;
use std::sync::atomic::{AtomicUsize, Ordering};
use std::sync::Arc;
use std::time::{Duration, Instant};

fn spin(d: Duration) {
    let t = Instant::now();
    while t.elapsed() < d {
        std::hint::spin_loop();
    }
}

#[derive(Clone, Copy, Debug)]
enum Op {
    OpenChannel,
    ListenBlocked,
    CloseOnly,
}

#[derive(Default)]
struct Counters {
    iterations: AtomicUsize,
    open_failed: AtomicUsize,
    io_thread_panic: AtomicUsize,
    hook_alloc: AtomicUsize,
}

fn one_iteration(op: Op, server_delay_us: u64, client_delay_us: u64, c: &Counters) {
    let listener = TcpListener::bind("127.0.0.1:0").unwrap();
    let addr = listener.local_addr().unwrap();
    let server = std::thread::spawn(move || {
        let (mut s, _) = listener.accept().unwrap();
        s.set_nodelay(true).unwrap();
        s.set_read_timeout(Some(Duration::from_secs(5))).unwrap();
        if fake::handshake(&mut s).is_err() {
            return;
        }
        spin(Duration::from_micros(server_delay_us));
        let _ = s.write_all(&fake::server_close_frame());
        let mut sink = Vec::new();
        let _ = s.read_to_end(&mut sink);
    });

    let stream = mio::net::TcpStream::connect(&addr).unwrap();
    let opened = Connection::insecure_open_stream(
        stream,
        ConnectionOptions::<Auth>::default(),
        ConnectionTuning::default(),
    );
    c.iterations.fetch_add(1, Ordering::Relaxed);
    match opened {
        Err(e) => {
            if c.open_failed.fetch_add(1, Ordering::Relaxed) == 0 {
                eprintln!("first insecure_open_stream error: {:?}", e);
            }
        }
        Ok(mut connection) => {
            spin(Duration::from_micros(client_delay_us));
            match op {
                Op::OpenChannel => {
                    let _ = connection.open_channel(None);
                }
                Op::ListenBlocked => {
                    let _ = connection.listen_for_connection_blocked();
                }
                Op::CloseOnly => {}
            }
            if let Err(Error::IoThreadPanic) = connection.close() {
                c.io_thread_panic.fetch_add(1, Ordering::Relaxed);
            }
        }
    }
    server.join().unwrap();
}

#[test]
fn d5_race() {
    let secs: u64 = std::env::var("D5_SECS").ok().and_then(|s| s.parse().ok()).unwrap_or(60);
    let threads: usize = std::env::var("D5_THREADS").ok().and_then(|s| s.parse().ok()).unwrap_or(4);
    let op = match std::env::var("D5_OP").as_deref() {
        Ok("blocked") => Op::ListenBlocked,
        Ok("close") => Op::CloseOnly,
        _ => Op::OpenChannel,
    };

    let counters = Arc::new(Counters::default());
    let hook_c = counters.clone();
    let printed = AtomicUsize::new(0);
    std::panic::set_hook(Box::new(move |info| {
        let msg = info.to_string();
        if msg.contains("ch0 slot cannot be readable after it is dropped") {
            hook_c.hook_alloc.fetch_add(1, Ordering::Relaxed);
            if printed.fetch_add(1, Ordering::Relaxed) < 2 {
                eprintln!(
                    "[panic hook] thread {:?}: {}",
                    std::thread::current().name(),
                    msg
                );
            }
        } else {
            eprintln!("[panic hook] OTHER panic: {}", msg);
        }
    }));

    let deadline = Instant::now() + Duration::from_secs(secs);
    let mut workers = Vec::new();
    for t in 0..threads {
        let c = counters.clone();
        workers.push(std::thread::spawn(move || {
            let mut i: u64 = t as u64;
            while Instant::now() < deadline {
                // sweep delays 0..~300us on both sides
                let sd = (i * 7) % 300;
                let cd = (i * 13) % 300;
                one_iteration(op, sd, cd, &c);
                i += 1;
            }
        }));
    }
    for w in workers {
        w.join().unwrap();
    }
    let _ = std::panic::take_hook();
    println!(
        "op={:?} threads={} secs={} iterations={} handshake/open failed={} close()==IoThreadPanic={} panic-hook hits(\"ch0 slot cannot be readable...\")={}",
        op,
        threads,
        secs,
        counters.iterations.load(Ordering::Relaxed),
        counters.open_failed.load(Ordering::Relaxed),
        counters.io_thread_panic.load(Ordering::Relaxed),
        counters.hook_alloc.load(Ordering::Relaxed),
    );
    assert_eq!(
        counters.io_thread_panic.load(Ordering::Relaxed),
        0,
        "D5 CONFIRMED: I/O thread panicked"
    );
}
