// Tiny scripted fake AMQP 0-9-1 server helpers, shared by the triage demos.
#![allow(dead_code)]

use amq_protocol::frame::generation::gen_method_frame;
use amq_protocol::protocol::channel::AMQPMethod as Chan;
use amq_protocol::protocol::connection::AMQPMethod as Conn;
use amq_protocol::protocol::{channel, connection, AMQPClass};
use amq_protocol::types::FieldTable;
use cookie_factory::GenError;
use std::io::{self, Read, Write};
use std::net::TcpStream;

/// Serialize one method frame; resize-and-retry exactly like src/serialize.rs.
pub fn method_frame(channel_id: u16, class: &AMQPClass) -> Vec<u8> {
    let mut buf: Vec<u8> = Vec::new();
    loop {
        let r = match gen_method_frame((&mut buf[..], 0), channel_id, class) {
            Ok((_, end)) => Ok(end),
            Err(GenError::BufferTooSmall(n)) => Err(n),
            Err(e) => panic!("gen error {:?}", e),
        };
        match r {
            Ok(end) => {
                buf.truncate(end);
                return buf;
            }
            Err(n) => buf.resize(n, 0),
        }
    }
}

/// Read one whole raw frame (7 byte header + payload + end marker).
pub fn read_frame(s: &mut TcpStream) -> io::Result<Vec<u8>> {
    let mut hdr = [0u8; 7];
    s.read_exact(&mut hdr)?;
    let size = u32::from_be_bytes([hdr[3], hdr[4], hdr[5], hdr[6]]) as usize;
    let mut rest = vec![0u8; size + 1];
    s.read_exact(&mut rest)?;
    let mut all = hdr.to_vec();
    all.extend_from_slice(&rest);
    Ok(all)
}

pub fn open_ok_frame() -> Vec<u8> {
    method_frame(
        0,
        &AMQPClass::Connection(Conn::OpenOk(connection::OpenOk {
            known_hosts: "".into(),
        })),
    )
}

/// Server half of the handshake up to (not including) sending Connection.OpenOk.
pub fn handshake_until_open(s: &mut TcpStream) -> io::Result<()> {
    let mut hdr = [0u8; 8];
    s.read_exact(&mut hdr)?;
    assert_eq!(&hdr, b"AMQP\x00\x00\x09\x01");
    s.write_all(&method_frame(
        0,
        &AMQPClass::Connection(Conn::Start(connection::Start {
            version_major: 0,
            version_minor: 9,
            server_properties: FieldTable::new(),
            mechanisms: "PLAIN".into(),
            locales: "en_US".into(),
        })),
    ))?;
    read_frame(s)?; // StartOk
    s.write_all(&method_frame(
        0,
        &AMQPClass::Connection(Conn::Tune(connection::Tune {
            channel_max: 2047,
            frame_max: 131072,
            heartbeat: 0,
        })),
    ))?;
    read_frame(s)?; // TuneOk
    read_frame(s)?; // Open
    Ok(())
}

pub fn handshake(s: &mut TcpStream) -> io::Result<()> {
    handshake_until_open(s)?;
    s.write_all(&open_ok_frame())
}

pub fn channel_open_ok_frame(n: u16) -> Vec<u8> {
    method_frame(
        n,
        &AMQPClass::Channel(Chan::OpenOk(channel::OpenOk {
            channel_id: "".into(),
        })),
    )
}

pub fn server_close_frame() -> Vec<u8> {
    method_frame(
        0,
        &AMQPClass::Connection(Conn::Close(connection::Close {
            reply_code: 320,
            reply_text: "bye".into(),
            class_id: 0,
            method_id: 0,
        })),
    )
}
