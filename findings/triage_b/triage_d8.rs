// D8 demo: client_exception() puts an unbounded Debug string into Connection.Close.reply_text
// (an AMQP short string, max 255 bytes).
mod fake;

use amiquip::{Auth, Connection, ConnectionOptions, ConnectionTuning};
use amq_protocol::frame::{parse_frame, AMQPFrame};
use amq_protocol::protocol::basic::{self, AMQPMethod as Basic};
use amq_protocol::protocol::connection::AMQPMethod as Conn;
use amq_protocol::protocol::AMQPClass;
use std::io::{Read, Write};
use std::net::TcpListener;
use std::time::Duration;

#[test]
fn d8_client_exception_close_frame_is_malformed() {
    let listener = TcpListener::bind("127.0.0.1:0").unwrap();
    let addr = listener.local_addr().unwrap();

    let server = std::thread::spawn(move || {
        let (mut s, _) = listener.accept().unwrap();
        s.set_read_timeout(Some(Duration::from_secs(10))).unwrap();
        fake::handshake(&mut s).unwrap();
        let open = fake::read_frame(&mut s).unwrap(); // Channel.Open on ch 1
        assert_eq!(&open[..3], &[1, 0, 1]);
        s.write_all(&fake::channel_open_ok_frame(1)).unwrap();
        // A method only a client may send:
        let publish = AMQPClass::Basic(Basic::Publish(basic::Publish {
            ticket: 0,
            exchange: "e".repeat(200),
            routing_key: "r".repeat(200),
            mandatory: false,
            immediate: false,
        }));
        s.write_all(&fake::method_frame(1, &publish)).unwrap();
        // capture everything the client writes from now on until EOF
        let mut captured = Vec::new();
        let eof = s.read_to_end(&mut captured);
        (captured, eof.map_err(|e| e.to_string()))
    });

    let stream = mio::net::TcpStream::connect(&addr).unwrap();
    let mut connection = Connection::insecure_open_stream(
        stream,
        ConnectionOptions::<Auth>::default(),
        ConnectionTuning::default(),
    )
    .unwrap();
    let channel = connection.open_channel(Some(1)).unwrap();

    let (captured, eof) = server.join().unwrap();
    println!("server: read_to_end -> {:?}, captured {} bytes", eof, captured.len());

    // split into frames by header
    let mut frames: Vec<&[u8]> = Vec::new();
    let mut rest = &captured[..];
    while rest.len() >= 7 {
        let size = u32::from_be_bytes([rest[3], rest[4], rest[5], rest[6]]) as usize;
        let total = 7 + size + 1;
        if rest.len() < total {
            println!("TRUNCATED frame: declared size {} but only {} bytes left", size, rest.len() - 7);
            break;
        }
        frames.push(&rest[..total]);
        rest = &rest[total..];
    }
    println!("frames captured: {}, trailing unframed bytes: {}", frames.len(), rest.len());
    let last = *frames.last().expect("client wrote no frame");
    let size = u32::from_be_bytes([last[3], last[4], last[5], last[6]]) as usize;
    println!(
        "last frame: type={} channel={} declared_size={} end_marker=0x{:02X}",
        last[0],
        u16::from_be_bytes([last[1], last[2]]),
        size,
        last[last.len() - 1]
    );
    let payload = &last[7..7 + size];
    let class_id = u16::from_be_bytes([payload[0], payload[1]]);
    let method_id = u16::from_be_bytes([payload[2], payload[3]]);
    let reply_code = u16::from_be_bytes([payload[4], payload[5]]);
    let len_byte = payload[6] as usize;
    // bytes that are really there between the length byte and the trailing class_id/method_id
    let actual_text_bytes = size - 2 - 2 - 2 - 1 - 2 - 2;
    println!(
        "payload: class={} method={} reply_code={} short-string length byte={} ; bytes actually written for reply_text={}",
        class_id, method_id, reply_code, len_byte, actual_text_bytes
    );
    println!(
        "actual reply_text bytes on the wire: {:?}",
        String::from_utf8_lossy(&payload[7..7 + actual_text_bytes])
    );

    let parsed = parse_frame(last);
    match &parsed {
        Ok((remaining, AMQPFrame::Method(ch, AMQPClass::Connection(Conn::Close(c))))) => {
            println!(
                "parse_frame: Ok, remaining={} ch={} Close {{ reply_code: {}, reply_text: {:?} (len {}), class_id: {}, method_id: {} }}",
                remaining.len(), ch, c.reply_code, c.reply_text, c.reply_text.len(), c.class_id, c.method_id
            );
            let consumed = 2 + 2 + 2 + 1 + c.reply_text.len() + 2 + 2;
            println!(
                "method parser consumed {} of {} payload bytes; {} bytes of garbage follow inside the frame",
                consumed, size, size - consumed
            );
        }
        Ok((_, other)) => println!("parse_frame: Ok but unexpected frame {:?}", other),
        Err(e) => println!("parse_frame: Err {:?}", e),
    }

    let close_result = connection.close();
    println!("client: connection.close() -> {:?}", close_result);
    drop(channel);

    // The property that SHOULD hold: the Close is well-formed (length byte == bytes written,
    // class_id/method_id as set by the client (0,0), reply_code 530).
    assert_eq!((class_id, method_id), (10, 50), "last frame is not Connection.Close");
    assert_eq!(reply_code, 530);
    assert_eq!(
        len_byte, actual_text_bytes,
        "D8 CONFIRMED: short-string length byte does not match the bytes written"
    );
}
