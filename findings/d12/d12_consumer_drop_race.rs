// D12: dropping a Consumer must not take the connection down.
//
// `Consumer`'s Drop sends Basic.Cancel, waits for the broker's Basic.CancelOk and then drops the
// consumer's message queue (its crossbeam Receiver). That is ordinary use of the public API; the
// other channels and consumers of the same connection must not notice it.
//
// Scenario (per connection; the scripted broker answers every request with its -ok):
//   * open channel 1 ("work") and channel 2 ("witness");
//   * on the witness channel create one long-lived consumer;
//   * N times: basic_consume on the work channel, then drop(consumer);
//     after each drop check that the connection is still alive:
//       - a synchronous call on the witness channel (qos) still returns Ok,
//       - the witness consumer's queue is still connected (empty, not disconnected);
//   * finally cancel the witness, close both channels and `Connection::close()` must return Ok.
//
// Two more tests use the same frame for the other arms of the I/O thread that release the caller
// before they post the consumers' terminal messages:
//   B  the broker answers the work channel's basic.cancel with a server-initiated channel.close
//      (406); per iteration a fresh work channel, basic_consume, drop(consumer), drop(channel);
//      the witness channel must not notice and connection.close() must be Ok.
//   C  the broker answers the work channel's basic.cancel with a server-initiated
//      connection.close (320); one connection per iteration; the witness consumer must end with
//      ServerClosedConnection and connection.close() must be Err(ServerClosedConnection{320}).
//
// Knobs (environment variables), to widen the race window without touching the library:
//   D12_ITERS  consume/drop iterations per connection     (default 300; test C: connections per
//              client thread, default 200)
//   D12_CONNS  independent client threads                 (default 1)
//   D12_BURN   extra busy-looping threads to load the CPUs (default 0)

mod d12_broker;

use amiquip::{
    Auth, Connection, ConnectionOptions, ConnectionTuning, ConsumerMessage, ConsumerOptions, Error,
};
use crossbeam_channel::TryRecvError;
use d12_broker::{Broker, CancelReply};
use std::sync::atomic::{AtomicBool, Ordering};
use std::sync::{mpsc, Arc, Mutex};
use std::thread;
use std::time::Duration;

// Keeps the error lines the library logs (with the name of the thread that logged them), so
// that a failure report shows what the I/O thread itself said when it gave up. Levels below
// error are switched off; nothing is logged on the successful path, so this does not affect timing.
struct Capture;
static CAPTURED: Mutex<Vec<String>> = Mutex::new(Vec::new());
impl log::Log for Capture {
    fn enabled(&self, m: &log::Metadata) -> bool {
        m.level() <= log::Level::Error
    }
    fn log(&self, r: &log::Record) {
        if self.enabled(r.metadata()) {
            CAPTURED.lock().unwrap().push(format!(
                "[{} {}] {}",
                thread::current().name().unwrap_or("?"),
                r.level(),
                r.args()
            ));
        }
    }
    fn flush(&self) {}
}

fn env_usize(name: &str, default: usize) -> usize {
    std::env::var(name)
        .ok()
        .and_then(|v| v.parse().ok())
        .unwrap_or(default)
}

/// One connection's worth of the scenario. Ok(()) if nothing went wrong, otherwise a description
/// of everything that did (first failing iteration first).
fn one_connection(conn_no: usize, iters: usize) -> Result<(), String> {
    let (addr, broker) = Broker::start();
    let stream = mio::net::TcpStream::connect(&addr).unwrap();
    let mut conn = Connection::insecure_open_stream(
        stream,
        ConnectionOptions::<Auth>::default(),
        ConnectionTuning::default(),
    )
    .map_err(|e| format!("conn {}: open failed: {:?}", conn_no, e))?;
    let work = conn
        .open_channel(Some(1))
        .map_err(|e| format!("conn {}: open_channel(1) failed: {:?}", conn_no, e))?;
    let witness_channel = conn
        .open_channel(Some(2))
        .map_err(|e| format!("conn {}: open_channel(2) failed: {:?}", conn_no, e))?;
    let witness = witness_channel
        .basic_consume("witness-queue", ConsumerOptions::default())
        .map_err(|e| format!("conn {}: witness basic_consume failed: {:?}", conn_no, e))?;

    let mut problems: Vec<String> = Vec::new();
    for i in 1..=iters {
        match work.basic_consume("work-queue", ConsumerOptions::default()) {
            Ok(consumer) => drop(consumer),
            Err(e) => problems.push(format!(
                "iteration {}: work.basic_consume -> Err({:?})",
                i, e
            )),
        }
        if let Err(e) = witness_channel.qos(0, 1, false) {
            problems.push(format!(
                "iteration {}: witness_channel.qos -> Err({:?})",
                i, e
            ));
        }
        match witness.receiver().try_recv() {
            Err(TryRecvError::Empty) => {}
            Err(TryRecvError::Disconnected) => problems.push(format!(
                "iteration {}: witness consumer queue disconnected without any terminal message",
                i
            )),
            Ok(msg) => problems.push(format!(
                "iteration {}: witness consumer got unexpected {}",
                i,
                describe(&msg)
            )),
        }
        if !problems.is_empty() {
            break;
        }
    }

    // Orderly shutdown; every step must succeed.
    if let Err(e) = witness.cancel() {
        problems.push(format!("shutdown: witness.cancel() -> Err({:?})", e));
    }
    match witness.receiver().try_recv() {
        Ok(ConsumerMessage::ClientCancelled) => {}
        Ok(msg) => problems.push(format!(
            "shutdown: witness queue ends with {} instead of ClientCancelled",
            describe(&msg)
        )),
        Err(e) => problems.push(format!(
            "shutdown: witness queue has no terminal message ({:?})",
            e
        )),
    }
    drop(witness);
    if let Err(e) = witness_channel.close() {
        problems.push(format!("shutdown: witness_channel.close() -> Err({:?})", e));
    }
    if let Err(e) = work.close() {
        problems.push(format!("shutdown: work.close() -> Err({:?})", e));
    }
    if let Err(e) = conn.close() {
        problems.push(format!("shutdown: connection.close() -> Err({:?})", e));
    }
    let seen = broker.join().expect("broker thread panicked");
    if !seen.orderly_close {
        problems.push(format!(
            "broker: socket ended without connection.close (broker saw {:?})",
            seen
        ));
    }

    if problems.is_empty() {
        Ok(())
    } else {
        Err(format!(
            "conn {} (broker saw {:?}):\n    {}",
            conn_no,
            seen,
            problems.join("\n    ")
        ))
    }
}

/// Variant B: every cancel on a work channel is answered with a server-initiated channel.close.
fn server_channel_close_connection(conn_no: usize, iters: usize) -> Result<(), String> {
    let (addr, broker) = Broker::start_with(CancelReply::ChannelClose);
    let stream = mio::net::TcpStream::connect(&addr).unwrap();
    let mut conn = Connection::insecure_open_stream(
        stream,
        ConnectionOptions::<Auth>::default(),
        ConnectionTuning::default(),
    )
    .map_err(|e| format!("conn {}: open failed: {:?}", conn_no, e))?;
    let witness_channel = conn
        .open_channel(Some(d12_broker::WITNESS_CHANNEL))
        .map_err(|e| format!("conn {}: open_channel(witness) failed: {:?}", conn_no, e))?;
    let witness = witness_channel
        .basic_consume("witness-queue", ConsumerOptions::default())
        .map_err(|e| format!("conn {}: witness basic_consume failed: {:?}", conn_no, e))?;

    let mut problems: Vec<String> = Vec::new();
    for i in 1..=iters {
        // The previous work channel was closed by the server; its id is free again.
        match conn.open_channel(Some(1)) {
            Ok(work) => {
                match work.basic_consume("work-queue", ConsumerOptions::default()) {
                    // Drop: cancel() gets Err(ServerClosedChannel), which Drop ignores.
                    Ok(consumer) => drop(consumer),
                    Err(e) => problems.push(format!(
                        "iteration {}: work.basic_consume -> Err({:?})",
                        i, e
                    )),
                }
                drop(work);
            }
            Err(e) => problems.push(format!(
                "iteration {}: open_channel(work) -> Err({:?})",
                i, e
            )),
        }
        if let Err(e) = witness_channel.qos(0, 1, false) {
            problems.push(format!(
                "iteration {}: witness_channel.qos -> Err({:?})",
                i, e
            ));
        }
        match witness.receiver().try_recv() {
            Err(TryRecvError::Empty) => {}
            Err(TryRecvError::Disconnected) => problems.push(format!(
                "iteration {}: witness consumer queue disconnected without any terminal message",
                i
            )),
            Ok(msg) => problems.push(format!(
                "iteration {}: witness consumer got unexpected {}",
                i,
                describe(&msg)
            )),
        }
        if !problems.is_empty() {
            break;
        }
    }

    if let Err(e) = witness.cancel() {
        problems.push(format!("shutdown: witness.cancel() -> Err({:?})", e));
    }
    match witness.receiver().try_recv() {
        Ok(ConsumerMessage::ClientCancelled) => {}
        Ok(msg) => problems.push(format!(
            "shutdown: witness queue ends with {} instead of ClientCancelled",
            describe(&msg)
        )),
        Err(e) => problems.push(format!(
            "shutdown: witness queue has no terminal message ({:?})",
            e
        )),
    }
    drop(witness);
    if let Err(e) = witness_channel.close() {
        problems.push(format!("shutdown: witness_channel.close() -> Err({:?})", e));
    }
    if let Err(e) = conn.close() {
        problems.push(format!("shutdown: connection.close() -> Err({:?})", e));
    }
    let seen = broker.join().expect("broker thread panicked");
    if !seen.orderly_close {
        problems.push("broker: socket ended without connection.close".to_string());
    }

    if problems.is_empty() {
        Ok(())
    } else {
        Err(format!(
            "conn {} (broker saw {:?}):\n    {}",
            conn_no,
            seen,
            problems.join("\n    ")
        ))
    }
}

/// Variant C: `iters` connections one after the other; on each, the cancel sent by dropping the
/// work consumer is answered with a server-initiated connection.close.
fn server_connection_close_connections(client_no: usize, iters: usize) -> Result<(), String> {
    for i in 1..=iters {
        let (addr, broker) = Broker::start_with(CancelReply::ConnectionClose);
        let stream = mio::net::TcpStream::connect(&addr).unwrap();
        let mut conn = Connection::insecure_open_stream(
            stream,
            ConnectionOptions::<Auth>::default(),
            ConnectionTuning::default(),
        )
        .map_err(|e| format!("client {} connection {}: open failed: {:?}", client_no, i, e))?;
        let work = conn
            .open_channel(Some(1))
            .map_err(|e| format!("client {} connection {}: open_channel(1): {:?}", client_no, i, e))?;
        let witness_channel = conn
            .open_channel(Some(d12_broker::WITNESS_CHANNEL))
            .map_err(|e| format!("client {} connection {}: open_channel(2): {:?}", client_no, i, e))?;
        let witness = witness_channel
            .basic_consume("witness-queue", ConsumerOptions::default())
            .map_err(|e| format!("client {} connection {}: witness consume: {:?}", client_no, i, e))?;

        let mut problems: Vec<String> = Vec::new();
        match work.basic_consume("work-queue", ConsumerOptions::default()) {
            // Drop: cancel() gets Err(ServerClosedConnection), which Drop ignores.
            Ok(consumer) => drop(consumer),
            Err(e) => problems.push(format!("work.basic_consume -> Err({:?})", e)),
        }
        match witness.receiver().recv_timeout(Duration::from_secs(10)) {
            Ok(ConsumerMessage::ServerClosedConnection(Error::ServerClosedConnection {
                code: 320,
                ..
            })) => {}
            Ok(msg) => problems.push(format!(
                "witness queue ends with {} instead of ServerClosedConnection(320)",
                describe(&msg)
            )),
            Err(e) => problems.push(format!(
                "witness queue has no terminal message ({:?})",
                e
            )),
        }
        drop(witness);
        drop(witness_channel);
        drop(work);
        match conn.close() {
            Err(Error::ServerClosedConnection { code: 320, .. }) => {}
            other => problems.push(format!(
                "connection.close() -> {:?} instead of Err(ServerClosedConnection {{ code: 320, .. }})",
                other
            )),
        }
        let seen = broker.join().expect("broker thread panicked");
        if !seen.connection_close_ok {
            problems.push("broker: no connection.close-ok from the client".to_string());
        }
        if !problems.is_empty() {
            return Err(format!(
                "client {} connection {} (broker saw {:?}):\n    {}",
                client_no,
                i,
                seen,
                problems.join("\n    ")
            ));
        }
    }
    Ok(())
}

fn describe(msg: &ConsumerMessage) -> &'static str {
    match msg {
        ConsumerMessage::Delivery(_) => "Delivery",
        ConsumerMessage::ClientCancelled => "ClientCancelled",
        ConsumerMessage::ServerCancelled => "ServerCancelled",
        ConsumerMessage::ClientClosedChannel => "ClientClosedChannel",
        ConsumerMessage::ServerClosedChannel(_) => "ServerClosedChannel",
        ConsumerMessage::ClientClosedConnection => "ClientClosedConnection",
        ConsumerMessage::ServerClosedConnection(_) => "ServerClosedConnection",
    }
}

fn run_clients(what: &str, default_iters: usize, client: fn(usize, usize) -> Result<(), String>) {
    let iters = env_usize("D12_ITERS", default_iters);
    let conns = env_usize("D12_CONNS", 1);
    let burn = env_usize("D12_BURN", 0);
    let _ = log::set_logger(&Capture);
    log::set_max_level(log::LevelFilter::Error);

    let stop = Arc::new(AtomicBool::new(false));
    let burners: Vec<_> = (0..burn)
        .map(|_| {
            let stop = Arc::clone(&stop);
            thread::spawn(move || {
                let mut x = 0u64;
                while !stop.load(Ordering::Relaxed) {
                    for _ in 0..10_000 {
                        x = x.wrapping_mul(6364136223846793005).wrapping_add(1442695040888963407);
                    }
                    std::hint::black_box(x);
                }
            })
        })
        .collect();

    // Run the clients on helper threads so that a hang turns into a failure, not a stuck run.
    let (done_tx, done_rx) = mpsc::channel();
    for c in 0..conns {
        let done_tx = done_tx.clone();
        thread::Builder::new()
            .name(format!("d12-client-{}", c))
            .spawn(move || {
                let r = std::panic::catch_unwind(|| client(c, iters))
                    .unwrap_or_else(|_| Err(format!("conn {}: client thread panicked", c)));
                let _ = done_tx.send(r);
            })
            .unwrap();
    }
    drop(done_tx);

    let mut failures = Vec::new();
    for _ in 0..conns {
        match done_rx.recv_timeout(Duration::from_secs(300)) {
            Ok(Ok(())) => {}
            Ok(Err(e)) => failures.push(e),
            Err(e) => {
                failures.push(format!("a client did not finish within 300 s ({:?})", e));
                break;
            }
        }
    }
    stop.store(true, Ordering::Relaxed);
    for b in burners {
        let _ = b.join();
    }

    assert!(
        failures.is_empty(),
        "D12 ({}): broken in {} of {} client thread(s) (iters={}, burn={}):\n  {}\n  library log (error level):\n    {}",
        what,
        failures.len(),
        conns,
        iters,
        burn,
        failures.join("\n  "),
        CAPTURED.lock().unwrap().join("\n    ")
    );
}

#[test]
fn dropping_consumers_leaves_the_connection_alive() {
    run_clients("consumer drop vs CancelOk", 300, one_connection);
}

#[test]
fn server_channel_close_during_consumer_drop_leaves_the_connection_alive() {
    run_clients(
        "consumer drop vs server Channel.Close",
        300,
        server_channel_close_connection,
    );
}

#[test]
fn server_connection_close_during_consumer_drop_is_reported_as_such() {
    run_clients(
        "consumer drop vs server Connection.Close",
        200,
        server_connection_close_connections,
    );
}
