// Scripted stand-in for an AMQP 0-9-1 broker, just big enough for tests/d12_consumer_drop_race.rs.
// It accepts one client on 127.0.0.1, walks it through the connection handshake and then answers
// every request with its -ok method:
//   channel.open -> open-ok, channel.close -> close-ok, basic.qos -> qos-ok,
//   basic.consume -> consume-ok with a fresh consumer tag, basic.cancel -> cancel-ok (same tag),
//   connection.close -> close-ok (and the broker thread ends).
// In the default mode it never sends anything unsolicited, never closes a channel and never closes
// the connection on its own, so whatever goes wrong with the connection is the client's doing.
// Two more modes change the answer to a basic.cancel on any channel other than WITNESS_CHANNEL:
//   CancelReply::ChannelClose    -> server-initiated channel.close 406 on that channel
//   CancelReply::ConnectionClose -> server-initiated connection.close 320 on channel 0; the broker
//                                   then waits for the client's connection.close-ok and ends.
#![allow(dead_code)]

use amq_protocol::frame::generation::gen_method_frame;
use amq_protocol::frame::{parse_frame, AMQPFrame};
use amq_protocol::protocol::basic::AMQPMethod as Basic;
use amq_protocol::protocol::basic::{CancelOk, ConsumeOk, QosOk};
use amq_protocol::protocol::channel::AMQPMethod as Chan;
use amq_protocol::protocol::channel::Close as ChanClose;
use amq_protocol::protocol::channel::CloseOk as ChanCloseOk;
use amq_protocol::protocol::channel::OpenOk as ChanOpenOk;
use amq_protocol::protocol::connection::AMQPMethod as Conn;
use amq_protocol::protocol::connection::{
    Close as ConnClose, CloseOk as ConnCloseOk, OpenOk, Start, Tune,
};
use amq_protocol::protocol::AMQPClass;
use amq_protocol::types::FieldTable;
use cookie_factory::GenError;
use std::io::{Read, Write};
use std::net::{SocketAddr, TcpListener, TcpStream};
use std::thread::{self, JoinHandle};
use std::time::Duration;

fn gen<F: Fn(&mut [u8]) -> Result<usize, GenError>>(f: F) -> Vec<u8> {
    let mut buf = vec![0u8; 128];
    loop {
        match f(&mut buf) {
            Ok(end) => {
                buf.truncate(end);
                return buf;
            }
            Err(GenError::BufferTooSmall(n)) => buf.resize(n, 0),
            Err(e) => panic!("frame generation failed: {:?}", e),
        }
    }
}

/// Serialized method frame.
pub fn method(channel: u16, class: AMQPClass) -> Vec<u8> {
    gen(|b| gen_method_frame((b, 0), channel, &class).map(|(_, end)| end))
}

/// Cancels on this channel always get cancel-ok, whatever the mode.
pub const WITNESS_CHANNEL: u16 = 2;

/// How the broker answers a basic.cancel on a channel other than WITNESS_CHANNEL.
#[derive(Debug, Clone, Copy, PartialEq)]
pub enum CancelReply {
    CancelOk,
    ChannelClose,
    ConnectionClose,
}

/// What the broker saw, returned from its thread when the client is gone.
#[derive(Debug, Default, Clone)]
pub struct Seen {
    pub consumes: usize,
    pub cancels: usize,
    pub qos: usize,
    pub channel_opens: usize,
    /// channel.close-ok methods from the client (answers to server-initiated channel.close).
    pub channel_close_oks: usize,
    /// the client answered the server-initiated connection.close with close-ok.
    pub connection_close_ok: bool,
    /// true: the client sent connection.close and got close-ok; false: the socket just ended.
    pub orderly_close: bool,
}

pub struct Broker {
    sock: TcpStream,
    pending: Vec<u8>,
}

impl Broker {
    /// Listens on an ephemeral loopback port and serves exactly one client on its own thread.
    pub fn start() -> (SocketAddr, JoinHandle<Seen>) {
        Broker::start_with(CancelReply::CancelOk)
    }

    pub fn start_with(mode: CancelReply) -> (SocketAddr, JoinHandle<Seen>) {
        let listener = TcpListener::bind("127.0.0.1:0").expect("bind");
        let addr = listener.local_addr().unwrap();
        let thread = thread::Builder::new()
            .name("d12-broker".into())
            .spawn(move || {
                let (sock, _) = listener.accept().expect("accept");
                sock.set_nodelay(true).unwrap();
                sock.set_read_timeout(Some(Duration::from_secs(60))).unwrap();
                let mut broker = Broker {
                    sock,
                    pending: Vec::new(),
                };
                broker.handshake();
                broker.serve(mode)
            })
            .unwrap();
        (addr, thread)
    }

    fn handshake(&mut self) {
        let mut proto = [0u8; 8];
        self.sock.read_exact(&mut proto).unwrap();
        assert_eq!(&proto, b"AMQP\x00\x00\x09\x01");
        self.send(&method(
            0,
            AMQPClass::Connection(Conn::Start(Start {
                version_major: 0,
                version_minor: 9,
                server_properties: FieldTable::new(),
                mechanisms: "PLAIN".into(),
                locales: "en_US".into(),
            })),
        ));
        match self.next_frame() {
            Some(AMQPFrame::Method(0, AMQPClass::Connection(Conn::StartOk(_)))) => {}
            f => panic!("wanted start-ok, got {:?}", f),
        }
        self.send(&method(
            0,
            AMQPClass::Connection(Conn::Tune(Tune {
                channel_max: 2047,
                frame_max: 131072,
                heartbeat: 0,
            })),
        ));
        match self.next_frame() {
            Some(AMQPFrame::Method(0, AMQPClass::Connection(Conn::TuneOk(_)))) => {}
            f => panic!("wanted tune-ok, got {:?}", f),
        }
        match self.next_frame() {
            Some(AMQPFrame::Method(0, AMQPClass::Connection(Conn::Open(_)))) => {}
            f => panic!("wanted open, got {:?}", f),
        }
        self.send(&method(
            0,
            AMQPClass::Connection(Conn::OpenOk(OpenOk {
                known_hosts: "".into(),
            })),
        ));
    }

    /// One write of `bytes` to the client. Errors are ignored: if the client already went away
    /// the client side of the test is the one that reports it.
    fn send(&mut self, bytes: &[u8]) {
        let _ = self.sock.write_all(bytes);
        let _ = self.sock.flush();
    }

    /// The next frame the client sent, or None when the socket is closed / silent for 60 s.
    fn next_frame(&mut self) -> Option<AMQPFrame> {
        loop {
            if self.pending.len() >= 7 {
                let mut len = [0u8; 4];
                len.copy_from_slice(&self.pending[3..7]);
                let total = u32::from_be_bytes(len) as usize + 8;
                if self.pending.len() >= total {
                    let frame = parse_frame(&self.pending[..total])
                        .map(|(_, f)| f)
                        .unwrap_or_else(|e| panic!("client sent garbage: {:?}", e));
                    self.pending.drain(..total);
                    return Some(frame);
                }
            }
            let mut buf = [0u8; 8192];
            match self.sock.read(&mut buf) {
                Ok(0) | Err(_) => return None,
                Ok(n) => self.pending.extend_from_slice(&buf[..n]),
            }
        }
    }

    fn serve(&mut self, mode: CancelReply) -> Seen {
        let mut seen = Seen::default();
        let mut next_tag = 0u64;
        while let Some(frame) = self.next_frame() {
            match frame {
                AMQPFrame::Method(n, AMQPClass::Channel(Chan::Open(_))) => {
                    seen.channel_opens += 1;
                    self.send(&method(
                        n,
                        AMQPClass::Channel(Chan::OpenOk(ChanOpenOk {
                            channel_id: "".into(),
                        })),
                    ))
                }
                AMQPFrame::Method(_, AMQPClass::Channel(Chan::CloseOk(_))) => {
                    seen.channel_close_oks += 1;
                }
                AMQPFrame::Method(0, AMQPClass::Connection(Conn::CloseOk(_))) => {
                    seen.connection_close_ok = true;
                    return seen;
                }
                AMQPFrame::Method(n, AMQPClass::Channel(Chan::Close(_))) => self.send(&method(
                    n,
                    AMQPClass::Channel(Chan::CloseOk(ChanCloseOk {})),
                )),
                AMQPFrame::Method(n, AMQPClass::Basic(Basic::Qos(_))) => {
                    seen.qos += 1;
                    self.send(&method(n, AMQPClass::Basic(Basic::QosOk(QosOk {}))))
                }
                AMQPFrame::Method(n, AMQPClass::Basic(Basic::Consume(_))) => {
                    seen.consumes += 1;
                    next_tag += 1;
                    self.send(&method(
                        n,
                        AMQPClass::Basic(Basic::ConsumeOk(ConsumeOk {
                            consumer_tag: format!("ctag-{}.{}", n, next_tag),
                        })),
                    ))
                }
                AMQPFrame::Method(n, AMQPClass::Basic(Basic::Cancel(c))) => {
                    seen.cancels += 1;
                    let reply = if n == WITNESS_CHANNEL {
                        CancelReply::CancelOk
                    } else {
                        mode
                    };
                    match reply {
                        CancelReply::CancelOk => self.send(&method(
                            n,
                            AMQPClass::Basic(Basic::CancelOk(CancelOk {
                                consumer_tag: c.consumer_tag,
                            })),
                        )),
                        CancelReply::ChannelClose => self.send(&method(
                            n,
                            AMQPClass::Channel(Chan::Close(ChanClose {
                                reply_code: 406,
                                reply_text: "PRECONDITION_FAILED".into(),
                                class_id: 60,
                                method_id: 30,
                            })),
                        )),
                        CancelReply::ConnectionClose => self.send(&method(
                            0,
                            AMQPClass::Connection(Conn::Close(ConnClose {
                                reply_code: 320,
                                reply_text: "CONNECTION_FORCED".into(),
                                class_id: 0,
                                method_id: 0,
                            })),
                        )),
                    }
                }
                AMQPFrame::Method(0, AMQPClass::Connection(Conn::Close(_))) => {
                    self.send(&method(
                        0,
                        AMQPClass::Connection(Conn::CloseOk(ConnCloseOk {})),
                    ));
                    seen.orderly_close = true;
                    return seen;
                }
                _ => {}
            }
        }
        seen
    }
}
