// One-off triage aid (NOT part of any registered check): demonstrates D11 against the
// unmodified library with a scripted loopback server. Place as tests/triage_d9_d10.rs in a
// scratch worktree of /repo (copy Cargo.lock) and run
//   cargo test --offline --test triage_d9_d10 -- --nocapture --test-threads=1
// Observed on the pinned tree (fbf6d71):
//   D9/secure : insecure_open_stream -> Err(InvalidCredentials)   (documented: SaslSecureNotSupported)
//   D9/timeout: silent server after StartOk, connection_timeout 300ms -> Err(InvalidCredentials) (expected ConnectionTimeout)
//   D10       : server writes CloseOk and closes the socket at once -> close() = Err(UnexpectedSocketClose) in 79 of 80 runs
use amiquip::{Auth, Connection, ConnectionOptions, ConnectionTuning, Error, FieldTable};
use amq_protocol::frame::generation::gen_method_frame;
use amq_protocol::frame::{parse_frame, AMQPFrame};
use amq_protocol::protocol::connection::{AMQPMethod, Close, OpenOk, Start, Tune};
use amq_protocol::protocol::AMQPClass;
use cookie_factory::GenError;
use std::io::{Read, Write};
use std::net::{SocketAddr, TcpListener, TcpStream};
use std::thread;
use std::time::Duration;

fn method_frame(channel_id: u16, method: AMQPMethod) -> Vec<u8> {
    let class = AMQPClass::Connection(method);
    let mut buf: Vec<u8> = Vec::new();
    loop {
        let resize_to = match gen_method_frame((&mut buf[..], 0), channel_id, &class) {
            Ok((_, end)) => { buf.truncate(end); return buf; }
            Err(GenError::BufferTooSmall(n)) => n,
            Err(e) => panic!("gen error {:?}", e),
        };
        buf.resize(resize_to, 0);
    }
}

fn start_frame() -> Vec<u8> {
    method_frame(0, AMQPMethod::Start(Start {
        version_major: 0, version_minor: 9, server_properties: FieldTable::new(),
        mechanisms: "PLAIN".into(), locales: "en_US".into(),
    }))
}

fn read_protocol_header(s: &mut TcpStream) {
    let mut hdr = [0u8; 8];
    s.read_exact(&mut hdr).unwrap();
    assert_eq!(&hdr, b"AMQP\x00\x00\x09\x01");
}

fn read_frame(s: &mut TcpStream) -> AMQPFrame {
    let mut head = [0u8; 7];
    s.read_exact(&mut head).unwrap();
    let size = u32::from_be_bytes([head[3], head[4], head[5], head[6]]) as usize;
    let mut all = head.to_vec();
    all.resize(7 + size + 1, 0);
    s.read_exact(&mut all[7..]).unwrap();
    let (rest, frame) = parse_frame(&all).expect("server could not parse client frame");
    assert!(rest.is_empty());
    frame
}

fn expect_method(s: &mut TcpStream, name: &str) {
    let frame = read_frame(s);
    let ok = match (&frame, name) {
        (AMQPFrame::Method(0, AMQPClass::Connection(AMQPMethod::StartOk(_))), "StartOk") => true,
        (AMQPFrame::Method(0, AMQPClass::Connection(AMQPMethod::TuneOk(_))), "TuneOk") => true,
        (AMQPFrame::Method(0, AMQPClass::Connection(AMQPMethod::Open(_))), "Open") => true,
        (AMQPFrame::Method(0, AMQPClass::Connection(AMQPMethod::Close(_))), "Close") => true,
        _ => false,
    };
    assert!(ok, "server expected {} but got {:?}", name, frame);
}

fn spawn_server<F>(script: F) -> (SocketAddr, thread::JoinHandle<()>)
where F: FnOnce(TcpStream) + Send + 'static {
    let listener = TcpListener::bind("127.0.0.1:0").unwrap();
    let addr = listener.local_addr().unwrap();
    let handle = thread::spawn(move || {
        let (stream, _) = listener.accept().unwrap();
        stream.set_nodelay(true).unwrap();
        script(stream);
    });
    (addr, handle)
}

fn client_open(addr: &SocketAddr, options: ConnectionOptions<Auth>) -> Result<Connection, Error> {
    let stream = mio::net::TcpStream::connect(addr).unwrap();
    Connection::insecure_open_stream(stream, options, ConnectionTuning::default())
}


// D11: frames that arrive in the same read as Connection.OpenOk are fed to the handshake state
// machine in state Done and rejected with FrameUnexpected; cut differently, the same bytes give a
// usable connection that then sees the server's Close.
fn run(one_write: bool) -> Result<Result<(), Error>, Error> {
    let (addr, server) = spawn_server(move |mut s| {
        read_protocol_header(&mut s);
        s.write_all(&start_frame()).unwrap();
        expect_method(&mut s, "StartOk");
        s.write_all(&method_frame(0, AMQPMethod::Tune(Tune { channel_max: 2047, frame_max: 131072, heartbeat: 0 }))).unwrap();
        expect_method(&mut s, "TuneOk");
        expect_method(&mut s, "Open");
        let open_ok = method_frame(0, AMQPMethod::OpenOk(OpenOk { known_hosts: "".into() }));
        let close = method_frame(0, AMQPMethod::Close(Close { reply_code: 320, reply_text: "bye".into(), class_id: 0, method_id: 0 }));
        if one_write {
            let mut both = open_ok.clone();
            both.extend_from_slice(&close);
            s.write_all(&both).unwrap();
        } else {
            s.write_all(&open_ok).unwrap();
            thread::sleep(Duration::from_millis(300));
            s.write_all(&close).unwrap();
        }
        // read CloseOk (or EOF)
        let mut buf = [0u8; 64];
        let _ = s.set_read_timeout(Some(Duration::from_millis(800)));
        let _ = s.read(&mut buf);
    });
    let r = client_open(&addr, ConnectionOptions::default()).map(|c| { thread::sleep(Duration::from_millis(500)); c.close() });
    server.join().unwrap();
    r
}

#[test]
fn d11_open_ok_and_close_in_two_reads() {
    let r = run(false);
    println!("two reads : {:?}", r);
    assert!(matches!(r, Ok(Err(Error::ServerClosedConnection { code: 320, .. }))), "got {:?}", r);
}

#[test]
fn d11_open_ok_and_close_in_one_read() {
    let r = run(true);
    println!("one read  : {:?}", r);
    assert!(matches!(r, Ok(Err(Error::ServerClosedConnection { code: 320, .. }))), "got {:?}", r);
}
