"""Oracle table: public operation -> the AMQP method it must put on the wire.

Written by hand from the AMQP 0-9-1 specification (method field lists), the crate's public
documentation of each operation and property C12/C02/C04's statements -- NOT derived from
the code under analysis. Field sources are written in terms of the operation's parameters
(positional names declared in `params`); `self.name` etc. are fields of the receiver.

sink:  call (wait for `reply`), nowait (no wait), get, consume, close0 (connection close),
on:    the Channel / connection object whose own handle must carry the method
ret:   canonical return value with REPLY standing for the awaited reply
"""

B = 'amq_protocol::protocol::basic::'
Q = 'amq_protocol::protocol::queue::'
X = 'amq_protocol::protocol::exchange::'
CH = 'amq_protocol::protocol::channel::'
CO = 'amq_protocol::protocol::connection::'
CF = 'amq_protocol::protocol::confirm::'

# FieldTable is a type alias of BTreeMap<ShortString, AMQPValue>: an empty argument table
EMPTY_TABLE = 'std::collections::BTreeMap::new()'

# canonical return forms (engine/amqlint/wire.py::canon_ret): x.map(|v| body) == Ok(body[v := x?])
UNIT_MAP = 'Ok(())'


def row(fn, params, sink, on, cls, method, fields, reply=None, ret=None, asserts=None, public=True, pre=None):
    return dict(fn=fn, params=params, sink=sink, on=on, cls=cls, method=method, fields=fields, reply=reply,
                ret=ret, asserts=asserts or [], public=public, pre=pre)


def qbind(nowait):
    return {'ticket': '0', 'queue': 'queue', 'exchange': 'exchange', 'routing_key': 'routing_key',
            'nowait': nowait, 'arguments': 'arguments'}


def xbind(nowait):
    return {'ticket': '0', 'destination': 'destination', 'source': 'source', 'routing_key': 'routing_key',
            'nowait': nowait, 'arguments': 'arguments'}


def qdeclare(queue, passive, nowait, opts='options'):
    if opts is None:
        return {'ticket': '0', 'queue': queue, 'passive': passive, 'durable': 'false', 'exclusive': 'false',
                'auto_delete': 'false', 'nowait': nowait, 'arguments': EMPTY_TABLE}
    return {'ticket': '0', 'queue': queue, 'passive': passive, 'durable': opts + '.durable',
            'exclusive': opts + '.exclusive', 'auto_delete': opts + '.auto_delete', 'nowait': nowait,
            'arguments': opts + '.arguments'}


def xdeclare(passive, nowait, opts='options', type_='type_'):
    if opts is None:
        return {'ticket': '0', 'exchange': 'exchange', 'passive': passive, 'type_': type_, 'durable': 'false',
                'auto_delete': 'false', 'internal': 'false', 'nowait': nowait,
                'arguments': EMPTY_TABLE}
    return {'ticket': '0', 'exchange': 'exchange', 'passive': passive, 'type_': type_, 'durable': opts + '.durable',
            'auto_delete': opts + '.auto_delete', 'internal': opts + '.internal', 'nowait': nowait,
            'arguments': opts + '.arguments'}


QUEUE_RET = 'Ok(queue::Queue{channel: self, consumer_count: Some(REPLY?.consumer_count), message_count: Some(REPLY?.message_count), name: REPLY?.queue})'

ROWS = [
    # ---------------------------------------------------------------- Channel
    row('channel::Channel::qos', ['self', 'prefetch_size', 'prefetch_count', 'global'], 'call', 'self', B, 'Qos',
        {'prefetch_size': 'prefetch_size', 'prefetch_count': 'prefetch_count', 'global': 'global'}, B + 'QosOk', UNIT_MAP),
    row('channel::Channel::recover', ['self', 'requeue'], 'call', 'self', B, 'Recover', {'requeue': 'requeue'}, B + 'RecoverOk', UNIT_MAP),
    row('channel::Channel::enable_publisher_confirms', ['self'], 'call', 'self', CF, 'Select', {'nowait': 'false'}, CF + 'SelectOk', UNIT_MAP),
    row('channel::Channel::enable_publisher_confirms_nowait', ['self'], 'nowait', 'self', CF, 'Select', {'nowait': 'true'}, None, 'SINK'),
    row('channel::Channel::queue_declare', ['self', 'queue', 'options'], 'call', 'self', Q, 'Declare',
        qdeclare('queue', 'false', 'false'), Q + 'DeclareOk', QUEUE_RET),
    row('channel::Channel::queue_declare_nowait', ['self', 'queue', 'options'], 'nowait', 'self', Q, 'Declare',
        qdeclare('queue', 'false', 'true'), None,
        'Ok(queue::Queue{channel: self, consumer_count: None, message_count: None, name: queue})',
        pre=['assert!(!is_empty(queue), "cannot asynchronously declare auto-named queues")']),
    row('channel::Channel::queue_declare_passive', ['self', 'queue'], 'call', 'self', Q, 'Declare',
        qdeclare('queue', 'true', 'false', None), Q + 'DeclareOk', QUEUE_RET),
    row('channel::Channel::basic_get', ['self', 'queue', 'no_ack'], 'get', 'self', B, 'Get',
        {'ticket': '0', 'queue': 'queue', 'no_ack': 'no_ack'}, None, 'SINK'),
    row('channel::Channel::basic_consume', ['self', 'queue', 'options'], 'consume', 'self', B, 'Consume',
        {'ticket': '0', 'queue': 'queue', 'consumer_tag': '""', 'no_local': 'options.no_local', 'no_ack': 'options.no_ack',
         'exclusive': 'options.exclusive', 'nowait': 'false', 'arguments': 'options.arguments'}, None,
        'Ok(consumer::Consumer{cancelled: std::cell::Cell::new(false), channel: self, consumer_tag: SINK?.0, rx: SINK?.1})'),
    row('channel::Channel::queue_bind', ['self', 'queue', 'exchange', 'routing_key', 'arguments'], 'call', 'self', Q, 'Bind',
        qbind('false'), Q + 'BindOk', UNIT_MAP),
    row('channel::Channel::queue_bind_nowait', ['self', 'queue', 'exchange', 'routing_key', 'arguments'], 'nowait', 'self', Q, 'Bind',
        qbind('true'), None, 'SINK'),
    row('channel::Channel::queue_unbind', ['self', 'queue', 'exchange', 'routing_key', 'arguments'], 'call', 'self', Q, 'Unbind',
        {'ticket': '0', 'queue': 'queue', 'exchange': 'exchange', 'routing_key': 'routing_key', 'arguments': 'arguments'},
        Q + 'UnbindOk', UNIT_MAP),
    row('channel::Channel::queue_purge', ['self', 'queue'], 'call', 'self', Q, 'Purge',
        {'ticket': '0', 'queue': 'queue', 'nowait': 'false'}, Q + 'PurgeOk', 'Ok(REPLY?.message_count)'),
    row('channel::Channel::queue_purge_nowait', ['self', 'queue'], 'nowait', 'self', Q, 'Purge',
        {'ticket': '0', 'queue': 'queue', 'nowait': 'true'}, None, 'SINK'),
    row('channel::Channel::queue_delete', ['self', 'queue', 'options'], 'call', 'self', Q, 'Delete',
        {'ticket': '0', 'queue': 'queue', 'if_unused': 'options.if_unused', 'if_empty': 'options.if_empty', 'nowait': 'false'},
        Q + 'DeleteOk', 'Ok(REPLY?.message_count)'),
    row('channel::Channel::queue_delete_nowait', ['self', 'queue', 'options'], 'nowait', 'self', Q, 'Delete',
        {'ticket': '0', 'queue': 'queue', 'if_unused': 'options.if_unused', 'if_empty': 'options.if_empty', 'nowait': 'true'},
        None, 'SINK'),
    row('channel::Channel::exchange_declare', ['self', 'type_', 'exchange', 'options'], 'call', 'self', X, 'Declare',
        xdeclare('false', 'false'), X + 'DeclareOk', 'Ok(exchange::Exchange{channel: self, name: exchange})'),
    row('channel::Channel::exchange_declare_nowait', ['self', 'type_', 'exchange', 'options'], 'nowait', 'self', X, 'Declare',
        xdeclare('false', 'true'), None, 'Ok(exchange::Exchange{channel: self, name: exchange})'),
    row('channel::Channel::exchange_declare_passive', ['self', 'exchange'], 'call', 'self', X, 'Declare',
        xdeclare('true', 'false', None, 'exchange::ExchangeType::Direct'), X + 'DeclareOk',
        'Ok(exchange::Exchange{channel: self, name: exchange})'),
    row('channel::Channel::exchange_bind', ['self', 'destination', 'source', 'routing_key', 'arguments'], 'call', 'self', X, 'Bind',
        xbind('false'), X + 'BindOk', UNIT_MAP),
    row('channel::Channel::exchange_bind_nowait', ['self', 'destination', 'source', 'routing_key', 'arguments'], 'nowait', 'self', X, 'Bind',
        xbind('true'), None, 'SINK'),
    row('channel::Channel::exchange_unbind', ['self', 'destination', 'source', 'routing_key', 'arguments'], 'call', 'self', X, 'Unbind',
        xbind('false'), X + 'UnbindOk', UNIT_MAP),
    row('channel::Channel::exchange_unbind_nowait', ['self', 'destination', 'source', 'routing_key', 'arguments'], 'nowait', 'self', X, 'Unbind',
        xbind('true'), None, 'SINK'),
    row('channel::Channel::exchange_delete', ['self', 'exchange', 'if_unused'], 'call', 'self', X, 'Delete',
        {'ticket': '0', 'exchange': 'exchange', 'if_unused': 'if_unused', 'nowait': 'false'}, X + 'DeleteOk', UNIT_MAP),
    row('channel::Channel::exchange_delete_nowait', ['self', 'exchange', 'if_unused'], 'nowait', 'self', X, 'Delete',
        {'ticket': '0', 'exchange': 'exchange', 'if_unused': 'if_unused', 'nowait': 'true'}, None, 'SINK'),
    row('channel::Channel::ack_all', ['self'], 'nowait', 'self', B, 'Ack', {'delivery_tag': '0', 'multiple': 'true'}, None, 'SINK'),
    row('channel::Channel::nack_all', ['self', 'requeue'], 'nowait', 'self', B, 'Nack',
        {'delivery_tag': '0', 'multiple': 'true', 'requeue': 'requeue'}, None, 'SINK'),
    row('channel::Channel::close', ['self'], 'call', 'self', CH, 'Close',
        {'reply_code': '0', 'reply_text': '""', 'class_id': '0', 'method_id': '0'}, CH + 'CloseOk', None),
    # crate-private primitives (reached from Delivery / Consumer)
    row('channel::Channel::basic_ack', ['self', 'delivery', 'multiple'], 'nowait', 'self', B, 'Ack',
        {'delivery_tag': 'delivery.delivery_tag', 'multiple': 'multiple'}, None, 'SINK', public=False),
    row('channel::Channel::basic_nack', ['self', 'delivery', 'multiple', 'requeue'], 'nowait', 'self', B, 'Nack',
        {'delivery_tag': 'delivery.delivery_tag', 'multiple': 'multiple', 'requeue': 'requeue'}, None, 'SINK', public=False),
    row('channel::Channel::basic_reject', ['self', 'delivery', 'requeue'], 'nowait', 'self', B, 'Reject',
        {'delivery_tag': 'delivery.delivery_tag', 'requeue': 'requeue'}, None, 'SINK', public=False),
    row('channel::Channel::basic_cancel', ['self', 'consumer'], 'call', 'self', B, 'Cancel',
        {'consumer_tag': 'consumer.consumer_tag', 'nowait': 'false'}, B + 'CancelOk', UNIT_MAP, public=False),
    # ---------------------------------------------------------------- Queue
    row('queue::Queue::get', ['self', 'no_ack'], 'get', 'self.channel', B, 'Get',
        {'ticket': '0', 'queue': 'self.name', 'no_ack': 'no_ack'}, None, 'SINK'),
    row('queue::Queue::consume', ['self', 'options'], 'consume', 'self.channel', B, 'Consume',
        {'ticket': '0', 'queue': 'self.name', 'consumer_tag': '""', 'no_local': 'options.no_local', 'no_ack': 'options.no_ack',
         'exclusive': 'options.exclusive', 'nowait': 'false', 'arguments': 'options.arguments'}, None,
        'Ok(consumer::Consumer{cancelled: std::cell::Cell::new(false), channel: self.channel, consumer_tag: SINK?.0, rx: SINK?.1})'),
    row('queue::Queue::bind', ['self', 'exchange', 'routing_key', 'arguments'], 'call', 'self.channel', Q, 'Bind',
        {'ticket': '0', 'queue': 'self.name', 'exchange': 'exchange.name', 'routing_key': 'routing_key', 'nowait': 'false',
         'arguments': 'arguments'}, Q + 'BindOk', UNIT_MAP),
    row('queue::Queue::bind_nowait', ['self', 'exchange', 'routing_key', 'arguments'], 'nowait', 'self.channel', Q, 'Bind',
        {'ticket': '0', 'queue': 'self.name', 'exchange': 'exchange.name', 'routing_key': 'routing_key', 'nowait': 'true',
         'arguments': 'arguments'}, None, 'SINK'),
    row('queue::Queue::unbind', ['self', 'exchange', 'routing_key', 'arguments'], 'call', 'self.channel', Q, 'Unbind',
        {'ticket': '0', 'queue': 'self.name', 'exchange': 'exchange.name', 'routing_key': 'routing_key', 'arguments': 'arguments'},
        Q + 'UnbindOk', UNIT_MAP),
    row('queue::Queue::purge', ['self'], 'call', 'self.channel', Q, 'Purge',
        {'ticket': '0', 'queue': 'self.name', 'nowait': 'false'}, Q + 'PurgeOk', 'Ok(REPLY?.message_count)'),
    row('queue::Queue::purge_nowait', ['self'], 'nowait', 'self.channel', Q, 'Purge',
        {'ticket': '0', 'queue': 'self.name', 'nowait': 'true'}, None, 'SINK'),
    row('queue::Queue::delete', ['self', 'options'], 'call', 'self.channel', Q, 'Delete',
        {'ticket': '0', 'queue': 'self.name', 'if_unused': 'options.if_unused', 'if_empty': 'options.if_empty', 'nowait': 'false'},
        Q + 'DeleteOk', 'Ok(REPLY?.message_count)'),
    row('queue::Queue::delete_nowait', ['self', 'options'], 'nowait', 'self.channel', Q, 'Delete',
        {'ticket': '0', 'queue': 'self.name', 'if_unused': 'options.if_unused', 'if_empty': 'options.if_empty', 'nowait': 'true'},
        None, 'SINK'),
    # ---------------------------------------------------------------- Exchange
    row('exchange::Exchange::bind_to_source', ['self', 'source', 'routing_key', 'arguments'], 'call', 'self.channel', X, 'Bind',
        {'ticket': '0', 'destination': 'self.name', 'source': 'source.name', 'routing_key': 'routing_key', 'nowait': 'false',
         'arguments': 'arguments'}, X + 'BindOk', UNIT_MAP),
    row('exchange::Exchange::bind_to_source_nowait', ['self', 'source', 'routing_key', 'arguments'], 'nowait', 'self.channel', X, 'Bind',
        {'ticket': '0', 'destination': 'self.name', 'source': 'source.name', 'routing_key': 'routing_key', 'nowait': 'true',
         'arguments': 'arguments'}, None, 'SINK'),
    row('exchange::Exchange::bind_to_destination', ['self', 'destination', 'routing_key', 'arguments'], 'call', 'self.channel', X, 'Bind',
        {'ticket': '0', 'destination': 'destination.name', 'source': 'self.name', 'routing_key': 'routing_key', 'nowait': 'false',
         'arguments': 'arguments'}, X + 'BindOk', UNIT_MAP),
    row('exchange::Exchange::bind_to_destination_nowait', ['self', 'destination', 'routing_key', 'arguments'], 'nowait', 'self.channel', X, 'Bind',
        {'ticket': '0', 'destination': 'destination.name', 'source': 'self.name', 'routing_key': 'routing_key', 'nowait': 'true',
         'arguments': 'arguments'}, None, 'SINK'),
    row('exchange::Exchange::unbind_from_source', ['self', 'source', 'routing_key', 'arguments'], 'call', 'self.channel', X, 'Unbind',
        {'ticket': '0', 'destination': 'self.name', 'source': 'source.name', 'routing_key': 'routing_key', 'nowait': 'false',
         'arguments': 'arguments'}, X + 'UnbindOk', UNIT_MAP),
    row('exchange::Exchange::unbind_from_source_nowait', ['self', 'source', 'routing_key', 'arguments'], 'nowait', 'self.channel', X, 'Unbind',
        {'ticket': '0', 'destination': 'self.name', 'source': 'source.name', 'routing_key': 'routing_key', 'nowait': 'true',
         'arguments': 'arguments'}, None, 'SINK'),
    row('exchange::Exchange::unbind_from_destination', ['self', 'destination', 'routing_key', 'arguments'], 'call', 'self.channel', X, 'Unbind',
        {'ticket': '0', 'destination': 'destination.name', 'source': 'self.name', 'routing_key': 'routing_key', 'nowait': 'false',
         'arguments': 'arguments'}, X + 'UnbindOk', UNIT_MAP),
    row('exchange::Exchange::unbind_from_destination_nowait', ['self', 'destination', 'routing_key', 'arguments'], 'nowait', 'self.channel', X, 'Unbind',
        {'ticket': '0', 'destination': 'destination.name', 'source': 'self.name', 'routing_key': 'routing_key', 'nowait': 'true',
         'arguments': 'arguments'}, None, 'SINK'),
    row('exchange::Exchange::delete', ['self', 'if_unused'], 'call', 'self.channel', X, 'Delete',
        {'ticket': '0', 'exchange': 'self.name', 'if_unused': 'if_unused', 'nowait': 'false'}, X + 'DeleteOk', UNIT_MAP),
    row('exchange::Exchange::delete_nowait', ['self', 'if_unused'], 'nowait', 'self.channel', X, 'Delete',
        {'ticket': '0', 'exchange': 'self.name', 'if_unused': 'if_unused', 'nowait': 'true'}, None, 'SINK'),
    # ---------------------------------------------------------------- Consumer
    row('consumer::Consumer::cancel', ['self'], 'call', 'self.channel', B, 'Cancel',
        {'consumer_tag': 'self.consumer_tag', 'nowait': 'false'}, B + 'CancelOk', None),
    row('consumer::Consumer::ack', ['self', 'delivery'], 'nowait', 'self.channel', B, 'Ack',
        {'delivery_tag': 'delivery.delivery_tag', 'multiple': 'false'}, None, 'SINK', asserts=['delivery.channel_id', 'self.channel']),
    row('consumer::Consumer::ack_multiple', ['self', 'delivery'], 'nowait', 'self.channel', B, 'Ack',
        {'delivery_tag': 'delivery.delivery_tag', 'multiple': 'true'}, None, 'SINK', asserts=['delivery.channel_id', 'self.channel']),
    row('consumer::Consumer::nack', ['self', 'delivery', 'requeue'], 'nowait', 'self.channel', B, 'Nack',
        {'delivery_tag': 'delivery.delivery_tag', 'multiple': 'false', 'requeue': 'requeue'}, None, 'SINK',
        asserts=['delivery.channel_id', 'self.channel']),
    row('consumer::Consumer::nack_multiple', ['self', 'delivery', 'requeue'], 'nowait', 'self.channel', B, 'Nack',
        {'delivery_tag': 'delivery.delivery_tag', 'multiple': 'true', 'requeue': 'requeue'}, None, 'SINK',
        asserts=['delivery.channel_id', 'self.channel']),
    row('consumer::Consumer::reject', ['self', 'delivery', 'requeue'], 'nowait', 'self.channel', B, 'Reject',
        {'delivery_tag': 'delivery.delivery_tag', 'requeue': 'requeue'}, None, 'SINK', asserts=['delivery.channel_id', 'self.channel']),
    # ---------------------------------------------------------------- Delivery
    row('delivery::Delivery::ack', ['self', 'channel'], 'nowait', 'channel', B, 'Ack',
        {'delivery_tag': 'self.delivery_tag', 'multiple': 'false'}, None, 'SINK', asserts=['self.channel_id', 'channel']),
    row('delivery::Delivery::ack_multiple', ['self', 'channel'], 'nowait', 'channel', B, 'Ack',
        {'delivery_tag': 'self.delivery_tag', 'multiple': 'true'}, None, 'SINK', asserts=['self.channel_id', 'channel']),
    row('delivery::Delivery::nack', ['self', 'channel', 'requeue'], 'nowait', 'channel', B, 'Nack',
        {'delivery_tag': 'self.delivery_tag', 'multiple': 'false', 'requeue': 'requeue'}, None, 'SINK', asserts=['self.channel_id', 'channel']),
    row('delivery::Delivery::nack_multiple', ['self', 'channel', 'requeue'], 'nowait', 'channel', B, 'Nack',
        {'delivery_tag': 'self.delivery_tag', 'multiple': 'true', 'requeue': 'requeue'}, None, 'SINK', asserts=['self.channel_id', 'channel']),
    row('delivery::Delivery::reject', ['self', 'channel', 'requeue'], 'nowait', 'channel', B, 'Reject',
        {'delivery_tag': 'self.delivery_tag', 'requeue': 'requeue'}, None, 'SINK', asserts=['self.channel_id', 'channel']),
    # ---------------------------------------------------------------- Get
    row('get::Get::ack', ['self', 'channel'], 'nowait', 'channel', B, 'Ack',
        {'delivery_tag': 'self.delivery.delivery_tag', 'multiple': 'false'}, None, 'SINK', asserts=['self.delivery.channel_id', 'channel']),
    row('get::Get::ack_multiple', ['self', 'channel'], 'nowait', 'channel', B, 'Ack',
        {'delivery_tag': 'self.delivery.delivery_tag', 'multiple': 'true'}, None, 'SINK', asserts=['self.delivery.channel_id', 'channel']),
    row('get::Get::nack', ['self', 'channel', 'requeue'], 'nowait', 'channel', B, 'Nack',
        {'delivery_tag': 'self.delivery.delivery_tag', 'multiple': 'false', 'requeue': 'requeue'}, None, 'SINK',
        asserts=['self.delivery.channel_id', 'channel']),
    row('get::Get::nack_multiple', ['self', 'channel', 'requeue'], 'nowait', 'channel', B, 'Nack',
        {'delivery_tag': 'self.delivery.delivery_tag', 'multiple': 'true', 'requeue': 'requeue'}, None, 'SINK',
        asserts=['self.delivery.channel_id', 'channel']),
    row('get::Get::reject', ['self', 'channel', 'requeue'], 'nowait', 'channel', B, 'Reject',
        {'delivery_tag': 'self.delivery.delivery_tag', 'requeue': 'requeue'}, None, 'SINK', asserts=['self.delivery.channel_id', 'channel']),
    # ---------------------------------------------------------------- Connection
    row('connection::Connection::close', ['self'], 'close0', 'self.channel0', CO, 'Close',
        {'reply_code': 'amq_protocol::protocol::constants::REPLY_SUCCESS', 'reply_text': '"goodbye"', 'class_id': '0', 'method_id': '0'},
        CO + 'CloseOk', None),
    row('connection::Connection::open_channel', ['self', 'channel_id'], 'call', 'ALLOCATED', CH, 'Open',
        {'out_of_band': '""'}, CH + 'OpenOk', None),
]

# publish is a compound emission (method, header, bodies): checked by C02's rules against this row
PUBLISH = {
    'channel::Channel::basic_publish': dict(params=['self', 'exchange', 'publish'], on='self', exchange='exchange'),
    'exchange::Exchange::publish': dict(params=['self', 'publish'], on='self.channel', exchange='self.name'),
}
PUBLISH_FIELDS = {'ticket': '0', 'exchange': None, 'routing_key': 'publish.routing_key', 'mandatory': 'publish.mandatory',
                  'immediate': 'publish.immediate'}

# public functions of the API types that put nothing on the wire (accessors, listeners, constructors)
NO_WIRE = {
    'channel::Channel::channel_id': 'accessor',
    'channel::Channel::listen_for_publisher_confirms': 'registers a listener with the I/O thread (C13), no AMQP method',
    'channel::Channel::listen_for_returns': 'registers a listener with the I/O thread (C13), no AMQP method',
    'queue::Queue::name': 'accessor', 'queue::Queue::declared_message_count': 'accessor',
    'queue::Queue::declared_consumer_count': 'accessor',
    'exchange::Exchange::direct': 'constructor of the default exchange handle', 'exchange::Exchange::name': 'accessor',
    'consumer::Consumer::consumer_tag': 'accessor', 'consumer::Consumer::receiver': 'accessor',
    'delivery::Delivery::delivery_tag': 'accessor',
    'connection::Connection::server_properties': 'accessor',
    'connection::Connection::listen_for_connection_blocked': 'registers a listener (C13)',
    'connection::Connection::open': 'URL entry point (C19)', 'connection::Connection::open_tuned': 'URL entry point (C19)',
    'connection::Connection::insecure_open': 'URL entry point (C19)', 'connection::Connection::insecure_open_tuned': 'URL entry point (C19)',
    'connection::Connection::open_tls_stream': 'handshake entry point (C16)',
    'connection::Connection::insecure_open_stream': 'handshake entry point (C16)',
}
