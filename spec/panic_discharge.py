"""Discharge table for the panic-capable sites reachable from the I/O thread entry points.

Key = '<function>|<kind>|<detail>#<ordinal within that function, in source order>'.
Each entry is one of
  ('rule', <checker name>)   re-verified mechanically on every run (guard dominates use, who-may-call ...)
  ('reason', <one line>)     confirmed by reading; holds as long as the site and its function keep their shape
A site without an entry is a violation: a new unwrap / index / assert on the I/O thread has to be argued here.
"""

IO = 'io_loop::'

DISCHARGE = {
    # ---- frame_buffer
    '<frame_buffer::AmqpFrameKind as frame_buffer::FrameKind>::parse_size|lib|Index::index#0':
        ('rule', 'parse_size_index_guarded'),
    '<frame_buffer::AmqpFrameKind as frame_buffer::FrameKind>::parse_size|lib|Result::unwrap#0':
        ('rule', 'parse_size_unwrap_4_bytes'),
    '<frame_buffer::AmqpFrameKind as frame_buffer::FrameKind>::parse_size|assert|Overflow(Add)#0':
        ('reason', 'u32 as usize + 8 cannot overflow usize on the >= 64-bit targets in scope (DESIGN.md section 8)'),
    'frame_buffer::Inner::read_from|lib|Index::index#0': ('rule', 'read_from_slice_guarded'),
    'frame_buffer::Inner::read_from|lib|Buf::advance#0': ('rule', 'read_from_slice_guarded'),
    'frame_buffer::Inner::read_from|assert|Overflow(Add)#0':
        ('reason', 'bytes_read sums byte counts physically read during one call; cannot reach usize::MAX'),
    # ---- heartbeats
    'heartbeats::Heartbeat::fire|lib|Add::add#0':
        ('reason', 'elapsed (process-lifetime Duration) + 5 ms is far from Duration::MAX'),
    'heartbeats::Heartbeat::fire|lib|Sub::sub#0': ('rule', 'fire_sub_guarded'),
    'heartbeats::Heartbeat::start|panic|assert#0': ('rule', 'heartbeat_start_interval_positive'),
    IO + 'heartbeat_timers::RxTxHeartbeat::new|lib|Mul::mul#0':
        ('reason', '2 * interval with interval <= 65535 s (from_secs of a u16) cannot overflow Duration'),
    IO + 'heartbeat_timers::HeartbeatTimers::start|panic|assert#0': ('rule', 'heartbeat_timers_started_once'),
    IO + 'heartbeat_timers::HeartbeatTimers::fire_rx|lib|Option::expect#0': ('rule', 'fire_only_after_start'),
    IO + 'heartbeat_timers::HeartbeatTimers::fire_tx|lib|Option::expect#0': ('rule', 'fire_only_after_start'),
    # ---- io_loop
    IO + 'Inner::process_channel_message|panic|assert#0': ('rule', 'handler_messages_never_on_channel0'),
    IO + 'Inner::process_channel_message|panic|assert#1': ('rule', 'handler_messages_never_on_channel0'),
    IO + 'Inner::process_channel_message|lib|Option::unwrap#0': ('rule', 'process_message_slot_present'),
    IO + 'Inner::process_channel_message|lib|Option::unwrap#1': ('rule', 'process_message_slot_present'),
    IO + 'Inner::write_to_stream|assert|Overflow(Sub)#0': ('rule', 'write_loop_guarded'),
    IO + 'Inner::write_to_stream|lib|Index::index#0': ('rule', 'write_loop_guarded'),
    IO + 'Inner::write_to_stream|assert|Overflow(Add)#0':
        ('reason', 'pos += n with n <= len - pos by the io::Write contract (n bytes of the slice handed over were written)'),
    IO + 'IoLoop::handle_handshake_event|panic|unreachable#0': ('rule', 'handshake_tokens_only_stream_heartbeat'),
    IO + 'IoLoop::handle_steady_event|panic|unreachable#0': ('rule', 'steady_token_domain'),
    IO + 'IoLoop::is_connection_done|panic|assert#0': ('rule', 'seal_precedes_closing_state'),
    IO + 'IoLoop::is_handshake_done|panic|assert#0': ('rule', 'seal_precedes_closing_state'),
    IO + 'IoLoop::run_amqp_handshake|panic|unreachable#0': ('rule', 'handshake_done_states'),
    IO + 'IoLoop::run_connection|panic|unreachable#0': ('rule', 'connection_done_states'),
    IO + 'IoLoop::run_tls_handshake|lib|Option::unwrap#0': ('rule', 'tls_state_some_when_done'),
    IO + 'channel_slots::ChannelSlots::insert_unused_channel_id|assert|Overflow(Add)#0': ('rule', 'never_used_counter_cannot_overflow'),
    IO + 'connection_state::ConnectionState::client_exception|assert|Overflow(Sub)#0': ('rule', 'reply_text_truncation_safe'),
    IO + 'connection_state::ConnectionState::client_exception|lib|String::truncate#0': ('rule', 'reply_text_truncation_safe'),
    IO + 'channel_slots::ChannelSlots::set_channel_max|panic|assert#0': ('rule', 'channel_max_set_before_any_allocation'),
    # ---- serialize
    '<serialize::OutputBuffer as std::ops::Index<std::ops::RangeFrom<usize>>>::index|lib|Index::index#0':
        ('rule', 'outbuf_index_callers_guarded'),
    '<serialize::SealableOutputBuffer as std::ops::Index<std::ops::RangeFrom<usize>>>::index|lib|Index::index#0':
        ('rule', 'outbuf_index_callers_guarded'),
    'serialize::OutputBuffer::drain_written|lib|Vec::drain#0': ('rule', 'drain_written_callers_guarded'),
    'serialize::serialize|lib|Vec::resize#0':
        ('reason', 'resize target is the size cookie_factory asks for (frame size, bounded by the u32 size field); allocation failure is out of scope'),
    'serialize::serialize|panic|unreachable#0':
        ('reason', 'the amq_protocol 1.4 generators used here return only GenError::BufferTooSmall; no custom/IO errors'),
    # ---- TLS handshake stream (default feature set only)
    '<stream::native_tls::TlsHandshakeStream<S> as stream::HandshakeStream>::progress_handshake|lib|Option::unwrap#0':
        ('rule', 'tls_inner_restored'),
    '<stream::native_tls::TlsHandshakeStream<S> as mio::event::Evented>::register|lib|Option::unwrap#0': ('rule', 'tls_inner_restored'),
    '<stream::native_tls::TlsHandshakeStream<S> as mio::event::Evented>::reregister|lib|Option::unwrap#0': ('rule', 'tls_inner_restored'),
    '<stream::native_tls::TlsHandshakeStream<S> as mio::event::Evented>::deregister|lib|Option::unwrap#0': ('rule', 'tls_inner_restored'),
}

# minimum number of panic-capable sites / functions the inventory must see (counted on the pinned tree)
FLOOR_SITES = 30
FLOOR_FUNCS = 150
ANCHORS = [
    'io_loop::IoLoop::thread_main', 'io_loop::IoLoop::run_io_loop', 'io_loop::IoLoop::handle_steady_event',
    'io_loop::IoLoop::handle_handshake_event', 'io_loop::connection_state::ConnectionState::process',
    'io_loop::handshake_state::HandshakeState::process', 'frame_buffer::Inner::read_from', 'io_loop::Inner::write_to_stream',
    'io_loop::Inner::allocate_channel', 'io_loop::channel_slots::ChannelSlots::insert',
    'io_loop::channel_slots::ChannelSlots::insert_unused_channel_id', 'io_loop::content_collector::ContentCollector::collect_header',
    'io_loop::content_collector::ContentCollector::collect_body', 'io_loop::content_collector::State::collect_header',
    'io_loop::content_collector::State::collect_body', 'heartbeats::Heartbeat::fire', 'io_loop::Inner::process_heartbeat_timers',
    'serialize::serialize', 'io_loop::Inner::process_channel_message', 'io_loop::connection_state::ConnectionState::client_exception',
]
