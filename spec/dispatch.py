"""Oracle: what the client must do with each inbound frame in the Steady state.

Written from the AMQP 0-9-1 specification (which peer may send which method), the
statements of C03/C04/C07/C08/C09/C11/C13 and the crate's documented error codes -- not
from the code. Keys are (frame kind, on channel 0?, class, method); values are action
classes understood by engine/amqlint/dispatch.py::classify.
"""

NOT_IMPLEMENTED = 'exception(NOTIMPLEMENTED)'   # AMQP hard error 540
NOT_ALLOWED = 'exception(NOTALLOWED)'           # AMQP hard error 530

# methods a server may legitimately send on a non-zero channel, and what the client does
SERVER_METHODS_N = {
    ('channel', 'Close'): 'slot_remove',         # C09: remove slot n, notify, answer CloseOk
    ('channel', 'CloseOk'): 'slot_remove',       # C11/C04: ClientClosedChannel to consumers, then the reply to the caller
    ('basic', 'ConsumeOk'): 'send',              # C04: tag + receiver back to the caller
    ('basic', 'Cancel'): 'send',                 # C11: ServerCancelled
    ('basic', 'CancelOk'): 'send',               # C11: ClientCancelled, then the reply
    ('basic', 'Deliver'): 'collect_deliver',     # C03
    ('basic', 'Return'): 'collect_return',       # C03/C13
    ('basic', 'GetOk'): 'collect_get',           # C03/C04
    ('basic', 'GetEmpty'): 'send',               # C04: GetOk(None)
    ('basic', 'Ack'): 'try_send_confirm',        # C13
    ('basic', 'Nack'): 'try_send_confirm',       # C13
}
# generic replies routed unchanged to the caller of the synchronous operation (C04)
REPLIES_N = [
    ('basic', 'QosOk'), ('basic', 'RecoverOk'), ('channel', 'OpenOk'), ('confirm', 'SelectOk'),
    ('exchange', 'DeclareOk'), ('exchange', 'DeleteOk'), ('exchange', 'BindOk'), ('exchange', 'UnbindOk'),
    ('queue', 'DeclareOk'), ('queue', 'DeleteOk'), ('queue', 'BindOk'), ('queue', 'PurgeOk'), ('queue', 'UnbindOk'),
]
# classes / methods the client does not implement: Connection.Close with 540
UNIMPLEMENTED_N = [('access', '*'), ('tx', '*'), ('channel', 'Flow'), ('channel', 'FlowOk')]
# methods only a client may send (or connection-class methods off channel 0): Connection.Close with 530
CLIENT_ONLY_N = [
    ('basic', 'Qos'), ('basic', 'Consume'), ('basic', 'Get'), ('basic', 'Publish'), ('basic', 'Recover'),
    ('basic', 'RecoverAsync'), ('basic', 'Reject'), ('channel', 'Open'), ('confirm', 'Select'), ('connection', '*'),
    ('exchange', 'Declare'), ('exchange', 'Delete'), ('exchange', 'Bind'), ('exchange', 'Unbind'),
    ('queue', 'Declare'), ('queue', 'Delete'), ('queue', 'Bind'), ('queue', 'Purge'), ('queue', 'Unbind'),
]
# channel 0
CH0 = {
    ('connection', 'Close'): 'state(ServerClosing)',   # C08
    ('connection', 'CloseOk'): 'state(ClientClosed)',  # C08
    ('connection', 'Blocked'): 'try_send_blocked',     # C13
    ('connection', 'Unblocked'): 'try_send_blocked',   # C13
}
CH0_OTHER = NOT_IMPLEMENTED       # any other method on channel 0
CONTENT_ON_CH0 = NOT_ALLOWED      # content header / body on channel 0

FRAMES = {
    ('Heartbeat', True): 'ignore',
    ('Heartbeat', False): 'error(FrameUnexpected)',
    ('ProtocolHeader', None): 'error(FrameUnexpected)',
    ('Header', True): CONTENT_ON_CH0, ('Body', True): CONTENT_ON_CH0,
    ('Header', False): 'collect_header', ('Body', False): 'collect_body',
}


def expected_method(universe, ch0, cls, meth):
    if ch0:
        return CH0.get((cls, meth), CH0_OTHER)
    if (cls, meth) in SERVER_METHODS_N:
        return SERVER_METHODS_N[(cls, meth)]
    if (cls, meth) in REPLIES_N:
        return 'reply'
    for c, m in UNIMPLEMENTED_N:
        if c == cls and m in ('*', meth):
            return NOT_IMPLEMENTED
    for c, m in CLIENT_ONLY_N:
        if c == cls and m in ('*', meth):
            return NOT_ALLOWED
    return None  # the oracle has no opinion: reported as a table gap (fail closed)


# state gate (R07.3): what process() does with any frame when not Steady
STATE_GATE = {'ClientException': 'return Ok(())', 'ServerClosing': 'return FrameUnexpected', 'ClientClosed': 'return FrameUnexpected'}

# hard error codes (AMQP 0-9-1 section 1.2 constants)
HARD_ERROR_CODES = {'NOTALLOWED': 530, 'NOTIMPLEMENTED': 540}


# --------------------------------------------------------------------------------------------
# Ordered notable effects each arm must perform (C04/C08/C09/C11/C13). Written from the property
# statements in the vocabulary of engine/amqlint/dispatch.py::script_of: only calls into the
# connection-state helpers, Inner, ChannelSlots, the collector, crossbeam and HashMap are listed,
# plus state assignments and early returns; logging and pure computations are not part of a script.
CS = 'io_loop::connection_state::'
AP = 'amq_protocol::protocol::'
N = 'frame.Method.0'


def payload(cls, meth):
    return 'frame.Method.1.%s.0.%s.0' % (cls.capitalize(), meth)


def slot(fn, ch=N):
    return '%s%s(inner, %s)' % (CS, fn, ch)


def for_(it):
    return 'for(%s)' % it


def item(it):
    return 'iter_item(%s)' % it


DRAIN_ALL = 'io_loop::channel_slots::ChannelSlots::drain(inner.chan_slots)'


def notify_all(slot_msg, consumer_msg):
    """every open channel's caller and every consumer of every channel is told (C08)"""
    cons = 'std::collections::HashMap::drain(%s.1.consumers)' % item(DRAIN_ALL)
    # per slot: the consumers' terminal messages first, then the slot's caller (D12: a released caller may drop its consumers)
    return [
        DRAIN_ALL,
        '%s > %s' % (for_(DRAIN_ALL), cons),
        '%s > %s > %ssend(%s.1, %s)' % (for_(DRAIN_ALL), for_(cons), CS, item(cons), consumer_msg),
        '%s > %ssend(%s.1.tx, %s)' % (for_(DRAIN_ALL), CS, item(DRAIN_ALL), slot_msg),
    ]


def notify_consumers_of(slot_term, consumer_msg, ctx=''):
    cons = 'std::collections::HashMap::drain(%s.consumers)' % slot_term
    return [ctx + cons, '%s%s > %ssend(%s.1, %s)' % (ctx, for_(cons), CS, item(cons), consumer_msg)]


_SC = payload('connection', 'Close')
_SRV_CONN_ERR = 'errors::Error::ServerClosedConnection{code: %s.reply_code, message: %s.reply_text}' % (_SC, _SC)
_CC = payload('channel', 'Close')
_SRV_CHAN_ERR = 'errors::Error::ServerClosedChannel{channel_id: %s, code: %s.reply_code, message: %s.reply_text}' % (N, _CC, _CC)
_REMOVED = slot('slot_remove') + '?'
_REMOVED_OK = slot('slot_remove') + '.Ok.0'
_SLOTM = slot('slot_get_mut') + '?'
_SLOT = slot('slot_get') + '?'


def _removed_consumer(tag):
    return 'std::collections::HashMap::remove(%s.consumers, %s)' % (_SLOTM, tag)


ARM_SCRIPTS = {
    # C08: server closes the connection: CloseOk is queued, the buffer sealed, then the state changes and everybody is told
    ('Method', '0', 'connection', 'Close'): [
        'io_loop::Inner::push_method(inner, 0, %sconnection::AMQPMethod::CloseOk(%sconnection::CloseOk{}))' % (AP, AP),
        'io_loop::Inner::seal_writes(inner)',
        'self = %sConnectionState::ServerClosing(%s)' % (CS, _SC),
    ] + notify_all('Err(%s)' % _SRV_CONN_ERR, 'consumer::ConsumerMessage::ServerClosedConnection(%s)' % _SRV_CONN_ERR),
    # C08: server confirms the client's close: the caller gets the CloseOk, then everybody else is told
    ('Method', '0', 'connection', 'CloseOk'): [
        'crossbeam_channel::Sender::send(self.Steady.0.common.tx, Ok(io_loop::ChannelMessage::Method(%sAMQPClass::Connection(%sconnection::AMQPMethod::CloseOk(%s)))))'
        % (AP, AP, payload('connection', 'CloseOk')),
        'self = %sConnectionState::ClientClosed' % CS,
    ] + notify_all('Err(errors::Error::ClientClosedConnection)', 'consumer::ConsumerMessage::ClientClosedConnection'),
    # C09: server closes channel n: only slot n is touched
    ('Method', 'n', 'channel', 'Close'): [
        slot('slot_remove'),
    ] + notify_consumers_of(_REMOVED, 'consumer::ConsumerMessage::ServerClosedChannel(%s)' % _SRV_CHAN_ERR) + [
        '%ssend(%s.tx, Err(%s))' % (CS, _REMOVED, _SRV_CHAN_ERR),
        'io_loop::Inner::push_method(inner, %s, %schannel::AMQPMethod::CloseOk(%schannel::CloseOk{}))' % (N, AP, AP),
    ],
    # C11/C04: server confirms the client's channel close (a missing slot is the documented Close/CloseOk race)
    ('Method', 'n', 'channel', 'CloseOk'): [
        slot('slot_remove'),
    ] + notify_consumers_of(_REMOVED_OK, 'consumer::ConsumerMessage::ClientClosedChannel', 'case(%s ~ Ok(_)) > ' % slot('slot_remove')) + [
        'case(%s ~ Ok(_)) > %ssend(%s.tx, Ok(io_loop::ChannelMessage::Method(%sAMQPClass::Channel(%schannel::AMQPMethod::CloseOk(%s)))))'
        % (slot('slot_remove'), CS, _REMOVED_OK, AP, AP, payload('channel', 'CloseOk')),
    ],
    # C04/C11: consume-ok: duplicate tag is an error; otherwise an unbounded queue is stored under the tag and handed to the caller
    ('Method', 'n', 'basic', 'ConsumeOk'): None,  # checked field-wise by R07.4 / R03.6 / R04
    # C11: server cancels a consumer: terminal message to the removed consumer, CancelOk unless nowait
    ('Method', 'n', 'basic', 'Cancel'): [
        slot('slot_get_mut'),
        _removed_consumer(payload('basic', 'Cancel') + '.consumer_tag'),
        'case(%s ~ Some(_)) > %ssend(%s.Some.0, consumer::ConsumerMessage::ServerCancelled)'
        % (_removed_consumer(payload('basic', 'Cancel') + '.consumer_tag'), CS, _removed_consumer(payload('basic', 'Cancel') + '.consumer_tag')),
        'unless(%s.nowait) > io_loop::Inner::push_method(inner, %s, %sbasic::AMQPMethod::CancelOk(%sbasic::CancelOk{consumer_tag: %s.consumer_tag}))'
        % (payload('basic', 'Cancel'), N, AP, AP, payload('basic', 'Cancel')),
    ],
    # C11: server confirms the client's cancel: consumer removed, its terminal message queued, then the caller answered (D12)
    ('Method', 'n', 'basic', 'CancelOk'): [
        slot('slot_get_mut'),
        _removed_consumer(payload('basic', 'CancelOk') + '.consumer_tag'),
        'case(%s ~ Some(_)) > %ssend(%s.Some.0, consumer::ConsumerMessage::ClientCancelled)'
        % (_removed_consumer(payload('basic', 'CancelOk') + '.consumer_tag'), CS, _removed_consumer(payload('basic', 'CancelOk') + '.consumer_tag')),
        '%ssend(%s.tx, Ok(io_loop::ChannelMessage::Method(%sAMQPClass::Basic(%sbasic::AMQPMethod::CancelOk(%s)))))'
        % (CS, _SLOTM, AP, AP, payload('basic', 'CancelOk')),
    ],
    # C04: no message for a get
    ('Method', 'n', 'basic', 'GetEmpty'): [
        slot('slot_get'),
        '%ssend(%s.tx, Ok(io_loop::ChannelMessage::GetOk(None)))' % (CS, _SLOT),
    ],
    # C13: confirms forwarded verbatim to the channel's listener
    ('Method', 'n', 'basic', 'Ack'): [
        slot('slot_get_mut'),
        '%stry_send_confirm(%s, confirm::Confirm::Ack(confirm::ConfirmPayload{delivery_tag: %s.delivery_tag, multiple: %s.multiple}))'
        % (CS, _SLOTM, payload('basic', 'Ack'), payload('basic', 'Ack')),
    ],
    ('Method', 'n', 'basic', 'Nack'): [
        slot('slot_get_mut'),
        '%stry_send_confirm(%s, confirm::Confirm::Nack(confirm::ConfirmPayload{delivery_tag: %s.delivery_tag, multiple: %s.multiple}))'
        % (CS, _SLOTM, payload('basic', 'Nack'), payload('basic', 'Nack')),
    ],
    # C13: blocked / unblocked notices
    ('Method', '0', 'connection', 'Blocked'): [
        '%stry_send_blocked(self.Steady.0, connection::ConnectionBlockedNotification::Blocked(%s.reason))' % (CS, payload('connection', 'Blocked')),
    ],
    ('Method', '0', 'connection', 'Unblocked'): [
        '%stry_send_blocked(self.Steady.0, connection::ConnectionBlockedNotification::Unblocked)' % CS,
    ],
    # C04: generic replies go, unchanged, to the reply queue of the frame's channel
    ('Method', 'n', 'basic', 'QosOk'): [
        slot('slot_get'),
        '%ssend(%s.tx, Ok(io_loop::ChannelMessage::Method(frame.Method.1)))' % (CS, _SLOT),
    ],
}

# C03: content-carrying methods start the channel's collector unconditionally with their own payload;
# header/body frames feed it, and a completed message goes to exactly its addressee.
CCOL = 'io_loop::content_collector::'


def _start(meth, fnn):
    return [slot('slot_get_mut'), '%sContentCollector::%s(%s.collector, %s)' % (CCOL, fnn, _SLOTM, payload('basic', meth))]


def _content(variant, arg, step):
    ch = 'frame.%s.0' % variant
    sl = slot('slot_get_mut', ch)
    coll = '%sContentCollector::%s(%s?.collector, %s)' % (CCOL, step, sl, arg)
    res = coll + '?.Some.0'
    some = 'case(%s? ~ Some(_)) > ' % coll
    tag = res + '.Delivery.0.0'
    get = 'std::collections::HashMap::get(%s?.consumers, %s)' % (sl, tag)
    return [
        sl,
        coll,
        some + 'case(%s ~ %sCollectorResult::Delivery(_)) > %s' % (res, CCOL, get),
        some + 'case(%s ~ %sCollectorResult::Delivery(_)) > %ssend(std::option::Option::ok_or(%s, errors::Error::UnknownConsumerTag{channel_id: %s, consumer_tag: %s})?, consumer::ConsumerMessage::Delivery(%s.Delivery.0.1))'
        % (res, CCOL, CS, get, ch, tag, res),
        some + 'case(%s ~ %sCollectorResult::Return(_)) > %stry_send_return(%s?, %s.Return.0)' % (res, CCOL, CS, sl, res),
        some + 'case(%s ~ %sCollectorResult::Get(_)) > %ssend(%s?.tx, Ok(io_loop::ChannelMessage::GetOk(Some(%s.Get.0))))' % (res, CCOL, CS, sl, res),
    ]


ARM_SCRIPTS.update({
    ('Method', 'n', 'basic', 'Deliver'): _start('Deliver', 'collect_deliver'),
    ('Method', 'n', 'basic', 'Return'): _start('Return', 'collect_return'),
    ('Method', 'n', 'basic', 'GetOk'): _start('GetOk', 'collect_get'),
    ('Header', 'n', '-', '-'): _content('Header', 'frame.Header.2', 'collect_header'),
    ('Body', 'n', '-', '-'): _content('Body', 'frame.Body.1', 'collect_body'),
})
