"""Oracle: what the client must do with each inbound frame in the Steady state.

Written from the AMQP 0-9-1 specification (which peer may send which method), the
statements of C03/C04/C07/C08/C09/C11/C13 and the crate's documented error codes -- not
from the code. Keys are (frame kind, on channel 0?, class, method); values are action
classes understood by engine/amqlint/dispatch.py::classify.
"""

NOT_IMPLEMENTED = 'exception(NOTIMPLEMENTED)'   # AMQP hard error 540
NOT_ALLOWED = 'exception(NOTALLOWED)'           # AMQP hard error 530

# methods a server may legitimately send on a non-zero channel, and what the client does
SERVER_METHODS_N = {
    ('channel', 'Close'): 'slot_remove',         # C09: remove slot n, notify, answer CloseOk
    ('channel', 'CloseOk'): 'slot_remove',       # C11/C04: reply to the caller, ClientClosedChannel to consumers
    ('basic', 'ConsumeOk'): 'send',              # C04: tag + receiver back to the caller
    ('basic', 'Cancel'): 'send',                 # C11: ServerCancelled
    ('basic', 'CancelOk'): 'send',               # C11: ClientCancelled after replying
    ('basic', 'Deliver'): 'collect_deliver',     # C03
    ('basic', 'Return'): 'collect_return',       # C03/C13
    ('basic', 'GetOk'): 'collect_get',           # C03/C04
    ('basic', 'GetEmpty'): 'send',               # C04: GetOk(None)
    ('basic', 'Ack'): 'try_send_confirm',        # C13
    ('basic', 'Nack'): 'try_send_confirm',       # C13
}
# generic replies routed unchanged to the caller of the synchronous operation (C04)
REPLIES_N = [
    ('basic', 'QosOk'), ('basic', 'RecoverOk'), ('channel', 'OpenOk'), ('confirm', 'SelectOk'),
    ('exchange', 'DeclareOk'), ('exchange', 'DeleteOk'), ('exchange', 'BindOk'), ('exchange', 'UnbindOk'),
    ('queue', 'DeclareOk'), ('queue', 'DeleteOk'), ('queue', 'BindOk'), ('queue', 'PurgeOk'), ('queue', 'UnbindOk'),
]
# classes / methods the client does not implement: Connection.Close with 540
UNIMPLEMENTED_N = [('access', '*'), ('tx', '*'), ('channel', 'Flow'), ('channel', 'FlowOk')]
# methods only a client may send (or connection-class methods off channel 0): Connection.Close with 530
CLIENT_ONLY_N = [
    ('basic', 'Qos'), ('basic', 'Consume'), ('basic', 'Get'), ('basic', 'Publish'), ('basic', 'Recover'),
    ('basic', 'RecoverAsync'), ('basic', 'Reject'), ('channel', 'Open'), ('confirm', 'Select'), ('connection', '*'),
    ('exchange', 'Declare'), ('exchange', 'Delete'), ('exchange', 'Bind'), ('exchange', 'Unbind'),
    ('queue', 'Declare'), ('queue', 'Delete'), ('queue', 'Bind'), ('queue', 'Purge'), ('queue', 'Unbind'),
]
# channel 0
CH0 = {
    ('connection', 'Close'): 'state(ServerClosing)',   # C08
    ('connection', 'CloseOk'): 'state(ClientClosed)',  # C08
    ('connection', 'Blocked'): 'try_send_blocked',     # C13
    ('connection', 'Unblocked'): 'try_send_blocked',   # C13
}
CH0_OTHER = NOT_IMPLEMENTED       # any other method on channel 0
CONTENT_ON_CH0 = NOT_ALLOWED      # content header / body on channel 0

FRAMES = {
    ('Heartbeat', True): 'ignore',
    ('Heartbeat', False): 'error(FrameUnexpected)',
    ('ProtocolHeader', None): 'error(FrameUnexpected)',
    ('Header', True): CONTENT_ON_CH0, ('Body', True): CONTENT_ON_CH0,
    ('Header', False): 'collect_header', ('Body', False): 'collect_body',
}


def expected_method(universe, ch0, cls, meth):
    if ch0:
        return CH0.get((cls, meth), CH0_OTHER)
    if (cls, meth) in SERVER_METHODS_N:
        return SERVER_METHODS_N[(cls, meth)]
    if (cls, meth) in REPLIES_N:
        return 'reply'
    for c, m in UNIMPLEMENTED_N:
        if c == cls and m in ('*', meth):
            return NOT_IMPLEMENTED
    for c, m in CLIENT_ONLY_N:
        if c == cls and m in ('*', meth):
            return NOT_ALLOWED
    return None  # the oracle has no opinion: reported as a table gap (fail closed)


# state gate (R07.3): what process() does with any frame when not Steady
STATE_GATE = {'ClientException': 'return Ok(())', 'ServerClosing': 'return FrameUnexpected', 'ClientClosed': 'return FrameUnexpected'}

# hard error codes (AMQP 0-9-1 section 1.2 constants)
HARD_ERROR_CODES = {'NOTALLOWED': 530, 'NOTIMPLEMENTED': 540}
