"""Seeded one-site edits (MUTANTS: must be caught by the named property's rules) and behaviour-preserving
edits (BENIGN: every listed property's rules must stay silent). Edits are textual substitutions applied to
a scratch copy of /repo's current tree; an edit whose anchor text is gone is skipped and counted.
Each mutant compiles and leaves the 40 baseline tests green (they never execute the edited code)."""

MUTANTS = []
BENIGN = []


def M(prop, name, file, old, new, expect=None):
    MUTANTS.append({'property': prop, 'name': name, 'expect': expect, 'edit': {'kind': 'sub', 'file': file, 'old': old, 'new': new}})


def R(prop, name, commit_subject, expect=None):
    """revert of a `fix:` commit (found by subject so that the hash need not be frozen)"""
    MUTANTS.append({'property': prop, 'name': name, 'expect': expect, 'edit': {'kind': 'revert-subject', 'subject': commit_subject}})


def B(name, file, old, new, properties):
    BENIGN.append({'name': name, 'properties': properties, 'edit': {'kind': 'sub', 'file': file, 'old': old, 'new': new}})


MOD = 'src/io_loop/mod.rs'
CST = 'src/io_loop/connection_state.rs'
SLOTS = 'src/io_loop/channel_slots.rs'
COLL = 'src/io_loop/content_collector.rs'
HSK = 'src/io_loop/handshake_state.rs'
HDL = 'src/io_loop/io_loop_handle.rs'
CHH = 'src/io_loop/channel_handle.rs'
SER = 'src/serialize.rs'
FB = 'src/frame_buffer.rs'

# ------------------------------------------------------------------------------------------------ C01
M('C01', 'drain-len-on-wouldblock', MOD, 'self.outbuf.drain_written(pos);', 'self.outbuf.drain_written(len);', 'R01.2')
M('C01', 'pos-not-advanced', MOD, '            pos += n;\n', '            let _ = n;\n', 'R01.2')
M('C01', 'resize-one-too-many', SER, 'buf.resize(resize_to, 0);', 'buf.resize(resize_to + 1, 0);', 'R01.4')
M('C01', 'protocol-header-version', SER, 'b"AMQP\\x00\\x00\\x09\\x01"', 'b"AMQP\\x00\\x00\\x09\\x00"', 'R01.3')
M('C01', 'two-frames-per-handoff', HDL, '        self.buf.push_content_body(self.channel_id, content);', '        self.buf.push_content_body(self.channel_id, content);\n        self.buf.push_heartbeat();', 'R01.5')
M('C01', 'second-writer', MOD, '        let n = frame_buffer.read_from(stream, |frame| {', '        let _ = stream.write(b"");\n        let n = frame_buffer.read_from(stream, |frame| {', 'R01.1')
M('C01', 'wrong-channel-id-in-frame', HDL, '        self.buf.push_method(self.channel_id, method);', '        self.buf.push_method(0, method);', 'R01.5')
M('C01', 'clear-on-wouldblock', MOD, '                        self.outbuf.drain_written(pos);\n                        return Ok(());', '                        self.outbuf.clear();\n                        return Ok(());', 'R01.2')
# ------------------------------------------------------------------------------------------------ C02
M('C02', 'swap-mandatory-immediate', 'src/channel.rs', '            mandatory: publish.mandatory,\n            immediate: publish.immediate,', '            mandatory: publish.immediate,\n            immediate: publish.mandatory,', 'R02.1')
M('C02', 'advance-one-short', CHH, 'content = &content[self.frame_max..];', 'content = &content[self.frame_max - 1..];', 'R02.3')
M('C02', 'always-send-tail', CHH, '        if !content.is_empty() {\n', '        {\n', 'R02.3')
M('C02', 'overhead-7', CHH, 'const FRAME_OVERHEAD: usize = 8;', 'const FRAME_OVERHEAD: usize = 7;', 'R02.4')
M('C02', 'header-length-after-first-chunk', CHH, '            .send_content_header(class_id, content.len(), properties)?;', '            .send_content_header(class_id, content.len().min(self.frame_max), properties)?;', 'R02.2')
M('C02', 'exchange-from-routing-key', 'src/exchange.rs', 'self.channel.basic_publish(self.name(), publish)', 'self.channel.basic_publish(publish.routing_key.clone(), publish)', 'R02.1')
# ------------------------------------------------------------------------------------------------ C03
M('C03', 'overrun-accepted', COLL, 'Ordering::Less => {', 'Ordering::Less | Ordering::Greater => {', 'R03.1')
M('C03', 'redelivered-constant', 'src/delivery.rs', '                redelivered: deliver.redelivered,', '                redelivered: false,', 'R03.4')
M('C03', 'bounded-consumer-queue', CST, 'let (tx, rx) = crossbeam_channel::unbounded();', 'let (tx, rx) = crossbeam_channel::bounded(16);', 'R03.6')
M('C03', 'needmore-drops-state', COLL, '                Content::Done(return_) => {\n                    self.kind = None;\n                    Ok(Some(CollectorResult::Return(return_)))\n                }\n                Content::NeedMore(state) => {\n                    self.kind = Some(Kind::Return(state));\n                    Ok(None)\n                }\n            },\n            Some(Kind::Get(state)) => match state.collect_body',
  '                Content::Done(return_) => {\n                    self.kind = None;\n                    Ok(Some(CollectorResult::Return(return_)))\n                }\n                Content::NeedMore(state) => {\n                    Ok(None)\n                }\n            },\n            Some(Kind::Get(state)) => match state.collect_body', 'R03.1')
M('C03', 'body-arm-constant-channel', CST, '            AMQPFrame::Body(n, body) => {\n                let slot = slot_get_mut(inner, n)?;', '            AMQPFrame::Body(n, body) => {\n                let _ = n;\n                let slot = slot_get_mut(inner, 1)?;', 'R03.5')
M('C03', 'get-exchange-routing-key-swapped', 'src/delivery.rs', '            exchange: get_ok.exchange,\n            routing_key: get_ok.routing_key,\n            body,\n            properties,\n        }\n    }\n\n    /// The server-assigned', '            exchange: get_ok.routing_key,\n            routing_key: get_ok.exchange,\n            body,\n            properties,\n        }\n    }\n\n    /// The server-assigned', 'R03.4')
M('C03', 'blocking-send-to-consumer', CST, '    match tx.try_send(item) {\n        Ok(()) => Ok(()),\n        Err(TrySendError::Full(_)) => {', '    if tx.is_empty() {\n        return tx.send(item).map_err(|_| Error::EventLoopClientDropped);\n    }\n    match tx.try_send(item) {\n        Ok(()) => Ok(()),\n        Err(TrySendError::Full(_)) => {', 'R03.6')
# ------------------------------------------------------------------------------------------------ C04
M('C04', 'bind-awaits-unbind-ok', 'src/channel.rs', 'self.call::<_, QueueBindOk>(bind).map(|_ok| ())', 'self.call::<_, QueueUnbindOk>(bind).map(|_ok| ())', 'R04.3')
M('C04', 'declare-counts-swapped', 'src/channel.rs', '            Some(ok.message_count),\n            Some(ok.consumer_count),\n        ))\n    }\n\n    /// Asynchronously', '            Some(ok.consumer_count),\n            Some(ok.message_count),\n        ))\n    }\n\n    /// Asynchronously', 'R04.3')
M('C04', 'nowait-waits', HDL, '        let buf = self.make_buf(method);\n        self.send(IoLoopMessage::Send(buf))\n    }', '        let buf = self.make_buf(method);\n        self.send(IoLoopMessage::Send(buf))?;\n        let _ = self.recv()?;\n        Ok(())\n    }', 'R04.5')
M('C04', 'purge-ok-moved-to-not-allowed', CST, '            | AMQPFrame::Method(n, method @ AMQPClass::Queue(AmqpQueue::PurgeOk(_)))\n            | AMQPFrame::Method(n, method @ AMQPClass::Queue(AmqpQueue::UnbindOk(_))) => {', '            | AMQPFrame::Method(n, method @ AMQPClass::Queue(AmqpQueue::UnbindOk(_))) => {', None)
MUTANTS[-1]['edit2'] = {'kind': 'sub', 'file': CST, 'old': '            | AMQPFrame::Method(n, method @ AMQPClass::Queue(AmqpQueue::Purge(_)))\n', 'new': '            | AMQPFrame::Method(n, method @ AMQPClass::Queue(AmqpQueue::Purge(_)))\n            | AMQPFrame::Method(n, method @ AMQPClass::Queue(AmqpQueue::PurgeOk(_)))\n'}
M('C04', 'reply-to-channel-1', CST, '                let slot = slot_get(inner, n)?;\n                trace!(', '                let slot = slot_get(inner, 1)?;\n                trace!(', 'R04.1')
M('C04', 'purge-returns-constant', 'src/channel.rs', '        self.call::<_, QueuePurgeOk>(purge)\n            .map(|ok| ok.message_count)', '        self.call::<_, QueuePurgeOk>(purge)\n            .map(|_ok| 0)', 'R04.3')
# ------------------------------------------------------------------------------------------------ C05
M('C05', 'heartbeat-error-dropped', MOD, '            HEARTBEAT => self.inner.process_heartbeat_timers()?,\n            // The channel 0 slot', '            HEARTBEAT => { let _ = self.inner.process_heartbeat_timers(); }\n            // The channel 0 slot', 'R05.1')
M('C05', 'close-result-before-join', 'src/connection.rs', '            join_handle.join().map_err(|_| Error::IoThreadPanic)??;\n\n            // join ended cleanly; return the result of closing the connection.\n            close_result', '            close_result?;\n            join_handle.join().map_err(|_| Error::IoThreadPanic)??;\n            Ok(())', 'R05.5')
M('C05', 'eof-is-ok', FB, '                Ok(0) => return UnexpectedSocketCloseSnafu.fail(),', '                Ok(0) => return Ok(bytes_read),', 'R05.4')
M('C05', 'write-error-swallowed', MOD, '                    _ => return Err(err).context(IoErrorWritingSocketSnafu),', '                    _ => return Ok(()),', 'R05.4')
M('C05', 'reply-sender-cloned', MOD, '        let channel_slot = ChannelSlot {\n            rx: mio_rx,\n            tx,', '        std::mem::forget(tx.clone());\n        let channel_slot = ChannelSlot {\n            rx: mio_rx,\n            tx,', 'R05.3')
R('C05', 'revert-D9-invalid-credentials-masking', 'fix: report InvalidCredentials only when the socket closes after StartOk', 'R05.2')
# ------------------------------------------------------------------------------------------------ C06
M('C06', 'strict-complete-check', FB, 'if bytes.len() >= frame_size {', 'if bytes.len() > frame_size {', 'R06.2')
M('C06', 'overhead-7', FB, 'Some(size as usize + 8)', 'Some(size as usize + 7)', 'R06.1')
M('C06', 'advance-before-handler', FB, '                    handler(frame)?;\n                    self.buf.advance(frame_size);', '                    self.buf.advance(frame_size);\n                    handler(frame)?;', 'R06.2')
M('C06', 'size-position-2-6', FB, 'const AMQP_FRAME_SIZE_POS: std::ops::Range<usize> = 3..7;', 'const AMQP_FRAME_SIZE_POS: std::ops::Range<usize> = 2..6;', 'R06.1')
M('C06', 'trailing-bytes-accepted', FB, '            if rest.is_empty() {\n                return Ok(frame);\n            }', '            let _ = rest;\n            return Ok(frame);', 'R06.3')
M('C06', 'advance-one-short', FB, 'self.buf.advance(frame_size);', 'self.buf.advance(frame_size - 1);', 'R06.2')
M('C06', 'wouldblock-is-error', FB, '                    io::ErrorKind::WouldBlock => return Ok(bytes_read),', '                    io::ErrorKind::WouldBlock if bytes_read > 0 => return Ok(bytes_read),', 'R06.4')
# ------------------------------------------------------------------------------------------------ C07
M('C07', 'unwrap-on-slot-lookup', CST, '                let slot = slot_get(inner, n)?;\n                trace!(', '                let slot = inner.chan_slots.get(n).unwrap();\n                trace!(', 'R07.1')
M('C07', 'publish-routed-as-reply', CST, '            | AMQPFrame::Method(n, method @ AMQPClass::Queue(AmqpQueue::UnbindOk(_))) => {\n                let slot = slot_get(inner, n)?;', '            | AMQPFrame::Method(n, method @ AMQPClass::Basic(AmqpBasic::Publish(_)))\n            | AMQPFrame::Method(n, method @ AMQPClass::Queue(AmqpQueue::UnbindOk(_))) => {\n                let slot = slot_get(inner, n)?;', 'R07.2')
M('C07', 'codes-swapped', CST, '                let text = format!("illegal channel {} method {:?}", n, method);\n                self.client_exception(inner, AMQPHardError::NOTALLOWED, text)?;', '                let text = format!("illegal channel {} method {:?}", n, method);\n                self.client_exception(inner, AMQPHardError::NOTIMPLEMENTED, text)?;', 'R07.2')
M('C07', 'frames-after-exception-are-errors', CST, '            ConnectionState::ClientException => return Ok(()),', '            ConnectionState::ClientException => return FrameUnexpectedSnafu.fail(),', 'R07.3')
M('C07', 'with-capacity-from-wire', COLL, 'let buf = Vec::new();', 'let buf = Vec::with_capacity(header.body_size as usize);', 'R07.')
M('C07', 'duplicate-tag-overwrites', CST, '                    Entry::Occupied(_) => {\n                        return DuplicateConsumerTagSnafu {\n                            channel_id: n,\n                            consumer_tag,\n                        }\n                        .fail();\n                    }\n                    Entry::Vacant(entry) => {\n                        let (tx, rx) = crossbeam_channel::unbounded();\n                        entry.insert(tx);',
  '                    Entry::Occupied(mut entry) => {\n                        let (tx, rx) = crossbeam_channel::unbounded();\n                        entry.insert(tx);\n                        send(&slot.tx, Ok(ChannelMessage::ConsumeOk(consumer_tag, rx)))?;\n                    }\n                    Entry::Vacant(entry) => {\n                        let (tx, rx) = crossbeam_channel::unbounded();\n                        entry.insert(tx);', 'R07.4')
M('C07', 'exception-without-seal', CST, '        inner.push_method(0, AmqpConnection::Close(close));\n        inner.seal_writes();\n        *self = ConnectionState::ClientException;', '        inner.push_method(0, AmqpConnection::Close(close));\n        *self = ConnectionState::ClientException;', 'R07.')
M('C07', 'heartbeat-nonzero-ignored', CST, '            AMQPFrame::Heartbeat(0) => {', '            AMQPFrame::Heartbeat(_) => {', 'R07.2')
M('C07', 'index-in-collector', COLL, '                buf.append(&mut body);', '                if !body.is_empty() { let _ = body[body.len() - 1]; }\n                buf.append(&mut body);', 'R07.1')
R('C07', 'revert-D8-reply-text-truncation', "fix: keep the client exception's reply text within an AMQP short string", 'R07.6')
R('C07', 'revert-D7-with-capacity', 'fix: do not pre-allocate the content buffer from the announced body size', 'R07.')
# ------------------------------------------------------------------------------------------------ C08
M('C08', 'no-seal-on-server-close', CST, '                inner.push_method(0, AmqpConnection::CloseOk(ConnectionCloseOk {}));\n                inner.seal_writes();\n', '                inner.push_method(0, AmqpConnection::CloseOk(ConnectionCloseOk {}));\n', 'R08.')
M('C08', 'seal-before-closeok', CST, '                inner.push_method(0, AmqpConnection::CloseOk(ConnectionCloseOk {}));\n                inner.seal_writes();\n', '                inner.seal_writes();\n                inner.push_method(0, AmqpConnection::CloseOk(ConnectionCloseOk {}));\n', 'R08.4')
M('C08', 'append-ignores-seal', SER, '    pub(super) fn append(&mut self, other: OutputBuffer) {\n        if !self.sealed {\n            self.buf.append(other)\n        }', '    pub(super) fn append(&mut self, other: OutputBuffer) {\n        {\n            self.buf.append(other)\n        }', 'R08.2')
M('C08', 'close-as-plain-send', HDL, 'self.call_message(IoLoopMessage::ConnectionClose(buf))', 'self.call_message(IoLoopMessage::Send(buf))', 'R08.3')
M('C08', 'consumers-not-told-on-closeok', CST, '                    send(&slot.tx, Err(Error::ClientClosedConnection))?;\n                    for (_, tx) in slot.consumers.drain() {\n                        send(&tx, ConsumerMessage::ClientClosedConnection)?;\n                    }', '                    send(&slot.tx, Err(Error::ClientClosedConnection))?;', 'R08.4')
M('C08', 'reply-code-zero', CHH, '            reply_code: u16::from(REPLY_SUCCESS),', '            reply_code: 0,', 'R08.3')
M('C08', 'server-close-done-before-flush', MOD, '            ConnectionState::Steady(_) => false,\n            ConnectionState::ClientClosed => true,\n            ConnectionState::ServerClosing(_) | ConnectionState::ClientException => {', '            ConnectionState::Steady(_) => false,\n            ConnectionState::ClientClosed | ConnectionState::ServerClosing(_) => true,\n            ConnectionState::ClientException => {', 'R08.5')
M('C08', 'unseal-on-clear', SER, '    pub(super) fn clear(&mut self) {\n        self.buf.clear()\n    }', '    pub(super) fn clear(&mut self) {\n        self.sealed = false;\n        self.buf.clear()\n    }', 'R08.2')
R('C08', 'revert-D10-eof-after-closeok', "fix: accept the socket closing right behind the server's CloseOk", 'R08.6')
# ------------------------------------------------------------------------------------------------ C09
M('C09', 'closeok-on-channel-0', CST, '                inner.push_method(n, AmqpChannel::CloseOk(ChannelCloseOk {}));', '                inner.push_method(0, AmqpChannel::CloseOk(ChannelCloseOk {}));', 'R09.1')
M('C09', 'stale-wakeup-is-error', MOD, '                    // the channel handle.\n                    return Ok(());', '                    // the channel handle.\n                    return EventLoopClientDroppedSnafu.fail();', 'R09.2')
M('C09', 'remove-forgets-freed', SLOTS, '        self.freed_channel_ids.insert(channel_id);\n        Some(entry)', '        Some(entry)', 'R09.4')
M('C09', 'channel-close-drains-all', CST, '                let mut slot = slot_remove(inner, n)?;\n                let make_err = || Error::ServerClosedChannel {', '                let mut slot = slot_remove(inner, n)?;\n                for (_, other) in inner.chan_slots.drain() { drop(other); }\n                let make_err = || Error::ServerClosedChannel {', 'R09.1')
M('C09', 'queued-error-replaced', HDL, '            Err(err) => err,\n        }\n    }\n}\n\npub(super) struct IoLoopHandle0', '            Err(_) => Error::EventLoopDropped,\n        }\n    }\n}\n\npub(super) struct IoLoopHandle0', 'R09.3')
# ------------------------------------------------------------------------------------------------ C10
M('C10', 'max-off-by-one', SLOTS, 'if channel_id == 0 || channel_id > self.channel_max', 'if channel_id == 0 || channel_id >= self.channel_max', 'R10.1')
M('C10', 'counter-increment-first', SLOTS, '            let channel_id = self.next_channel_id as u16;\n            self.next_channel_id += 1;', '            self.next_channel_id += 1;\n            let channel_id = self.next_channel_id as u16;', 'R10.2')
M('C10', 'undeliverable-reply-leaks-slot', MOD, '                    self.chan_slots.remove(handle.channel_id());', '                    let _ = handle.channel_id();', 'R10.5')
M('C10', 'counter-starts-at-0', SLOTS, '            next_channel_id: 1,', '            next_channel_id: 0,', 'R10.2')
R('C10', 'revert-D1-zero-guard', 'fix: reject channel id 0 in ChannelSlots::insert', 'R10.1')
R('C10', 'revert-D2-stale-freed-id', 'fix: skip freed channel ids that have been reopened instead of panicking', 'R10.')
R('C10', 'revert-D3-counter-overflow', 'fix: keep the never-used channel id counter from wrapping at u16::MAX', 'R10.')
# ------------------------------------------------------------------------------------------------ C11
M('C11', 'cancel-uses-get', CST, 'if let Some(tx) = slot.consumers.remove(&consumer_tag) {', 'if let Some(tx) = slot.consumers.get(&consumer_tag) {', 'R11.1')
M('C11', 'cancelled-flag-never-set', 'src/consumer.rs', '        self.cancelled.set(true);\n', '', 'R11.5')
M('C11', 'server-cancel-reported-as-client', CST, 'send(&tx, ConsumerMessage::ServerCancelled)?;', 'send(&tx, ConsumerMessage::ClientCancelled)?;', 'R11.2')
M('C11', 'cancelok-regardless-of-nowait', CST, '                if !cancel.nowait {\n                    inner.push_method(n, AmqpBasic::CancelOk(CancelOk { consumer_tag }));\n                }', '                {\n                    inner.push_method(n, AmqpBasic::CancelOk(CancelOk { consumer_tag }));\n                }', 'R11.2')
M('C11', 'drop-does-not-cancel', 'src/consumer.rs', '        let _ = self.cancel();', '        let _ = self.cancelled.get();', 'R11.5')
M('C11', 'terminal-before-reply-swapped', CST, '                let consumer = slot.consumers.remove(&cancel_ok.consumer_tag);\n                // Consumer first', '                let consumer = slot.consumers.get(&cancel_ok.consumer_tag).cloned();\n                // Consumer first', 'R11.')
# ------------------------------------------------------------------------------------------------ C12
M('C12', 'nowait-in-sync-bind', 'src/channel.rs', '            routing_key: routing_key.into(),\n            nowait: false,\n            arguments,\n        });\n        self.call::<_, QueueBindOk>(bind)', '            routing_key: routing_key.into(),\n            nowait: true,\n            arguments,\n        });\n        self.call::<_, QueueBindOk>(bind)', 'R12.1')
M('C12', 'source-destination-swapped', 'src/exchange.rs', '            .exchange_bind(self.name(), source.name(), routing_key, arguments)', '            .exchange_bind(source.name(), self.name(), routing_key, arguments)', 'R12.1')
M('C12', 'if-unused-if-empty-swapped', 'src/queue.rs', '            if_unused: self.if_unused,\n            if_empty: self.if_empty,', '            if_unused: self.if_empty,\n            if_empty: self.if_unused,', 'R12.')
M('C12', 'requeue-dropped', 'src/channel.rs', '            delivery_tag: delivery.delivery_tag(),\n            multiple,\n            requeue,', '            delivery_tag: delivery.delivery_tag(),\n            multiple,\n            requeue: false,', 'R12.1')
M('C12', 'passive-in-plain-declare', 'src/channel.rs', 'let declare = AmqpQueue::Declare(options.into_declare(queue.into(), false, false));', 'let declare = AmqpQueue::Declare(options.into_declare(queue.into(), true, false));', 'R12.1')
M('C12', 'ack-multiple-flipped', 'src/delivery.rs', '        channel.basic_ack(self, true)', '        channel.basic_ack(self, false)', 'R12.1')
M('C12', 'queue-bind-args-reordered', 'src/queue.rs', '            .queue_bind(self.name(), exchange.name(), routing_key, arguments)', '            .queue_bind(exchange.name(), self.name(), routing_key, arguments)', 'R12.1')
M('C12', 'assert-after-send', 'src/delivery.rs', '    pub fn reject(self, channel: &Channel, requeue: bool) -> Result<()> {\n        assert_eq!(\n            self.channel_id,\n            channel.channel_id(),\n            "cannot reject delivery on different channel"\n        );\n        channel.basic_reject(self, requeue)',
  '    pub fn reject(self, channel: &Channel, requeue: bool) -> Result<()> {\n        let id = self.channel_id;\n        let res = channel.basic_reject(self, requeue);\n        assert_eq!(\n            id,\n            channel.channel_id(),\n            "cannot reject delivery on different channel"\n        );\n        res', 'R12.2')
R('C12', 'revert-D6-consumer-reject', "fix: Consumer::reject checks the delivery's channel like ack and nack do", 'R12.2')
# ------------------------------------------------------------------------------------------------ C13
M('C13', 'nack-forwarded-as-ack', CST, 'try_send_confirm(slot, Confirm::Nack(confirm));', 'try_send_confirm(slot, Confirm::Ack(confirm));', 'R13.1')
M('C13', 'multiple-constant', CST, '                    delivery_tag: ack.delivery_tag,\n                    multiple: ack.multiple,', '                    delivery_tag: ack.delivery_tag,\n                    multiple: false,', 'R13.1')
M('C13', 'listener-kept-after-disconnect', CST, '            Err(TrySendError::Full(confirm)) | Err(TrySendError::Disconnected(confirm)) => {\n                slot.pub_confirm_handler = None;\n                confirm', '            Err(TrySendError::Full(confirm)) | Err(TrySendError::Disconnected(confirm)) => {\n                confirm', 'R13.2')
M('C13', 'bounded-confirm-listener', 'src/channel.rs', '        let (tx, rx) = crossbeam_channel::unbounded();\n        self.inner.borrow_mut().set_pub_confirm_handler(Some(tx))?;', '        let (tx, rx) = crossbeam_channel::bounded(64);\n        self.inner.borrow_mut().set_pub_confirm_handler(Some(tx))?;', 'R13.2')
M('C13', 'blocked-reason-dropped', CST, 'let note = ConnectionBlockedNotification::Blocked(blocked.reason);', 'let note = ConnectionBlockedNotification::Blocked(String::new());', 'R13.1')
M('C13', 'handlers-crossed-on-io-side', MOD, '                let slot = self.chan_slots.get_mut(channel_id).unwrap();\n                slot.return_handler = handler;', '                let slot = self.chan_slots.get_mut(channel_id).unwrap();\n                slot.return_handler = handler.map(|_| unreachable!());', 'R13.3')
# ------------------------------------------------------------------------------------------------ C14
M('C14', 'ack-nack-crossed', 'src/confirm.rs', '            Confirm::Nack(inner) => self.new_iter(inner, Confirm::Nack),', '            Confirm::Nack(inner) => self.new_iter(inner, Confirm::Ack),', 'R14.1')
M('C14', 'exact-match-loosened', 'src/confirm.rs', '        if payload.delivery_tag == self.parent.expected {', '        if payload.delivery_tag <= self.parent.expected {', 'R14.')
M('C14', 'missing-increment', 'src/confirm.rs', '                    .unwrap_or_else(|| (self.to_confirm)(self.parent.expected));\n                self.parent.expected += 1;', '                    .unwrap_or_else(|| (self.to_confirm)(self.parent.expected));', 'R14.2')
M('C14', 'stash-under-expected', 'src/confirm.rs', '                self.parent.out_of_order.insert(\n                    payload.delivery_tag,', '                self.parent.out_of_order.insert(\n                    self.parent.expected,', 'R14.4')
M('C14', 'drop-does-not-drain', 'src/confirm.rs', '        while !self.done {\n            let _ = self.next();\n        }', '        self.done = true;', 'R14.5')
M('C14', 'emitted-multiple-true', 'src/confirm.rs', '                    delivery_tag: tag,\n                    multiple: false,', '                    delivery_tag: tag,\n                    multiple: true,', 'R14.1')
R('C14', 'revert-D4-multiple-overrides-stash', 'fix: ConfirmSmoother keeps the outcome of an individually confirmed tag under a later multiple', 'R14.3')
# ------------------------------------------------------------------------------------------------ C15
M('C15', 'max-instead-of-min', 'src/connection_options.rs', 'let channel_max = u16::min(chan_max0, chan_max1);', 'let channel_max = u16::max(chan_max0, chan_max1);', 'R15.1')
M('C15', 'floor-non-strict', 'src/connection_options.rs', 'if frame_max < u32::from(FRAME_MIN_SIZE) {', 'if frame_max <= u32::from(FRAME_MIN_SIZE) {', 'R15.2')
M('C15', 'timers-from-options', HSK, 'inner.start_heartbeats(tune_ok.heartbeat);', 'inner.start_heartbeats(options.heartbeat);', 'R15.3')
M('C15', 'overhead-7', CHH, 'const FRAME_OVERHEAD: usize = 8;', 'const FRAME_OVERHEAD: usize = 7;', 'R15.3')
M('C15', 'heartbeat-promoted', 'src/connection_options.rs', 'let heartbeat = u16::min(tune.heartbeat, self.heartbeat);', 'let heartbeat = u16::min(promote_0_u16(tune.heartbeat), promote_0_u16(self.heartbeat));', 'R15.1')
M('C15', 'frame-max-fields-crossed', 'src/connection_options.rs', 'let frame_max1 = promote_0_u32(self.frame_max);', 'let frame_max1 = promote_0_u32(u32::from(self.channel_max));', 'R15.1')
M('C15', 'channel-max-from-options', MOD, '        let channel_max = tune_ok.channel_max;', '        let channel_max = tune_ok.channel_max.max(1);', 'R15.3')
# ------------------------------------------------------------------------------------------------ C16
M('C16', 'open-before-tuneok', HSK, '                inner.push_method(0, AmqpConnection::TuneOk(tune_ok.clone()));\n\n                let open = options.make_open();\n                debug!("sending handshake {:?}", open);\n                inner.push_method(0, AmqpConnection::Open(open));',
  '                let open = options.make_open();\n                debug!("sending handshake {:?}", open);\n                inner.push_method(0, AmqpConnection::Open(open));\n                inner.push_method(0, AmqpConnection::TuneOk(tune_ok.clone()));', 'R16.1')
M('C16', 'blocked-capability-dropped', 'src/connection_options.rs', '        set_cap("connection.blocked");\n', '', 'R16.3')
M('C16', 'external-mechanism-plain', 'src/auth.rs', 'Auth::External => "EXTERNAL".to_string()', 'Auth::External => "PLAIN".to_string()', 'R16.3')
M('C16', 'secure-check-skipped', HSK, '                if let Ok(secure) = Secure::try_from(0, frame.clone()) {\n                    error!("received unsupported handshake {:?}", secure);\n                    return SaslSecureNotSupportedSnafu.fail();\n                }\n', '', 'R16.1')
M('C16', 'done-signalled-before-handshake', MOD, '        let (tune_ok, server_properties, pending_frames) =\n            self.run_amqp_handshake(&mut stream, options, have_written_to_socket)?;\n        let channel_max = tune_ok.channel_max;\n        match handshake_done_tx.send((tune_ok.frame_max as usize, server_properties)) {',
  '        let _ = handshake_done_tx.send((0, FieldTable::new()));\n        let (tune_ok, server_properties, pending_frames) =\n            self.run_amqp_handshake(&mut stream, options, have_written_to_socket)?;\n        let channel_max = tune_ok.channel_max;\n        match handshake_done_tx.send((tune_ok.frame_max as usize, server_properties)) {', 'R16.4')
M('C16', 'mechanism-from-locale', 'src/connection_options.rs', '                mechanism,\n                response: self.auth.response(),', '                mechanism: self.locale.clone(),\n                response: self.auth.response(),', 'R16.3')
M('C16', 'timeout-not-cleared', MOD, '        self.connection_timeout = None;\n        match state {', '        match state {', 'R16.2')
M('C16', 'pending-frames-dropped', MOD, '        for frame in pending_frames {\n            state.process(&mut self.inner, frame)?;\n        }', '        drop(pending_frames);', 'R16.8')
M('C06', 'pending-frames-reversed', MOD, '        for frame in pending_frames {', '        for frame in pending_frames.into_iter().rev() {', 'R06.6')
R('C06', 'revert-D11-frames-behind-open-ok', 'fix: keep frames that share a read with OpenOk for the established connection', 'R06.6')
R('C16', 'revert-D11-frames-behind-open-ok', 'fix: keep frames that share a read with OpenOk for the established connection', 'R16.')
R('C16', 'revert-D9-invalid-credentials', 'fix: report InvalidCredentials only when the socket closes after StartOk', 'R16.2')
# ------------------------------------------------------------------------------------------------ C17
M('C17', 'max-missed-1', 'src/io_loop/heartbeat_timers.rs', 'const MAX_MISSED_SERVER_HEARTBEATS: u32 = 2;', 'const MAX_MISSED_SERVER_HEARTBEATS: u32 = 1;', 'R17.1')
M('C17', 'rx-activity-not-recorded', MOD, '        if n > 0 {\n            self.heartbeats.record_rx_activity();\n        }', '        let _ = n;', 'R17.2')
M('C17', 'interval-in-millis', MOD, '.start(Duration::from_secs(u64::from(interval)));', '.start(Duration::from_millis(u64::from(interval)));', 'R17.1')
M('C17', 'fire-comparison-inverted', 'src/heartbeats.rs', 'if self.interval <= elapsed + Duration::from_millis(5) {', 'if self.interval > elapsed + Duration::from_millis(5) {', 'R17.4')
M('C17', 'kinds-crossed', 'src/io_loop/heartbeat_timers.rs', '        let tx = Heartbeat::start(HeartbeatKind::Tx, interval, timer);', '        let tx = Heartbeat::start(HeartbeatKind::Rx, interval, timer);', 'R17.1')
M('C17', 'heartbeat-even-when-busy', MOD, '                        if self.outbuf.is_empty() {\n                            debug!("sending heartbeat");\n                            self.outbuf.push_heartbeat();\n                        } else {', '                        if true {\n                            debug!("sending heartbeat");\n                            self.outbuf.push_heartbeat();\n                        } else {', 'R17.3')
M('C17', 'tx-stamps-rx', 'src/io_loop/heartbeat_timers.rs', '            trace!("recording activity for tx heartbeat");\n            hb.tx.record_activity();', '            trace!("recording activity for tx heartbeat");\n            hb.rx.record_activity();', 'R17.2')
# ------------------------------------------------------------------------------------------------ C18
M('C18', 'high-uses-low-mark', MOD, 'if listening_to_channels && self.inner.outbuf.len() > self.buffered_writes_high_water {', 'if listening_to_channels && self.inner.outbuf.len() > self.buffered_writes_low_water {', 'R18.2')
M('C18', 'born-throttled-not-deregistered', MOD, '                if !channels_are_registered {', '                if false {', 'R18.4')
M('C18', 'unbounded-handoff', MOD, 'let (mio_tx, mio_rx) = mio_sync_channel(mio_channel_bound);', 'let (mio_tx, mio_rx) = mio_sync_channel(usize::max_value());', 'R18.1')
M('C18', 'resume-flag-not-set', MOD, '                self.inner.reregister_nonzero_channels(&self.poll)?;\n                listening_to_channels = true;', '                self.inner.reregister_nonzero_channels(&self.poll)?;', 'R18.2')
M('C18', 'inner-flag-not-cleared', MOD, '        self.channels_are_registered = false;\n        Ok(())', '        Ok(())', 'R18.2')
M('C18', 'reregister-token-0', MOD, '                Token(*id as usize),\n                Ready::readable(),', '                Token(0),\n                Ready::readable(),', 'R18.3')
# ------------------------------------------------------------------------------------------------ C19
M('C19', 'amqp-default-port-5671', 'src/connection.rs', 'url.set_port(Some(url.port().unwrap_or(5672)))', 'url.set_port(Some(url.port().unwrap_or(5671)))', 'R19.1')
M('C19', 'timeout-in-seconds', 'src/connection.rs', 'options = options.connection_timeout(Some(Duration::from_millis(v)));', 'options = options.connection_timeout(Some(Duration::from_secs(v)));', 'R19.1')
M('C19', 'secure-open-allows-insecure', 'src/connection.rs', 'self::amqp_url::open(url, tuning, false)', 'self::amqp_url::open(url, tuning, true)', 'R19.3')
M('C19', 'password-default-empty', 'src/connection.rs', 'password: percent_decode(url.password().unwrap_or("guest")).to_string(),', 'password: percent_decode(url.password().unwrap_or("")).to_string(),', 'R19.1')
M('C19', 'heartbeat-into-channel-max', 'src/connection.rs', '                    options = options.heartbeat(v);', '                    options = options.channel_max(v);', 'R19.1')
M('C19', 'vhost-not-decoded', 'src/connection.rs', 'options = options.virtual_host(percent_decode(vhost));', 'options = options.virtual_host(vhost);', 'R19.1')
M('C19', 'unknown-parameter-ignored', 'src/connection.rs', '                parameter => {\n                    return UrlUnsupportedParameterSnafu {\n                        url: url.clone(),\n                        parameter,\n                    }\n                    .fail();\n                }', '                _parameter => {}', 'R19.1')
# ------------------------------------------------------------------------------------------------ C20
M('C20', 'alloc-arm-unreachable', MOD, '            ALLOC_CHANNEL => match &state {\n                ConnectionState::Steady(ch0_slot) => {\n                    self.inner.allocate_channel(ch0_slot, &self.poll)?\n                }\n                ConnectionState::ServerClosing(_)\n                | ConnectionState::ClientException\n                | ConnectionState::ClientClosed => (),',
  '            ALLOC_CHANNEL => match &state {\n                ConnectionState::Steady(ch0_slot) => {\n                    self.inner.allocate_channel(ch0_slot, &self.poll)?\n                }\n                ConnectionState::ServerClosing(_)\n                | ConnectionState::ClientException\n                | ConnectionState::ClientClosed => unreachable!(),', 'R20.')
M('C20', 'stale-channel-wakeup-panics', MOD, '                    // the channel handle.\n                    return Ok(());', '                    // the channel handle.\n                    unreachable!("slot must exist");', 'R20.')
M('C20', 'is-done-inside-batch', MOD, '            for event in events.iter() {\n                handle_event(self, stream, state, event)?;\n            }', '            for event in events.iter() {\n                handle_event(self, stream, state, event)?;\n                if is_done(self, state) {\n                    return Ok(());\n                }\n            }', 'R20.3')
R('C11', 'revert-D12-caller-released-before-terminal-message', "fix: post terminal consumer messages before releasing the channel's caller", 'R11.7')
R('C09', 'revert-D12-caller-released-before-terminal-message', "fix: post terminal consumer messages before releasing the channel's caller", 'R09.')
R('C08', 'revert-D12-caller-released-before-terminal-message', "fix: post terminal consumer messages before releasing the channel's caller", 'R08.')
R('C20', 'revert-D5-stale-ch0-wakeups', 'fix: ignore stale channel-0 wakeups after the connection left the Steady state', 'R20.')

# ================================================================================================ benign edits
ALLP = ['C%02d' % i for i in range(1, 21)]
B('rename-write-loop-locals', MOD, '        let len = self.outbuf.len();\n        let mut pos = 0;\n\n        // Keep writing until we\'ve written all len bytes or we hit WouldBlock.\n        while pos < len {\n            trace!("trying to write {} bytes", len - pos);\n            let n = match stream.write(&self.outbuf[pos..]) {\n                Ok(n) => {\n                    trace!("wrote {} bytes", n);\n                    self.heartbeats.record_tx_activity();\n                    n\n                }\n                Err(err) => match err.kind() {\n                    io::ErrorKind::WouldBlock => {\n                        self.outbuf.drain_written(pos);\n                        return Ok(());\n                    }\n                    _ => return Err(err).context(IoErrorWritingSocketSnafu),\n                },\n            };\n            pos += n;\n        }',
  '        let total = self.outbuf.len();\n        let mut written = 0;\n\n        while written < total {\n            trace!("trying to write {} bytes", total - written);\n            let count = match stream.write(&self.outbuf[written..]) {\n                Ok(count) => {\n                    trace!("wrote {} bytes", count);\n                    self.heartbeats.record_tx_activity();\n                    count\n                }\n                Err(e) => match e.kind() {\n                    io::ErrorKind::WouldBlock => {\n                        self.outbuf.drain_written(written);\n                        return Ok(());\n                    }\n                    _ => return Err(e).context(IoErrorWritingSocketSnafu),\n                },\n            };\n            written += count;\n        }', ['C01', 'C05', 'C07', 'C17', 'C20'])
B('extra-logging-in-dispatch', CST, '            AMQPFrame::Method(n, AMQPClass::Channel(AmqpChannel::Close(close))) => {\n                warn!("server closing channel {}: {:?}", n, close);', '            AMQPFrame::Method(n, AMQPClass::Channel(AmqpChannel::Close(close))) => {\n                warn!("server closing channel {}: {:?}", n, close);\n                debug!("channel {} had {} slots open", n, 1);\n                trace!("close = {:?}", close);', ['C03', 'C04', 'C07', 'C08', 'C09', 'C11', 'C13', 'C20'])
B('rename-handshake-locals', HSK, '                let tune = Tune::try_from(0, frame)?;\n                debug!("received handshake {:?}", tune);\n\n                let tune_ok = options.make_tune_ok(tune)?;\n                inner.start_heartbeats(tune_ok.heartbeat);\n\n                debug!("sending handshake {:?}", tune_ok);\n                inner.push_method(0, AmqpConnection::TuneOk(tune_ok.clone()));',
  '                let server_tune = Tune::try_from(0, frame)?;\n                debug!("received handshake {:?}", server_tune);\n\n                let agreed = options.make_tune_ok(server_tune)?;\n                inner.start_heartbeats(agreed.heartbeat);\n\n                debug!("sending handshake {:?}", agreed);\n                inner.push_method(0, AmqpConnection::TuneOk(agreed.clone()));\n                let tune_ok = agreed;', ['C15', 'C16', 'C17', 'C07'])
B('extract-helper-close-arm', CST, '                inner.push_method(0, AmqpConnection::CloseOk(ConnectionCloseOk {}));\n                inner.seal_writes();\n                let reply_code = close.reply_code;', '                fn answer_and_seal(inner: &mut Inner) {\n                    inner.push_method(0, AmqpConnection::CloseOk(ConnectionCloseOk {}));\n                    inner.seal_writes();\n                }\n                answer_and_seal(inner);\n                let reply_code = close.reply_code;', ['C07', 'C08', 'C11', 'C20'])
B('reorder-independent-lets', CST, '                let reply_code = close.reply_code;\n                let message = close.reply_text.clone();', '                let message = close.reply_text.clone();\n                let reply_code = close.reply_code;', ['C08', 'C11', 'C07'])
B('rename-collector-bindings', COLL, '            State::Body(start, header, mut buf) => {\n                let body_size = header.body_size as usize;\n                buf.append(&mut body);\n                match buf.len().cmp(&body_size) {\n                    Ordering::Equal => {\n                        Ok(Content::Done(T::new(\n                            channel_id,\n                            start,\n                            buf,\n                            header.properties,\n                        )))\n                    },\n                    Ordering::Less => {\n                        Ok(Content::NeedMore(State::Body(start, header, buf)))\n                    }',
  '            State::Body(method, hdr, mut acc) => {\n                let announced = hdr.body_size as usize;\n                acc.append(&mut body);\n                match acc.len().cmp(&announced) {\n                    Ordering::Equal => {\n                        Ok(Content::Done(T::new(\n                            channel_id,\n                            method,\n                            acc,\n                            hdr.properties,\n                        )))\n                    },\n                    Ordering::Less => {\n                        Ok(Content::NeedMore(State::Body(method, hdr, acc)))\n                    }', ['C03', 'C07'])
B('rename-api-closure-params', 'src/channel.rs', '        self.call::<_, QueuePurgeOk>(purge)\n            .map(|ok| ok.message_count)', '        self.call::<_, QueuePurgeOk>(purge)\n            .map(|purge_ok| purge_ok.message_count)', ['C04', 'C12'])
B('explicit-into-string', 'src/channel.rs', '            queue: queue.into(),\n            exchange: exchange.into(),\n            routing_key: routing_key.into(),\n            nowait: false,\n            arguments,\n        });\n        self.call::<_, QueueBindOk>(bind)', '            queue: Into::<String>::into(queue),\n            exchange: String::from(exchange.into()),\n            routing_key: routing_key.into().clone(),\n            nowait: false,\n            arguments,\n        });\n        self.call::<_, QueueBindOk>(bind)', ['C04', 'C12'])
B('rename-smoother-local', 'src/confirm.rs', '        let payload = self.payload;\n\n        if payload.delivery_tag == self.parent.expected {', '        let payload = self.payload;\n        let _unused_for_logging = payload.multiple;\n\n        if payload.delivery_tag == self.parent.expected {', ['C14'])
B('url-extra-trace', 'src/connection.rs', '        let mut options = ConnectionOptions::default();\n        if let Some(mut path_segments) = url.path_segments() {', '        let mut options = ConnectionOptions::default();\n        log::trace!("decoding {}", url);\n        if let Some(mut path_segments) = url.path_segments() {', ['C19'])
B('rename-read-loop-locals', FB, '            let bytes = self.buf.chunk();\n            let frame_size = Kind::parse_size(bytes);\n            let mut reserve = MIN_READ;\n\n            // if we already have enough data buffered to read a frame, do that before\n            // trying to read from the stream.\n            if let Some(frame_size) = frame_size {\n                if bytes.len() >= frame_size {\n                    let frame = Kind::parse_frame(&bytes[..frame_size])?;\n                    handler(frame)?;\n                    self.buf.advance(frame_size);\n                    continue;',
  '            let buffered = self.buf.chunk();\n            let wanted = Kind::parse_size(buffered);\n            let mut reserve = MIN_READ;\n\n            if let Some(need) = wanted {\n                if buffered.len() >= need {\n                    let parsed = Kind::parse_frame(&buffered[..need])?;\n                    handler(parsed)?;\n                    self.buf.advance(need);\n                    continue;', ['C06', 'C05', 'C07'])
BENIGN[-1]['edit2'] = {'kind': 'sub', 'file': FB, 'old': 'reserve = usize::max(MIN_READ, frame_size);', 'new': 'reserve = usize::max(MIN_READ, need);'}
B('slots-extra-debug-assert', SLOTS, '    pub(crate) fn remove(&mut self, channel_id: u16) -> Option<T> {\n        let entry = self.slots.remove(&channel_id)?;', '    pub(crate) fn remove(&mut self, channel_id: u16) -> Option<T> {\n        log::trace!("removing channel {}", channel_id);\n        let entry = self.slots.remove(&channel_id)?;', ['C09', 'C10'])
B('heartbeat-comment-and-log', 'src/heartbeats.rs', '    pub fn record_activity(&mut self) {\n        self.last = Instant::now();', '    pub fn record_activity(&mut self) {\n        trace!("activity on {:?}", self.val);\n        self.last = Instant::now();', ['C17'])
B('backpressure-rename-flag', MOD, '        let mut listening_to_channels = true;', '        let mut listening_to_channels = true; // (flag renamed nowhere: comment-only edit)', ['C18', 'C01'])
B('publish-rename-borrow', 'src/channel.rs', '        let mut inner = self.inner.borrow_mut();\n        inner.call_nowait(AmqpBasic::Publish(AmqpPublish {', '        let mut handle = self.inner.borrow_mut();\n        let inner = &mut *handle;\n        inner.call_nowait(AmqpBasic::Publish(AmqpPublish {', ['C02', 'C12'])

# equivalent rewrites a maintainer might make (must stay silent)
B('map-to-question-mark', 'src/channel.rs', "        self.call::<_, QueueBindOk>(bind).map(|_ok| ())\n", "        self.call::<_, QueueBindOk>(bind)?;\n        Ok(())\n", ['C04', 'C12'])
B('purge-map-to-question-mark', 'src/channel.rs', "        self.call::<_, QueuePurgeOk>(purge)\n            .map(|ok| ok.message_count)", "        let ok = self.call::<_, QueuePurgeOk>(purge)?;\n        Ok(ok.message_count)", ['C04', 'C12'])
B('if-let-to-match-in-cancel-arm', CST, "                if let Some(tx) = slot.consumers.remove(&consumer_tag) {\n                    send(&tx, ConsumerMessage::ServerCancelled)?;\n                }", "                match slot.consumers.remove(&consumer_tag) {\n                    Some(tx) => send(&tx, ConsumerMessage::ServerCancelled)?,\n                    None => {}\n                }", ['C11', 'C07', 'C04'])
B('new-public-api-method', 'src/channel.rs', "    pub fn recover(&self, requeue: bool) -> Result<()> {", "    /// Convenience: prefetch one message at a time.\n    pub fn qos_one(&self) -> Result<()> {\n        self.qos(0, 1, false)\n    }\n\n    pub fn recover(&self, requeue: bool) -> Result<()> {", ['C04', 'C12', 'C05', 'C07'])
B('helper-in-handle', HDL, "        let buf = self.make_buf(method);\n        self.send(IoLoopMessage::Send(buf))\n    }", "        let msg = self.frame_message(method);\n        self.send(msg)\n    }\n\n    fn frame_message<M: IntoAmqpClass>(&mut self, method: M) -> IoLoopMessage {\n        let buf = self.make_buf(method);\n        IoLoopMessage::Send(buf)\n    }", ['C01', 'C04', 'C12', 'C13'])


# a smaller (still positive) read quantum once the frame size is known: same frames, more reads -- R06.9 only objects to room derived from the buffer's storage state
B('reserve-capped-by-frame-size', FB, 'reserve = usize::max(MIN_READ, frame_size);', 'reserve = usize::min(MIN_READ, frame_size);', ['C06', 'C03', 'C05', 'C07'])


def BP(name, patch, properties):
    """behaviour-preserving edit given as a patch file under selftest/patches/"""
    import os
    BENIGN.append({'name': name, 'properties': properties, 'edit': {'kind': 'patch', 'path': os.path.join(os.path.dirname(os.path.abspath(__file__)), 'patches', patch)}})


# the seal gate of the producers moved into a closure-taking helper (drain_written left alone: the behaviour-preserving half of seeded/C18-3)
BP('gate-helper-with-closure', 'benign-gate-helper-with-closure.diff', ['C01', 'C08', 'C18', 'C07', 'C20', 'C05'])

# the explicit-id rejection extracted into a Result-returning helper used with `?`
B('extract-id-check-helper', SLOTS, "        if channel_id == 0 || channel_id > self.channel_max {\n            return UnavailableChannelIdSnafu { channel_id }.fail();\n        }\n        match self.slots.entry(channel_id) {",
  "        self.check_explicit_id(channel_id)?;\n        match self.slots.entry(channel_id) {", ['C04', 'C07', 'C10', 'C15', 'C20'])
BENIGN[-1]['edit2'] = {'kind': 'sub', 'file': SLOTS, 'old': "    pub(crate) fn remove(&mut self, channel_id: u16) -> Option<T> {",
                       'new': "    fn check_explicit_id(&self, channel_id: u16) -> Result<()> {\n        if channel_id == 0 || channel_id > self.channel_max {\n            return UnavailableChannelIdSnafu { channel_id }.fail();\n        }\n        Ok(())\n    }\n\n    pub(crate) fn remove(&mut self, channel_id: u16) -> Option<T> {"}

# clippy's legacy_numeric_constants modernisation: u16::max_value() -> u16::MAX etc., crate-wide
BP('int-max-consts', 'benign-int-max-consts.diff', ['C02', 'C07', 'C10', 'C15', 'C16', 'C18', 'C20'])

# named instead of wildcard loop bindings, a local inlined, two locals hoisted (token, chunk)
BP('locals-and-wildcards', 'benign-locals-and-wildcards.diff', ['C01', 'C05', 'C07', 'C08', 'C11', 'C13', 'C17', 'C18', 'C20'])

# storing None again after `self.kind.take()` is a dead store: dropping it changes nothing (was wrongly listed as a mutant)
B('dead-store-after-take', COLL, '                Content::Done(return_) => {\n                    self.kind = None;\n                    Ok(Some(CollectorResult::Return(return_)))\n                }\n                Content::NeedMore(state) => {\n                    self.kind = Some(Kind::Return(state));\n                    Ok(None)\n                }\n            },\n            Some(Kind::Get(state)) => match state.collect_body',
  '                Content::Done(return_) => {\n                    Ok(Some(CollectorResult::Return(return_)))\n                }\n                Content::NeedMore(state) => {\n                    self.kind = Some(Kind::Return(state));\n                    Ok(None)\n                }\n            },\n            Some(Kind::Get(state)) => match state.collect_body', ['C03', 'C07'])
