#!/bin/bash
# usage: mutp.sh <prop> <python-snippet-file-or-inline>  : python code edits /repo files (variable REPO), then check runs, then undo
prop=$1; shift
python3 -c "
import re,sys
REPO='/repo'
def sub(path, old, new, count=1):
    p=REPO+'/'+path; s=open(p).read()
    assert old in s, 'pattern not found: '+old[:60]
    s=s.replace(old,new,count); open(p,'w').write(s)
$1
"
(cd /repo && git diff --stat | tail -1)
cd /verif && ./check $prop 2>&1 | grep -E "VIOLATION|key=|^C[0-9]+:" | head -${2:-8}
cd /repo && git checkout -- .
