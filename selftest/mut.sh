#!/bin/bash
# usage: mut.sh <prop> <file> <sed-expr>   -- apply a one-site edit to /repo, run the check, undo
prop=$1; file=$2; expr=$3
cd /repo && sed -i "$expr" "$file" && (git diff --stat | tail -1)
cd /verif && ./check $prop 2>&1 | grep -E "VIOLATION|key=|^C[0-9]+:" | head -${4:-8}
cd /repo && git checkout -- . 
